#!/bin/bash
# tools/bt.sh <seconds> <cmd...> : run cmd in the background, after <seconds> print a gdb backtrace of all threads, kill it
s="$1"; shift
"$@" > /tmp/bt.out 2>&1 &
pid=$!
sleep "$s"
if kill -0 $pid 2>/dev/null; then
  gdb -p $pid -batch -ex "thread apply all bt 30" 2>/dev/null | grep -E "^#|^Thread" | cut -c1-220
  kill $pid
else
  echo "process already finished:"; tail -5 /tmp/bt.out
fi
