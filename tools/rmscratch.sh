#!/bin/bash
# tools/rmscratch.sh <name> : remove the scratch worktree, harness copy and build output
name="$1"; base=/tmp/vpw-$name
git -C /repo worktree remove --force "$base/repo" 2>/dev/null || true
rm -rf "$base"
git -C /repo worktree prune
