#!/bin/bash
# tools/scratch_run.sh <name> <bin> [args...] : sync harness sources into the scratch copy, build, run there.
set -u
name="$1"; bin="$2"; shift 2
base=/tmp/vpw-$name
rsync -a --exclude target --exclude target-fv --exclude 'build-*.log' --exclude Cargo.toml --exclude .cargo /verif/harness/ "$base/harness/"
# manifests: rewrite path deps, replace only when content differs (keeps cargo fingerprints)
(cd /verif/harness && find . -name Cargo.toml) | while read -r f; do
  sed "s#\"/repo/#\"$base/repo/#g" "/verif/harness/$f" > "$base/.tmp.toml"
  if ! cmp -s "$base/.tmp.toml" "$base/harness/$f"; then mkdir -p "$(dirname "$base/harness/$f")"; cp "$base/.tmp.toml" "$base/harness/$f"; fi
done
cd "$base/harness" || exit 2
if ! CARGO_NET_OFFLINE=true cargo build --release --bin "$bin" > "$base/build.log" 2>&1; then tail -30 "$base/build.log" >&2; echo "BUILD FAILED" >&2; exit 2; fi
VERIF_ROOT="$base/root" "$base/target/release/$bin" "$@"
