#!/usr/bin/env python3
"""Regenerates /verif/MANIFEST.json from the table below (kept valid at all times)."""
import json, sys
ALL = ["C%02d" % i for i in range(1, 21)]
# id -> (level, technique, level text, note, design_ref)
CLAIMED = {
 "C19": ("exploration", "property-based testing against a Vec<bool> reference model; exhaustive offset x length x content grid + proptest-generated cases and builder histories",
         "Every public bit-mask primitive is compared with the same operation on a Vec<bool>, including the whole destination byte image for in-place operations; the offsets x lengths grid named in the property is enumerated completely (quick: 15 offsets x 201 lengths x 3 contents per family; thorough adds all second offsets), larger sizes and histories are sampled. Exploration, not proof: sizes above 10 000 bits and offsets above 130 are not covered.",
         "trusts rustc/std, proptest, and the ~100-line Vec<bool> model in harness/vp-checks/src/bin/c19.rs; preconditions mirrored: set_bits needs a zeroed destination range, equal lengths for binary ops, bitwise closures", "DESIGN.md §3 C19"),
 "C03": ("exploration", "property-based testing against naive row-by-row reference kernels on logical values; model-based histories for the batch coalescer (proptest-generated types, layouts, predicates, index arrays, push/filter/finish/pop sequences)",
         "Every selection kernel (filter, FilterBuilder, take, concat, interleave, zip, merge, merge_n, nullif, shift, slice, dictionary GC, record-batch forms) is run on generated columns of every data type in generated physical layouts and compared row by row with a reference on logical values; outputs are also judged by two validators. The BatchCoalescer is driven by generated histories against a model queue (row sequence, exact batch sizes, buffered-row accounting). Exploration: thousands of cases per kernel aimed at the selectivity/type thresholds named in DESIGN.md, not a proof.",
         "trusts the engine's realiser/extractor (cross-checked by C02 readback) and the 60-line reference kernels in vp-engine/src/refsel.rs; mirrors documented preconditions (in-bounds valid indices, equal lengths, merge without null mask, target>=1); two open known findings (F9 nullif on run-end arrays, F10 take on unions with out-of-range null index) are excluded by construction and re-checked by the `findings` sub-check", "DESIGN.md §3 C03"),

 "C09": ("exploration", "property-based differential acceptance testing: proptest-generated near-valid layouts (valid realised arrays hit by 1-2 layout mutations) fed to every validating entry point; oracle = independent spec validator + bounded accessor walk",
         "Valid arrays of every type/layout are decomposed and mutated (length/offset overflow, short/missing/misaligned buffers, validity size/null_count, wrong children, offsets, UTF-8 boundaries, dictionary keys, views, list-view ranges, run ends, union ids/offsets) and fed to ArrayData::try_new, ArrayDataBuilder::build (with/without align_buffers), build_unchecked+validate_full and the typed try_new/new constructors; acceptance must imply acceptance by an independent validator written from the format spec, followed by an accessor/kernel walk without panic; unmutated controls must be accepted. Exploration over ~250k near-valid layouts per quick run, not a proof of completeness of validation.",
         "trusts the independent validator vp-engine/src/validate.rs (itself run on every array the harness realises); constructor panics count as rejection; field nullability judged only for typed constructors; open findings F1, F3a, F3b-struct excluded by signature/construction and re-checked by the findings sub-check", "DESIGN.md §3 C09"),
 "C04": ("exploration", "property-based round-trip testing (proptest-generated schemas, batch sequences, physical layouts, write options, dictionary histories, reader kinds/projections) through IPC file/stream/StreamEncoder/Flight with a logical-value oracle and an expected-error model of DictionaryTracker",
         "Writer->reader round trips over a committed IPC type grid x layouts x options (alignment, V4/V5, LZ4/ZSTD, Resend/Delta) x readers (FileReader, builder+projection, FileDecoder, StreamReader, StreamDecoder chunked) and Flight encoder/decoders with size limits; decoded schema and logical values must equal the input, projection must equal projecting a full read, dictionary evolution outcomes must follow the documented accept/reject table. Exploration (tens of thousands of scenarios per run).",
         "trusts engine realiser/extractor; no independent IPC implementation exists offline, so the oracle is round-trip + documented error table; 9 open findings excluded by construction (see known_findings.json)", "DESIGN.md §3 C04"),
 "C05": ("exploration", "property-based round-trip testing of the Arrow Parquet writer/reader over generated schemas, values, layouts, WriterProperties and write/flush partitions; serial-vs-parallel column writer differential with harness-owned completion order",
         "Generated batches (writer-supported type grid committed as data, nesting to depth 3-4, nulls at every level) are written under generated WriterProperties (version, encodings, dictionary fallback, page/row-group/write-batch limits, codecs, statistics, bloom, CDC) and partitions into write()/flush() calls, read back with generated batch sizes and compared by logical values and schema; the same data encoded by independent column writers released in generated order must decode identically. Exploration.",
         "trusts engine realiser/extractor; no independent Parquet implementation offline (round-trip oracle only); 8 open findings excluded by construction via the grid's known_defects lists", "DESIGN.md §3 C05"),
 "C06": ("exploration", "property-based differential testing: reader with generated projection/row groups/RowSelection/RowFilter/offset/limit/batch size/policy vs an in-memory reference computed from an unrestricted read; Vec<bool> position model for the RowSelection algebra",
         "For generated files (page/row-group layouts, flat and nested columns, with/without offset index, V1/V2) and generated read configurations the reader output must equal the reference obtained by reading everything and applying the documented order of operations in memory; no batch may exceed the batch size; RowSelection operations are compared with a position-set model incl. scan_ranges. Exploration (1.2M evaluations per quick run).",
         "trusts engine extractor and the sync full read as ground truth of file content (C05 checks that separately); pub(crate) offset/limit/trim reached only through with_offset/with_limit; open finding C06-delta-skip-overflow excluded by construction", "DESIGN.md §3 C06"),
 "C07": ("exploration", "property-based soundness testing of statistics/page index/bloom filter against ground truth decoded page by page with the low-level reader and reference comparators written from the Parquet spec",
         "Files over all sort orders (signed/unsigned, float total order with NaNs/zeros, decimals on every physical type, truncated UTF-8/binary bounds, booleans, intervals) are written with generated statistics/truncation/bloom settings; every chunk/page min/max must bound the decoded values (and be attained when flagged exact), null/row counts exact, boundary_order true, offset index consistent, Sbbf::check true for every written value, StatisticsConverter consistent. Exploration.",
         "trusts the low-level page reader for ground truth (independent of the indexes under test) and the reference comparators in c07.rs; 3 open findings excluded by construction", "DESIGN.md §3 C07"),
 "C10": ("exploration", "property-based relational testing: comparator laws on all slot pairs/triples, and sort/lexsort/rank/partition/comparison kernels checked against make_comparator and an independent model order on logical values",
         "For generated arrays of every sortable/comparable type and layout under all four SortOptions: comparator is a total preorder consistent with model equality and the model order; sort/sort_limit/lexsort outputs are sorted permutations with correct limit semantics; rank and partition are those induced by the comparator; eq/lt/distinct kernels agree per row incl. scalar and dictionary/run-end operands; unsupported types return the documented Err. Exploration with exhaustive pair/triple checks per small array.",
         "trusts the model order in order_model.rs (three-way agreement with make_comparator is itself checked); 5 open findings excluded by construction", "DESIGN.md §3 C10"),
 "C11": ("exploration", "property-based testing of the row format against a model tuple order: all row pairs within and across conversion histories on one converter; decode/binary round-trips",
         "For generated SortField tuples (all supported types to depth 3, all SortOptions) and converter histories (convert_columns, append, push, from_binary, parser, OwnedRow) every pair of rows must compare as the model tuple order and be byte-equal exactly when logically equal; convert_rows of any selection returns the values with the documented output types and valid arrays; block-boundary grid for variable-length data. Exploration.",
         "trusts order_model.rs; rows of different converters are never compared (documented); 4 open findings excluded by construction", "DESIGN.md §3 C11"),
 "C12": ("exploration", "property-based testing against arbitrary-precision references (num-bigint) with exhaustive 8-bit operand grids (16-bit in thorough), boundary-dense sampling, error-inducing garbage under nulls; exhaustive three-valued boolean tables",
         "Checked/wrapping integer, i256, decimal (result type + exact value), float, temporal/interval arithmetic in all Datum shapes, aggregates over lengths 0..=300 x null patterns incl. dictionary/run-end accessors, and boolean/Kleene kernels are compared with exact references; an error may only come from a valid slot; results null exactly where an input is null. 8-bit pairs exhaustive in quick, all 2^32 16-bit pairs in thorough.",
         "trusts num-bigint and the reference formulas in c12.rs (decimal result-type rules taken from the decimal_op docs); documented leniencies listed in the evidence assumptions; 3 open findings excluded by construction", "DESIGN.md §3 C12"),
 "C13": ("exploration", "property-based testing of casts: exhaustive support matrix over an 84-type grid, strict/safe duality against exact reference conversions (exhaustive 8-bit sources, 16-bit in thorough), lossless inverse pairs, text and DataType Display/parse round-trips",
         "Every grid pair accepted by can_cast_types must cast without an unsupported-style error to exactly the target type with valid output; strict mode errors exactly when a value is not representable and safe mode nulls exactly those rows for the numeric/temporal families with an exact reference; lossless casts invert; formatting then parsing returns the value over the full range; DataType Display parses back. Exploration + exhaustive sub-spaces.",
         "trusts the reference conversions in c13.rs restricted to pairs whose documented semantics are exact (restrictions listed as assumptions); 19 open findings excluded by construction, each with a reproduction", "DESIGN.md §3 C13"),
 "C15": ("exploration", "property-based differential testing under adversarial I/O schedules generated by proptest: sync reader vs async stream (poll_next / next_row_group) with generated Pending/vectored/metadata behaviour vs push decoder with generated delivery order, supersets, duplicates, early and whole-file delivery and into_builder rebuilds; range-log invariants",
         "For generated files and option sets the async stream driven by a manual executor over an adversarial AsyncFileReader and the push decoder under a generated delivery schedule must return exactly the rows of the synchronous reader; every requested range lies in the file, supplying exactly the requested ranges makes progress, nothing is requested after Finished. The harness owns the schedule. Exploration.",
         "trusts the sync reader as reference (C06 checks it); each requested range is delivered inside one supplied buffer (documented PushBuffers precondition); future cancellation out of scope", "DESIGN.md §3 C15"),
 "C17": ("exploration", "property-based round-trip and cross-implementation testing: generated batches/options through CSV, JSON and Avro writers and readers; RFC 8259 / RFC 4180 documents rendered by independent renderers (serde_json as acceptor only); apache-avro as independent Avro implementation; hand-made Avro encoder",
         "Round trips over committed per-format type grids and generated option sets (quoting, escapes, terminators, null sentinels, JSON framings/struct modes/explicit nulls, every Avro codec and framing); JSON/CSV readers must decode construction-known values from independently rendered documents and reject invalid ones; Avro files must decode identically under apache-avro in both directions. Exploration.",
         "trusts my RFC renderers, serde_json (acceptor), apache-avro 0.22, std float parsing; generator constraints implement the property's 'unambiguous text' clause; 14 open findings excluded by construction", "DESIGN.md §3 C17"),
 "C18": ("fault_enumeration", "fault injection with enumeration of every I/O call index and every truncation length: instrumented Write/Read/Seek/ChunkReader wrappers (error once/permanent, short, Interrupted, Ok(0)) over proptest-generated scenarios for all writers and readers",
         "For each generated scenario the fault-free I/O trace is recorded and every call index is re-run with each fault kind (all indices for traces <=200 calls, stratified above; all in thorough), and every prefix length of every produced file (all for files <=8 KiB) is fed to the readers: faults must surface as Err without panic/hang, finish must not succeed unless all bytes were accepted, deterministic writers' output before the fault is a prefix, readers never return wrong rows, footer formats reject every proper prefix, stream formats yield a row prefix.",
         "trusts the fault wrappers in c18.rs and the complete-file read as reference; CSV truncation judged per the carve-out in DESIGN; a writer is not used again after it returned Err; open finding C18-csv-into_inner-unwrap excluded by construction", "DESIGN.md §3 C18"),
 "C20": ("exploration", "property-based testing against naive char-level reference implementations (backtracking LIKE matcher, per-char case folding taken from the regex engine, char-indexed substring) with exhaustive short-pattern grids and cross-representation differential (Utf8/LargeUtf8/Utf8View/Dictionary)",
         "Every pattern of length <=4 (<=5 thorough) over {%,_,\\,a,é} against a fixed multi-byte string set plus sampled patterns at the classifier boundaries, for all LIKE variants, starts/ends_with/contains, regexp kernels vs regex::Regex, substring (byte and char), length/bit_length and concat_elements, in all operand shapes and encodings; outputs valid. Exploration + exhaustive sub-space.",
         "trusts the reference matcher in c20_ref.rs and the regex crate for case equivalence (the property's own definition); 2 open findings excluded by construction", "DESIGN.md §3 C20"),
}
REASON_TODO = "check not built yet in this session (technique applies; see DESIGN.md §3) - not claimed until a sound check exists"
def main():
    checks = []
    for pid in ALL:
        if pid not in CLAIMED: continue
        level, tech, text, note, ref = CLAIMED[pid]
        checks.append({
            "property_id": pid,
            "quick_cmd": f"./check {pid} --tier quick",
            "thorough_cmd": f"./check {pid} --tier thorough",
            "evidence_file": f"/verif/evidence/{pid}.json",
            "replay_cmd_template": f"./check {pid} --replay {{path}}",
            "engine": "vp-harness",
            "level_claimed": {"category": level, "text": text, "design_ref": ref},
            "level_note": note,
            "technique": tech,
        })
    m = {
        "version": 1,
        "setup_cmd": "cd /verif/harness && CARGO_NET_OFFLINE=true cargo build --release --bins",
        "hooks": {
            "guard": "none",
            "enable": "no source hooks: all checks use public API of the crates in /repo (path dependencies, rebuilt from the working tree by ./check)",
            "baseline_off_cmd": "cd /repo && cargo nextest run --workspace --no-fail-fast --tool-config-file pb:/w/lib/nextest.toml --profile pb --test-threads 8 --offline",
            "source_commits": [],
            "add_only": True,
        },
        "engines": [{
            "name": "vp-harness", "path": "/verif/harness",
            "serves_properties": sorted(CLAIMED.keys()),
            "kind_free_text": "Rust workspace (vp-engine library + one binary per property) depending on /repo crates by path; proptest TestRunner drives entropy tapes decoded into structured cases; shrinking by proptest; replay files under /verif/out; known findings in /verif/known_findings.json",
        }],
        "checks": checks,
        "notes": "All random choices derive from VERIF_SEED through proptest (ChaCha, fixed seed, no persistence). exit 2 = inconclusive/infrastructure. fix: commits in /repo are listed in known_findings.json as status=fixed.",
        "not_applicable": [{"property_id": p, "reason": REASON_TODO} for p in ALL if p not in CLAIMED],
    }
    json.dump(m, open("/verif/MANIFEST.json", "w"), indent=1)
    try:
        import jsonschema
        jsonschema.validate(m, json.load(open("/root/.vp/MANIFEST.schema.json")))
        print("MANIFEST.json valid;", len(checks), "checks")
    except ImportError:
        print("jsonschema not importable; written without validation")
main()
