#!/usr/bin/env python3
"""Regenerates /verif/MANIFEST.json from the table below (kept valid at all times)."""
import json, sys
ALL = ["C%02d" % i for i in range(1, 21)]
# id -> (level, technique, level text, note, design_ref)
CLAIMED = {
 "C19": ("exploration", "property-based testing against a Vec<bool> reference model; exhaustive offset x length x content grid + proptest-generated cases and builder histories",
         "Every public bit-mask primitive is compared with the same operation on a Vec<bool>, including the whole destination byte image for in-place operations; the offsets x lengths grid named in the property is enumerated completely (quick: 15 offsets x 201 lengths x 3 contents per family; thorough adds all second offsets), larger sizes and histories are sampled. Exploration, not proof: sizes above 10 000 bits and offsets above 130 are not covered.",
         "trusts rustc/std, proptest, and the ~100-line Vec<bool> model in harness/vp-checks/src/bin/c19.rs; preconditions mirrored: set_bits needs a zeroed destination range, equal lengths for binary ops, bitwise closures", "DESIGN.md §3 C19"),
 "C03": ("exploration", "property-based testing against naive row-by-row reference kernels on logical values; model-based histories for the batch coalescer (proptest-generated types, layouts, predicates, index arrays, push/filter/finish/pop sequences)",
         "Every selection kernel (filter, FilterBuilder, take, concat, interleave, zip, merge, merge_n, nullif, shift, slice, dictionary GC, record-batch forms) is run on generated columns of every data type in generated physical layouts and compared row by row with a reference on logical values; outputs are also judged by two validators. The BatchCoalescer is driven by generated histories against a model queue (row sequence, exact batch sizes, buffered-row accounting). Exploration: thousands of cases per kernel aimed at the selectivity/type thresholds named in DESIGN.md, not a proof.",
         "trusts the engine's realiser/extractor (cross-checked by C02 readback) and the 60-line reference kernels in vp-engine/src/refsel.rs; mirrors documented preconditions (in-bounds valid indices, equal lengths, merge without null mask, target>=1); two open known findings (F9 nullif on run-end arrays, F10 take on unions with out-of-range null index) are excluded by construction and re-checked by the `findings` sub-check", "DESIGN.md §3 C03"),
}
REASON_TODO = "check not built yet in this session (technique applies; see DESIGN.md §3) - not claimed until a sound check exists"
def main():
    checks = []
    for pid in ALL:
        if pid not in CLAIMED: continue
        level, tech, text, note, ref = CLAIMED[pid]
        checks.append({
            "property_id": pid,
            "quick_cmd": f"./check {pid} --tier quick",
            "thorough_cmd": f"./check {pid} --tier thorough",
            "evidence_file": f"/verif/evidence/{pid}.json",
            "replay_cmd_template": f"./check {pid} --replay {{path}}",
            "engine": "vp-harness",
            "level_claimed": {"category": level, "text": text, "design_ref": ref},
            "level_note": note,
            "technique": tech,
        })
    m = {
        "version": 1,
        "setup_cmd": "cd /verif/harness && CARGO_NET_OFFLINE=true cargo build --release --bins",
        "hooks": {
            "guard": "none",
            "enable": "no source hooks: all checks use public API of the crates in /repo (path dependencies, rebuilt from the working tree by ./check)",
            "baseline_off_cmd": "cd /repo && cargo nextest run --workspace --no-fail-fast --tool-config-file pb:/w/lib/nextest.toml --profile pb --test-threads 8 --offline",
            "source_commits": [],
            "add_only": True,
        },
        "engines": [{
            "name": "vp-harness", "path": "/verif/harness",
            "serves_properties": sorted(CLAIMED.keys()),
            "kind_free_text": "Rust workspace (vp-engine library + one binary per property) depending on /repo crates by path; proptest TestRunner drives entropy tapes decoded into structured cases; shrinking by proptest; replay files under /verif/out; known findings in /verif/known_findings.json",
        }],
        "checks": checks,
        "notes": "All random choices derive from VERIF_SEED through proptest (ChaCha, fixed seed, no persistence). exit 2 = inconclusive/infrastructure. fix: commits in /repo are listed in known_findings.json as status=fixed.",
        "not_applicable": [{"property_id": p, "reason": REASON_TODO} for p in ALL if p not in CLAIMED],
    }
    json.dump(m, open("/verif/MANIFEST.json", "w"), indent=1)
    try:
        import jsonschema
        jsonschema.validate(m, json.load(open("/root/.vp/MANIFEST.schema.json")))
        print("MANIFEST.json valid;", len(checks), "checks")
    except ImportError:
        print("jsonschema not importable; written without validation")
main()
