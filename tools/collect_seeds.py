#!/usr/bin/env python3
"""Collect the seeded changes delivered by the independent sub-agents (/tmp/seed-out/<ID>/) into /verif/seeded/<ID>/:
patch.diff, demo.diff (+ demo.rs when delivered), meta.json = the agent's description + my own confirmation
(tools/verify_seed.sh: existing tests with the patch, demonstration with / without it) + which of my checks report it
(tools/run_checks_on_seed.sh, quick tier, seed 1, scratch worktree).  A seed is only collected when confirmed."""
import json, os, re, shutil, subprocess, sys

SRC = "/tmp/seed-out"; DST = "/verif/seeded"
base = subprocess.run(["git", "-C", "/repo", "rev-parse", "--short", "HEAD"], capture_output=True, text=True).stdout.strip()

def checks(d):
    res = {}
    for fn in ("checks.txt", "checks_rerun.txt"):
        p = os.path.join(d, fn)
        if not os.path.exists(p): continue
        for line in open(p):
            m = re.match(r"(c\d\d) rc=(\d+) violations=(\d+) ?(.*)", line.strip())
            if m: res[m.group(1).upper()] = {"rc": int(m.group(2)), "violations": int(m.group(3)), "first_failures": m.group(4)[:300]}
    return res

for sid in sorted(os.listdir(SRC)):
    d = os.path.join(SRC, sid)
    if not os.path.isdir(d) or not os.path.exists(os.path.join(d, "patch.diff")): continue
    v = {}
    if os.path.exists(os.path.join(d, "verify.json")): v = json.load(open(os.path.join(d, "verify.json")))
    extra = {}
    if os.path.exists(os.path.join(d, "verify_extra.json")): extra = json.load(open(os.path.join(d, "verify_extra.json")))
    ok_existing = v.get("existing_tests_with_patch") == "pass" or extra.get("existing_tests_with_patch_same_failures_as_base") is True
    confirmed = ok_existing and v.get("demo_with_patch") == "fails" and v.get("demo_without_patch") == "passes"
    if not confirmed:
        print(sid, "NOT confirmed:", v, extra); continue
    try: m = json.load(open(os.path.join(d, "meta.json")))
    except Exception: m = {}
    out = os.path.join(DST, sid); os.makedirs(out, exist_ok=True)
    for f in ("patch.diff", "demo.diff", "demo.rs"):
        if os.path.exists(os.path.join(d, f)): shutil.copy(os.path.join(d, f), os.path.join(out, f))
    ck = checks(d)
    caught = sorted(k for k, r in ck.items() if r["violations"] > 0)
    meta = {
        "id": sid, "breaks_property": sid.rstrip("bc"),
        "files_changed": m.get("files_changed") or m.get("files") or v.get("crates"),
        "what_it_breaks": m.get("what_it_breaks") or m.get("what") or m.get("description"),
        "needs_to_manifest": m.get("needs_to_manifest") or m.get("needs"),
        "demonstration": {"file": "demo.diff", "command": v.get("demo_command")},
        "produced_by": "independent sub-agent given only the property text and its own git worktree of /repo (nothing from /verif)",
        "confirmed_by_me": {
            "worktree": "fresh git worktree of /repo under /tmp (tools/verify_seed.sh), removed afterwards",
            "existing_tests_of_touched_crates_with_patch": v.get("existing_tests_with_patch"),
            "demonstration_with_patch": v.get("demo_with_patch"), "demonstration_without_patch": v.get("demo_without_patch"),
            **extra,
        },
        "applies_to_repo_head": base,
        "my_checks_quick_tier_seed1": ck,
        "caught_by": caught,
        "agent_commands": m.get("commands_run") or m.get("commands") or m.get("results"),
    }
    if os.path.exists(os.path.join(d, "strengthened.txt")): meta["strengthened"] = open(os.path.join(d, "strengthened.txt")).read().strip()
    json.dump(meta, open(os.path.join(out, "meta.json"), "w"), indent=1)
    print(sid, "collected; caught by", caught or "NONE")
