#!/usr/bin/env python3
"""Compare the junit.xml of a nextest run of /repo (BASELINE.json cmd) with BASELINE.json's stable_pass list."""
import json, sys, xml.etree.ElementTree as ET
b = json.load(open('/root/.vp/BASELINE.json')); sp = set(b['stable_pass'])
root = ET.parse(sys.argv[1] if len(sys.argv) > 1 else '/repo/target/nextest/pb/junit.xml').getroot()
passed, failed = set(), set()
for tc in root.iter('testcase'):
    tid = (tc.get('classname') or '') + '::' + (tc.get('name') or '')
    if tc.find('failure') is not None or tc.find('error') is not None: failed.add(tid)
    elif tc.find('skipped') is None: passed.add(tid)
missing = sorted(sp - passed)
print(f"stable_pass={len(sp)} passed={len(passed)} failed={len(failed)} stable_pass_not_passed={len(missing)}")
for m in missing[:50]: print("  NOT PASSED:", m)
sys.exit(1 if missing else 0)
