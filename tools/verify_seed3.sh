#!/bin/bash
# tools/verify_seed3.sh <PROP-ID> <SEED-ID> : like verify_seed.sh, but confirms in the (cleaned) scratch worktree /tmp/s3-<PROP-ID>
# with its warm target dir /tmp/s3-<PROP-ID>-target; delivery directory /tmp/seed-out/<SEED-ID>/ (notes.json or meta.json).
p="$1"; id="$2"
wt=/tmp/s3-$p; d=/tmp/seed-out/$id
export CARGO_NET_OFFLINE=true CARGO_TARGET_DIR=/tmp/s3-$p-target
[ -f "$d/meta.json" ] || cp "$d/notes.json" "$d/meta.json"
[ -f "$d/patch.diff" ] || { echo "$id: no patch"; exit 1; }
cd "$wt" && git checkout -q -- . && git clean -fdq
crates=$(grep '^+++ b/' "$d/patch.diff" | sed 's#^+++ b/##' | cut -d/ -f1 | sort -u | tr '\n' ' ')
democmd=$(python3 -c "
import json,re
m=json.load(open('$d/meta.json'))
c=m.get('demo_command','')
c=re.sub(r'cd /tmp/\S+ *&& *','',c)
c=re.sub(r'CARGO_TARGET_DIR=\S+ *','',c)
c=re.sub(r'CARGO_NET_OFFLINE=\S+ *','',c)
print(c)")
r1=skip; r2=skip; r3=skip
if git apply "$d/patch.diff"; then
  ok=1
  for c in $crates; do
    if [ "$c" = "parquet" ]; then args="-p parquet --lib --features arrow,async"; else args="-p $c --lib --tests"; fi
    cargo test $args --offline > "$d/verify_existing_$c.log" 2>&1 || ok=0
  done
  [ $ok = 1 ] && r1=pass || r1=FAIL
  if git apply "$d/demo.diff" && [ -n "$democmd" ]; then
    if bash -c "$democmd" > "$d/verify_demo_with.log" 2>&1; then r2=UNEXPECTED-PASS; else r2=fails; fi
    git apply -R "$d/patch.diff"
    if bash -c "$democmd" > "$d/verify_demo_without.log" 2>&1; then r3=passes; else r3=UNEXPECTED-FAIL; fi
  else r2=demo-not-applicable; r3=demo-not-applicable; fi
else r1=patch-does-not-apply; fi
echo "{\"id\": \"$id\", \"crates\": \"$crates\", \"existing_tests_with_patch\": \"$r1\", \"demo_with_patch\": \"$r2\", \"demo_without_patch\": \"$r3\", \"demo_command\": \"$(echo $democmd | sed 's/"/\\"/g')\"}" > "$d/verify.json"
cat "$d/verify.json"
cd "$wt" && git checkout -q -- . && git clean -fdq
