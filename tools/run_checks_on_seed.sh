#!/bin/bash
# tools/run_checks_on_seed.sh <scratch-name> <ID>... : apply /tmp/seed-out/<ID>/patch.diff (or /verif/seeded/<ID>/patch.diff) in the scratch
# worktree, run the quick tier of every check there, record which report a violation. Output: <dir>/checks.txt
name="$1"; shift
base=/tmp/vpw-$name
[ -d "$base" ] || /verif/tools/mkscratch.sh "$name" >/dev/null
for id in "$@"; do
  d=/tmp/seed-out/$id; [ -f "$d/patch.diff" ] || d=/verif/seeded/$id
  (cd "$base/repo" && git checkout -q -- . && git apply "$d/patch.diff") || { echo "$id: patch failed"; continue; }
  : > "$d/checks.txt"
  for c in ${CHECKS:-c01 c02 c03 c04 c05 c06 c07 c08 c09 c10 c11 c12 c13 c14 c15 c16 c17 c18 c19 c20}; do
    [ -f /verif/harness/vp-checks/src/bin/$c.rs ] || continue
    out=$(VERIF_CASE_TIMEOUT=120 timeout 1500 /verif/tools/scratch_run.sh "$name" $c --tier quick --seed 1 2>&1); rc=$?
    v=$(echo "$out" | grep -c "^VIOLATION")
    sig=$(echo "$out" | grep "^failure" | head -2 | cut -c1-200 | tr '\n' ' ')
    echo "$c rc=$rc violations=$v $sig" >> "$d/checks.txt"
  done
  (cd "$base/repo" && git checkout -q -- .)
  echo "== $id"; grep -v "rc=0 violations=0" "$d/checks.txt"
done
