#!/bin/bash
# tools/run_checks_on_seed.sh <scratch-name> <ID>... : apply /tmp/seed-out/<ID>/patch.diff (or /verif/seeded/<ID>/patch.diff) in the scratch
# worktree (kept at /repo's HEAD), build every check there, run the quick tier of each, record which report a violation.
# CHECKS="c10 c11" restricts the checks; output: <dir>/checks.txt (appended when CHECKS is set)
name="$1"; shift
base=/tmp/vpw-$name
[ -d "$base" ] || /verif/tools/mkscratch.sh "$name" >/dev/null
git -C "$base/repo" checkout -q -- . ; git -C "$base/repo" checkout -q --detach "$(git -C /repo rev-parse HEAD)"
cp /verif/known_findings.json "$base/root/"
for id in "$@"; do
  d=/verif/seeded/$id; [ -f "$d/patch.diff" ] || d=/tmp/seed-out/$id
  (cd "$base/repo" && git checkout -q -- . && git apply "$d/patch.diff") || { echo "$id: patch failed"; continue; }
  out=$d/checks.txt; [ -n "${CHECKS:-}" ] && out=$d/checks_rerun.txt
  : > "$out"
  list=${CHECKS:-c01 c02 c03 c04 c05 c06 c07 c08 c09 c10 c11 c12 c13 c14 c15 c16 c17 c18 c19 c20}
  # build first (not under the run timeout)
  /verif/tools/scratch_run.sh "$name" c19 --tier quick --only none >/dev/null 2>&1
  (cd "$base/harness" && CARGO_NET_OFFLINE=true cargo build --release $(for c in $list; do echo --bin $c; done) > "$base/build-all.log" 2>&1) || echo "$id: build failed" >> "$out"
  for c in $list; do
    [ -f /verif/harness/vp-checks/src/bin/$c.rs ] || continue
    o=$(VERIF_CASE_TIMEOUT=120 timeout 1800 /verif/tools/scratch_run.sh "$name" $c --tier quick --seed ${SEED:-1} 2>&1); rc=$?
    v=$(echo "$o" | grep -c "^VIOLATION")
    sig=$(echo "$o" | grep "^failure" | head -2 | cut -c1-200 | tr '\n' ' ')
    echo "$c rc=$rc violations=$v $sig" >> "$out"
  done
  (cd "$base/repo" && git checkout -q -- .)
  echo "== $id"; grep -v "rc=0 violations=0" "$out"
done
