#!/usr/bin/env python3
"""tools/triage_loop.py <ID> <sub> [max_rounds] [seed]: run one sub-check repeatedly; every new failure signature is appended to
known_findings.json as an OPEN entry with the shrunk replay tape (to be reviewed by hand afterwards). Development aid only."""
import json, re, subprocess, sys
pid, sub = sys.argv[1], sys.argv[2]
rounds = int(sys.argv[3]) if len(sys.argv) > 3 else 10
seed = sys.argv[4] if len(sys.argv) > 4 else "0"
exe = f"/verif/harness/target/release/{pid.lower()}"
for r in range(rounds):
    p = subprocess.run([exe, "--only", sub, "--seed", seed], capture_output=True, text=True, env={**__import__('os').environ, "VERIF_CASE_TIMEOUT": "60"})
    out = p.stdout
    m = re.search(r"VIOLATION property=\S+ replay=(\S+)", out)
    if p.returncode == 0:
        print(f"round {r}: quiet"); break
    if not m:
        print(f"round {r}: rc={p.returncode} without VIOLATION:\n{out[-600:]}\n{p.stderr[-300:]}"); break
    rp = json.load(open(m.group(1)))
    sig = rp.get("signature", "?")
    kf = json.load(open("/verif/known_findings.json"))
    n = sum(1 for f in kf["findings"] if f["property"] == pid)
    key = f"{pid}-auto{n}-{sub}"
    kf["findings"].append({"property": pid, "key": key, "status": "open", "signature": sig, "what": rp.get("message", "")[:400] + f" [sub-check {sub}; input: replay tape]", "repro": {"sub": rp["sub"], "tape": rp["tape"], "strict": rp.get("strict", True)}})
    json.dump(kf, open("/verif/known_findings.json", "w"), indent=2)
    print(f"round {r}: registered {key}: [{sig}] {rp.get('message','')[:200]}")
