#!/bin/bash
# tools/verify_seed.sh <lane> <ID>... : confirm seeded changes delivered under /tmp/seed-out/<ID>/ in a verification worktree
# /tmp/seedv-<lane> (own target dir): (1) affected crate's existing tests pass with the patch, (2) demonstration fails with it,
# (3) demonstration passes without it. Writes /tmp/seed-out/<ID>/verify.json
lane="$1"; shift
wt=/tmp/seedv-$lane
export CARGO_NET_OFFLINE=true CARGO_TARGET_DIR=/tmp/seedv-$lane-target
if [ ! -d "$wt" ]; then git -C /repo worktree add --detach "$wt" HEAD >/dev/null 2>&1; fi
for id in "$@"; do
  d=/tmp/seed-out/$id
  [ -f "$d/patch.diff" ] || { echo "$id: no patch"; continue; }
  cd "$wt" && git checkout -q -- . && git clean -fdq
  demo=$d/demo.diff
  crates=$(grep '^+++ b/' "$d/patch.diff" | sed 's#^+++ b/##' | cut -d/ -f1 | sort -u | tr '\n' ' ')
  democmd=$(python3 -c "
import json,sys,re
m=json.load(open('$d/meta.json'))
c=m.get('demo_command','')
c=re.sub(r'cd /tmp/seed2?-[A-Za-z0-9]+ *&& *','',c)
c=re.sub(r'CARGO_TARGET_DIR=\S+ *','',c)
c=re.sub(r'CARGO_NET_OFFLINE=\S+ *','',c)
print(c)" 2>/dev/null)
  r1=skip; r2=skip; r3=skip
  if git apply "$d/patch.diff" 2>/dev/null; then
    # (1) existing tests with the patch
    ok=1
    for c in $crates; do
      if [ "$c" = "parquet" ]; then args="-p parquet --lib --features arrow,async"; else args="-p $c"; fi
      if ! cargo test $args --offline > "$d/verify_existing_$c.log" 2>&1; then ok=0; fi
    done
    [ $ok = 1 ] && r1=pass || r1=FAIL
    if [ -f "$demo" ] && git apply "$demo" 2>/dev/null && [ -n "$democmd" ]; then
      # (2) demo with the patch must fail
      if bash -c "$democmd" > "$d/verify_demo_with.log" 2>&1; then r2=UNEXPECTED-PASS; else r2=fails; fi
      # (3) demo without the patch must pass
      git apply -R "$d/patch.diff"
      if bash -c "$democmd" > "$d/verify_demo_without.log" 2>&1; then r3=passes; else r3=UNEXPECTED-FAIL; fi
    else
      r2="demo-not-applicable"; r3="demo-not-applicable"
    fi
  else
    r1="patch-does-not-apply"
  fi
  echo "{\"id\": \"$id\", \"crates\": \"$crates\", \"existing_tests_with_patch\": \"$r1\", \"demo_with_patch\": \"$r2\", \"demo_without_patch\": \"$r3\", \"demo_command\": \"$(echo $democmd | sed 's/"/\\"/g')\"}" > "$d/verify.json"
  cat "$d/verify.json"
  cd "$wt" && git checkout -q -- . && git clean -fdq
done
