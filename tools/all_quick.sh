#!/bin/bash
# tools/all_quick.sh [seed] : run the quick tier of every registered check; print exit code, summary line and the keys of the KNOWN-FINDING lines
seed=${1:-0}
for i in 01 02 03 04 05 06 07 08 09 10 11 12 13 14 15 16 17 18 19 20; do
  o=$(/verif/check C$i --tier quick --seed $seed 2>&1); rc=$?
  k=$(echo "$o" | grep "^KNOWN-FINDING" | grep -o "\[[^]]*\]$" | sort | tr '\n' ' ')
  v=$(echo "$o" | grep -c "^VIOLATION")
  echo "C$i rc=$rc violations=$v $(echo "$o" | grep "^C$i tier" | tail -1) known=$(echo "$o" | grep -c "^KNOWN-FINDING") $k"
  [ $rc -ne 0 ] && echo "$o" | grep -E "^failure|^VIOLATION|^INCONCLUSIVE|generator health" | head -5
done
