#!/bin/bash
# tools/mkscratch.sh <name> [<patch.diff>...]
# Creates an isolated scratch environment OUTSIDE /repo and /verif to try a change to apache/arrow-rs:
#   /tmp/vpw-<name>/repo     git worktree of /repo at HEAD (patches applied if given)
#   /tmp/vpw-<name>/harness  copy of /verif/harness whose path dependencies point at that worktree
#   /tmp/vpw-<name>/target   its own cargo target dir ; /tmp/vpw-<name>/root = VERIF_ROOT for evidence/out
# Run a check there:   tools/scratch_run.sh <name> c19 [--tier quick ...]
# Remove it:           tools/rmscratch.sh <name>
set -eu
name="$1"; shift
base=/tmp/vpw-$name
if [ -e "$base" ]; then echo "$base exists; remove it first (tools/rmscratch.sh $name)" >&2; exit 2; fi
mkdir -p "$base/root"
git -C /repo worktree add --detach "$base/repo" HEAD >/dev/null 2>&1
for p in "$@"; do git -C "$base/repo" apply "$p"; done
mkdir -p "$base/harness"
rsync -a --exclude target --exclude target-fv --exclude 'build-*.log' /verif/harness/ "$base/harness/"
find "$base/harness" -name Cargo.toml -exec sed -i "s#\"/repo/#\"$base/repo/#g" {} +
cat > "$base/harness/.cargo/config.toml" <<EOF
[net]
offline = true
[build]
target-dir = "$base/target"
EOF
cp /verif/known_findings.json "$base/root/" 2>/dev/null || true
[ -d /verif/regress ] && cp -r /verif/regress "$base/root/" || true
echo "$base"
