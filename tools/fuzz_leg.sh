#!/bin/bash
# tools/fuzz_leg.sh <PROPERTY> <target> <seconds> <sub,sub,...>   (the sub-checks the target runs, for ./check <ID> --replay)
# Coverage-guided leg of a thorough tier: builds the libFuzzer target /verif/harness/fuzz/fuzz_targets/<target>.rs from /repo's
# current working tree (cargo-fuzz -O: ASan on, debug assertions off as in the release-mode checks) and runs it for <seconds> from a fresh corpus seeded with tapes of
# several lengths.  The target decodes the fuzzer's bytes with the same entropy-tape generators as the proptest driver and runs the
# same oracles (fuzz_targets/common.rs); an oracle failure aborts, libFuzzer saves the input, and this script turns it into a
# replay file and a VIOLATION line.  Exit 0: nothing found; 1: violation; 2: infrastructure problem (build failed etc.).
prop="$1"; target="$2"; secs="${3:-300}"; subs="${4:-}"
seed="${VERIF_SEED:-1}"; [ "$seed" = "0" ] && seed=1
root="${VERIF_ROOT:-/verif}"
work="$root/out/fuzz/$target"
rm -rf "$work"; mkdir -p "$work/corpus" "$work/artifacts"
cd /verif/harness || exit 2
export CARGO_NET_OFFLINE=true
if ! cargo +nightly fuzz build -O "$target" > "$work/build.log" 2>&1; then
  echo "INCONCLUSIVE property=$prop fuzz target $target did not build (see $work/build.log)"; exit 2
fi
# starting corpus: empty tape plus pseudo-random tapes of several lengths derived from the seed (libFuzzer ramps length slowly otherwise)
python3 - "$work/corpus" "$seed" <<'E'
import sys, hashlib
d, seed = sys.argv[1], sys.argv[2]
open(f"{d}/empty", "wb").write(b"")
for i, n in enumerate([16, 64, 256, 1024, 4096]):
    out = b""; k = 0
    while len(out) < n:
        out += hashlib.sha256(f"{seed}:{i}:{k}".encode()).digest(); k += 1
    open(f"{d}/r{i}", "wb").write(out[:n])
    open(f"{d}/z{i}", "wb").write(bytes(n))
E
start=$(date +%s)
# N independent libFuzzer processes sharing the corpus directory (-jobs/-workers; their logs are fuzz-<n>.log in the cwd)
bin=$(ls -t /verif/harness/target/x86_64-unknown-linux-gnu/release/$target /verif/harness/fuzz/target/x86_64-unknown-linux-gnu/release/$target 2>/dev/null | head -1)
[ -x "$bin" ] || { echo "INCONCLUSIVE property=$prop fuzz binary for $target not found"; exit 2; }
n=${FUZZ_JOBS:-8}
(cd "$work" && "$bin" "$work/corpus" -artifact_prefix="$work/artifacts/" -max_total_time="$secs" -seed="$seed" \
  -max_len=8192 -len_control=0 -jobs=$n -workers=$n -rss_limit_mb=4096 -timeout=120 > "$work/run.log" 2>&1)
rc=$?
cat "$work"/fuzz-*.log >> "$work/run.log" 2>/dev/null
wall=$(( $(date +%s) - start ))
execs=0; cov=0
for f in "$work"/fuzz-*.log; do
  e=$(grep -oE "^#[0-9]+" "$f" | tail -1 | tr -dc 0-9); execs=$(( execs + ${e:-0} ))
  c=$(grep -oE "cov: [0-9]+" "$f" | tail -1 | tr -dc 0-9); [ "${c:-0}" -gt "$cov" ] && cov=$c
done
ncorp=$(ls "$work/corpus" | wc -l)
art=$(ls "$work/artifacts" 2>/dev/null | grep -E "^(crash|oom|timeout)-" | head -1)
status=clean
if [ -n "$art" ]; then
  case "$art" in
    crash-*) status=violation ;;
    *) status=inconclusive ;;
  esac
fi
# record the leg in the evidence file written by the proptest driver just before (extra key under coverage)
python3 - "$root/evidence/$prop.json" "$target" "$secs" "$wall" "${execs:-0}" "${cov:-0}" "$ncorp" "$status" <<'E'
import json, sys
p, target, secs, wall, execs, cov, ncorp, status = sys.argv[1:]
try:
    e = json.load(open(p))
    e.setdefault("coverage", {})["fuzz_leg"] = {"engine": "libFuzzer (cargo-fuzz -O, ASan)", "target": target, "budget_s": int(secs), "wall_s": int(wall),
        "executions": int(execs), "coverage_edges": int(cov), "corpus_files": int(ncorp), "result": status}
    json.dump(e, open(p, "w"), indent=1)
except Exception as ex:
    print("fuzz_leg: evidence not updated:", ex)
E
echo "$prop fuzz-leg target=$target executions=${execs:-0} edges=${cov:-0} corpus=$ncorp wall=${wall}s result=$status"
if [ "$status" = violation ]; then
  mkdir -p "$root/out/$prop"
  rp="$root/out/$prop/fuzz-$target-$(echo "$art" | cut -c7-22).json"
  python3 - "$work/artifacts/$art" "$rp" "$prop" "$target" "$subs" <<'E'
import json, sys
a, rp, prop, target, subs = sys.argv[1:]
json.dump({"property": prop, "sub": "fuzz:" + target, "subs": [x for x in subs.split(",") if x], "tape": open(a, "rb").read().hex(), "strict": False,
           "how": f"cd /verif/harness && cargo +nightly fuzz run {target} {a}"}, open(rp, "w"), indent=1)
E
  grep "ORACLE FAILURE" "$work/run.log" | head -3
  echo "VIOLATION property=$prop replay=$rp"
  exit 1
fi
if [ "$status" = inconclusive ]; then
  echo "INCONCLUSIVE property=$prop fuzz target $target hit a libFuzzer $art (timeout/oom), saved under $work/artifacts"; exit 2
fi
[ $rc -ne 0 ] && [ -z "$art" ] && { echo "INCONCLUSIVE property=$prop libFuzzer exited with $rc without an artifact (see $work/run.log)"; exit 2; }
exit 0
