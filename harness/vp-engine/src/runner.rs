//! Property runner: proptest-driven generation of entropy tapes, parallel shards, shrinking, replay files,
//! known findings, evidence.
use crate::tape::{fnv, hex, unhex, Tape};
use proptest::prelude::*;
use proptest::test_runner::{Config, RngAlgorithm, RngSeed, TestCaseError, TestError, TestRunner};
use serde_json::{json, Value};
use std::cell::RefCell;
use std::collections::{BTreeMap, HashSet};
use std::panic::{catch_unwind, AssertUnwindSafe};
use std::sync::atomic::{AtomicBool, Ordering};
use std::sync::Mutex;
use std::time::Instant;

/// root for evidence/, out/, regress/, known_findings.json (override with VERIF_ROOT for scratch runs)
pub fn verif_root() -> String {
    std::env::var("VERIF_ROOT").unwrap_or_else(|_| "/verif".to_string())
}

#[derive(Clone, Copy, PartialEq, Eq, Debug)]
pub enum Tier {
    Quick,
    Thorough,
}
impl Tier {
    pub fn name(&self) -> &'static str {
        match self {
            Tier::Quick => "quick",
            Tier::Thorough => "thorough",
        }
    }
}

#[derive(Clone, Debug)]
pub struct Fail {
    /// narrow structural signature, matched against known findings
    pub sig: String,
    pub msg: String,
}
impl Fail {
    pub fn new(sig: impl Into<String>, msg: impl Into<String>) -> Self {
        Fail { sig: sig.into(), msg: msg.into() }
    }
}
pub type CaseResult = Result<(), Fail>;

#[macro_export]
macro_rules! fail {
    ($sig:expr, $($arg:tt)*) => {
        return Err($crate::runner::Fail::new($sig, format!($($arg)*)))
    };
}
#[macro_export]
macro_rules! ensure {
    ($cond:expr, $sig:expr, $($arg:tt)*) => {
        if !($cond) { return Err($crate::runner::Fail::new($sig, format!($($arg)*))); }
    };
}

/// Per-case context handed to an oracle.
pub struct Case {
    pub tape: Tape,
    pub tier: Tier,
    /// strict = replay mode: known-finding exclusions by generators are disabled
    pub strict: bool,
    pub classes: Vec<String>,
    pub nontrivial: bool,
    pub desc: Value,
    pub evals: u64,
    pub excluded: Vec<String>,
    pub index: u64,
}
impl Case {
    pub fn new(tape: Tape, tier: Tier, strict: bool) -> Self {
        Case {
            tape,
            tier,
            strict,
            classes: vec![],
            nontrivial: false,
            desc: Value::Null,
            evals: 0,
            excluded: vec![],
            index: 0,
        }
    }
    pub fn class(&mut self, c: impl Into<String>) {
        let c = c.into();
        if !self.classes.contains(&c) {
            self.classes.push(c);
        }
    }
    pub fn nontrivial(&mut self) {
        self.nontrivial = true;
    }
    pub fn eval(&mut self) {
        self.evals += 1;
    }
    pub fn evals(&mut self, n: u64) {
        self.evals += n;
    }
    pub fn describe(&mut self, v: Value) {
        self.desc = v;
    }
    /// generator avoided a known-finding shape by construction
    pub fn exclude(&mut self, key: &str) {
        self.excluded.push(key.to_string());
    }
}

// ---------------------------------------------------------------------------------------------
// panic capture
thread_local! {
    static LAST_PANIC: RefCell<Option<(String, String)>> = const { RefCell::new(None) };
}
pub fn install_panic_hook() {
    std::panic::set_hook(Box::new(|info| {
        let loc = info
            .location()
            .map(|l| format!("{}:{}", l.file(), l.line()))
            .unwrap_or_else(|| "?".into());
        let msg = if let Some(s) = info.payload().downcast_ref::<&str>() {
            s.to_string()
        } else if let Some(s) = info.payload().downcast_ref::<String>() {
            s.clone()
        } else {
            "<non-string panic>".to_string()
        };
        LAST_PANIC.with(|p| *p.borrow_mut() = Some((loc, msg)));
    }));
}
pub struct Panicked {
    pub loc: String,
    pub msg: String,
}
impl Panicked {
    /// file name without the line (stable across unrelated edits) + first words of the message
    pub fn sig(&self) -> String {
        let file = self.loc.rsplit_once(':').map(|x| x.0).unwrap_or(&self.loc);
        let file = file.rsplit('/').next().unwrap_or(file);
        let m: String = self.msg.chars().filter(|c| !c.is_ascii_digit()).take(40).collect();
        format!("panic@{}:{}", file, m)
    }
}
/// Run `f`, converting a panic into `Err(Panicked)`.
pub fn catch<T>(f: impl FnOnce() -> T) -> Result<T, Panicked> {
    match catch_unwind(AssertUnwindSafe(f)) {
        Ok(v) => Ok(v),
        Err(_) => {
            let (loc, msg) = LAST_PANIC
                .with(|p| p.borrow_mut().take())
                .unwrap_or(("?".into(), "?".into()));
            Err(Panicked { loc, msg })
        }
    }
}
/// Run `f`; a panic is a failure with signature `panic@file:msg`
pub fn no_panic<T>(what: &str, f: impl FnOnce() -> T) -> Result<T, Fail> {
    catch(f).map_err(|p| Fail::new(format!("{}:{}", what, p.sig()), format!("{} panicked at {}: {}", what, p.loc, p.msg)))
}

// ---------------------------------------------------------------------------------------------
pub type OracleFn = dyn Fn(&mut Case) -> CaseResult + Sync;

pub struct Sub {
    pub name: &'static str,
    pub quick: u64,
    pub thorough: u64,
    pub min_tape: usize,
    pub max_tape: usize,
    /// classes that must be seen at least once, else exit 2 (generator health)
    pub required: Vec<&'static str>,
    /// if Some(n): exhaustive enumeration of indices 0..n (tape = 8-byte LE index + zeros); quick/thorough ignored
    pub exhaustive: Option<(u64, u64)>,
    pub f: Box<OracleFn>,
}
impl Sub {
    pub fn new(name: &'static str, quick: u64, thorough: u64, f: impl Fn(&mut Case) -> CaseResult + Sync + 'static) -> Self {
        Sub { name, quick, thorough, min_tape: 64, max_tape: 2048, required: vec![], exhaustive: None, f: Box::new(f) }
    }
    pub fn tape(mut self, min: usize, max: usize) -> Self {
        self.min_tape = min;
        self.max_tape = max;
        self
    }
    pub fn require(mut self, cls: &[&'static str]) -> Self {
        self.required = cls.to_vec();
        self
    }
    /// enumerate indices 0..n_quick (quick) / 0..n_thorough (thorough) instead of random generation
    pub fn enumerate(mut self, n_quick: u64, n_thorough: u64) -> Self {
        self.exhaustive = Some((n_quick, n_thorough));
        self
    }
}

#[derive(Default)]
struct SubStats {
    cases: u64,
    evals: u64,
    nontrivial: u64,
    distinct: HashSet<u64>,
    classes: BTreeMap<String, u64>,
    samples: Vec<Value>,
    excluded: BTreeMap<String, u64>,
}
impl SubStats {
    fn absorb(&mut self, c: &Case, sub: &str) {
        self.cases += 1;
        self.evals += c.evals.max(1);
        for k in &c.classes {
            *self.classes.entry(k.clone()).or_default() += 1;
        }
        for k in &c.excluded {
            *self.excluded.entry(k.clone()).or_default() += 1;
        }
        if c.nontrivial {
            self.nontrivial += 1;
            let h = fnv(&[c.tape.consumed()]);
            if self.distinct.insert(h) && self.samples.len() < 3 && !c.desc.is_null() {
                self.samples.push(json!({"sub": sub, "case": c.desc, "classes": c.classes}));
            }
        }
    }
    fn merge(&mut self, o: SubStats) {
        self.cases += o.cases;
        self.evals += o.evals;
        self.nontrivial += o.nontrivial;
        self.distinct.extend(o.distinct);
        for (k, v) in o.classes {
            *self.classes.entry(k).or_default() += v;
        }
        for (k, v) in o.excluded {
            *self.excluded.entry(k).or_default() += v;
        }
        for s in o.samples {
            if self.samples.len() < 3 {
                self.samples.push(s);
            }
        }
    }
}

#[derive(Clone, Debug)]
pub struct KnownFinding {
    pub property: String,
    pub key: String,
    pub status: String,
    pub signature: String,
    pub what: String,
    pub sub: String,
    pub tape: String,
    pub commit: Option<String>,
    /// replay with generator exclusions disabled (default) or exactly as generated (`"strict": false` in repro)
    pub strict: bool,
}

pub fn load_known(property: &str) -> Vec<KnownFinding> {
    let p = format!("{}/known_findings.json", verif_root());
    let Ok(s) = std::fs::read_to_string(&p) else { return vec![] };
    let Ok(v) = serde_json::from_str::<Value>(&s) else {
        eprintln!("known_findings.json does not parse");
        std::process::exit(2);
    };
    let mut out = vec![];
    for e in v["findings"].as_array().cloned().unwrap_or_default() {
        if e["property"].as_str() != Some(property) {
            continue;
        }
        out.push(KnownFinding {
            property: property.to_string(),
            key: e["key"].as_str().unwrap_or("").to_string(),
            status: e["status"].as_str().unwrap_or("open").to_string(),
            signature: e["signature"].as_str().unwrap_or("").to_string(),
            what: e["what"].as_str().unwrap_or("").to_string(),
            sub: e["repro"]["sub"].as_str().unwrap_or("").to_string(),
            tape: e["repro"]["tape"].as_str().unwrap_or("").to_string(),
            commit: e["commit"].as_str().map(|s| s.to_string()),
            strict: e["repro"]["strict"].as_bool().unwrap_or(true),
        });
    }
    out
}

pub struct Args {
    pub tier: Tier,
    pub seed: u64,
    pub replay: Option<String>,
    pub only: Option<String>,
    pub scale: f64,
}
pub fn parse_args() -> Args {
    let mut tier = match std::env::var("VERIF_TIER").ok().as_deref() {
        Some("thorough") => Tier::Thorough,
        _ => Tier::Quick,
    };
    let mut seed: u64 = std::env::var("VERIF_SEED").ok().and_then(|s| s.trim().parse::<i128>().ok()).map(|v| v as u64).unwrap_or(0);
    let mut replay = None;
    let mut only = None;
    let mut scale = 1.0;
    let a: Vec<String> = std::env::args().collect();
    let mut i = 1;
    while i < a.len() {
        match a[i].as_str() {
            "--tier" => {
                i += 1;
                tier = if a.get(i).map(|s| s.as_str()) == Some("thorough") { Tier::Thorough } else { Tier::Quick };
            }
            "--seed" => {
                i += 1;
                seed = a.get(i).and_then(|s| s.parse::<i128>().ok()).map(|v| v as u64).unwrap_or(0);
            }
            "--replay" => {
                i += 1;
                replay = a.get(i).cloned();
            }
            "--only" => {
                i += 1;
                only = a.get(i).cloned();
            }
            "--scale" => {
                i += 1;
                scale = a.get(i).and_then(|s| s.parse().ok()).unwrap_or(1.0);
            }
            _ => {}
        }
        i += 1;
    }
    Args { tier, seed, replay, only, scale }
}

pub struct Check {
    pub property: &'static str,
    pub level: &'static str,
    pub rule: String,
    pub assumptions: Vec<String>,
    pub subs: Vec<Sub>,
    pub threads: usize,
}

struct Failure {
    sub: String,
    tape: Vec<u8>,
    fail: Fail,
    desc: Value,
    /// whether the case ran with generator exclusions disabled
    strict: bool,
}

// ---- per-case watchdog: a case that runs longer than the limit ends the process with exit 2 (inconclusive) and
// leaves a replay file, so hangs are diagnosable instead of silently eating the time budget
static WATCH: Mutex<Vec<(u64, Option<(Instant, String, Vec<u8>)>)>> = Mutex::new(Vec::new());
static WATCH_NEXT: std::sync::atomic::AtomicU64 = std::sync::atomic::AtomicU64::new(1);
thread_local! {
    static WATCH_ID: u64 = WATCH_NEXT.fetch_add(1, Ordering::Relaxed);
}
fn watch_set(v: Option<(Instant, String, Vec<u8>)>) {
    let id = WATCH_ID.with(|i| *i);
    let mut w = WATCH.lock().unwrap();
    if let Some(slot) = w.iter_mut().find(|s| s.0 == id) {
        slot.1 = v;
    } else {
        w.push((id, v));
    }
}
fn start_watchdog(property: &'static str) {
    let limit: u64 = std::env::var("VERIF_CASE_TIMEOUT").ok().and_then(|s| s.parse().ok()).unwrap_or(180);
    std::thread::spawn(move || loop {
        std::thread::sleep(std::time::Duration::from_millis(500));
        let hung = {
            let w = WATCH.lock().unwrap();
            w.iter().filter_map(|s| s.1.as_ref()).find(|x| x.0.elapsed().as_secs() >= limit).map(|x| (x.1.clone(), x.2.clone()))
        };
        if let Some((sub, tape)) = hung {
            let dir = format!("{}/out/{}", verif_root(), property);
            let _ = std::fs::create_dir_all(&dir);
            let path = format!("{}/watchdog-{}-{:016x}.json", dir, sub, fnv(&[&tape]));
            let v = json!({"property": property, "sub": sub, "tape": hex(&tape), "signature": "watchdog", "message": format!("case did not finish within {} s", limit)});
            let _ = std::fs::write(&path, serde_json::to_string_pretty(&v).unwrap());
            println!("INCONCLUSIVE property={} a case of sub-check {} did not finish within {} s (hang or pathological slowness); case saved to {}", property, sub, limit, path);
            std::process::exit(2);
        }
    });
}

/// crash containment: with VERIF_CASE_LOG=<prefix> every case writes (sub, tape) to <prefix>.<thread> before it runs, so a
/// parent process can tell which case killed the worker (abort, stack overflow, allocation failure)
fn case_log(sub: &str, tape: &[u8]) {
    thread_local! {
        static LOG_PATH: Option<String> = std::env::var("VERIF_CASE_LOG").ok().map(|p| format!("{}.{}", p, WATCH_ID.with(|i| *i)));
    }
    LOG_PATH.with(|p| {
        if let Some(p) = p {
            let _ = std::fs::write(p, format!("{}\n{}\n", sub, hex(tape)));
        }
    });
}

// ---- process isolation: cases run in worker subprocesses (one per calling thread); a worker that dies or hangs turns
// into a failure of exactly the case it was running, which proptest can then shrink like any other failure
static ISOLATE: AtomicBool = AtomicBool::new(false);
static RETIRE: AtomicBool = AtomicBool::new(false);
/// called by an oracle running inside a worker that had to abandon a runaway thread: the worker replies and exits, the parent
/// starts a fresh worker for the next case
pub fn request_worker_retire() {
    RETIRE.store(true, Ordering::Relaxed);
}
struct Worker {
    child: std::process::Child,
    stdin: std::process::ChildStdin,
    rx: std::sync::mpsc::Receiver<String>,
    errfile: String,
}
thread_local! {
    static WORKER: RefCell<Option<Worker>> = const { RefCell::new(None) };
}
fn spawn_worker(tier: Tier) -> Worker {
    use std::io::BufRead;
    let exe = std::env::current_exe().expect("current_exe");
    let dir = format!("{}/out", verif_root());
    let _ = std::fs::create_dir_all(&dir);
    let errfile = format!("{}/worker-stderr-{}-{}.log", dir, std::process::id(), WATCH_ID.with(|i| *i));
    let ef = std::fs::File::create(&errfile).expect("stderr file");
    let mut child = std::process::Command::new(exe)
        .args(["--worker", "--tier", tier.name()])
        .env("VERIF_WORKER", "1")
        .env("RUST_BACKTRACE", "0")
        .stdin(std::process::Stdio::piped())
        .stdout(std::process::Stdio::piped())
        .stderr(ef)
        .spawn()
        .expect("spawn worker");
    let stdin = child.stdin.take().unwrap();
    let stdout = child.stdout.take().unwrap();
    let (tx, rx) = std::sync::mpsc::channel();
    std::thread::spawn(move || {
        for line in std::io::BufReader::new(stdout).lines() {
            match line {
                Ok(l) => {
                    if tx.send(l).is_err() {
                        break;
                    }
                }
                Err(_) => break,
            }
        }
    });
    Worker { child, stdin, rx, errfile }
}
fn crash_class(errfile: &str) -> (String, String) {
    let txt = std::fs::read_to_string(errfile).unwrap_or_default();
    let line = txt.lines().rev().find(|l| l.contains("memory allocation of") || l.contains("overflowed its stack") || l.contains("panicked") || l.contains("fatal runtime error")).or_else(|| txt.lines().rev().find(|l| !l.trim().is_empty())).unwrap_or("").to_string();
    let class = if line.contains("memory allocation of") {
        "alloc-failure".to_string()
    } else if line.contains("overflowed its stack") {
        "stack-overflow".to_string()
    } else {
        line.chars().filter(|c| !c.is_ascii_digit()).take(40).collect()
    };
    (class, line)
}
fn run_case_remote(sub: &Sub, tape: Vec<u8>, tier: Tier, strict: bool, index: u64, limit_s: u64) -> (Case, CaseResult) {
    use std::io::Write;
    let mut c = Case::new(Tape::new(tape.clone()), tier, strict);
    c.index = index;
    let res = WORKER.with(|w| {
        let mut w = w.borrow_mut();
        if w.is_none() {
            *w = Some(spawn_worker(tier));
        }
        let wk = w.as_mut().unwrap();
        let sent = writeln!(wk.stdin, "{}\t{}\t{}\t{}", sub.name, hex(&tape), strict, index).and_then(|_| wk.stdin.flush());
        let reply = if sent.is_ok() { wk.rx.recv_timeout(std::time::Duration::from_secs(limit_s)) } else { Err(std::sync::mpsc::RecvTimeoutError::Disconnected) };
        match reply {
            Ok(line) => {
                if line.contains("\"retire\":true") {
                    let _ = wk.child.wait();
                    let ef = wk.errfile.clone();
                    *w = None;
                    let _ = std::fs::remove_file(ef);
                }
                Ok(line)
            }
            Err(std::sync::mpsc::RecvTimeoutError::Timeout) => {
                let _ = wk.child.kill();
                let _ = wk.child.wait();
                let ef = wk.errfile.clone();
                *w = None;
                let _ = std::fs::remove_file(ef);
                Err(Fail::new("hang", format!("the case did not finish within {} s in its worker process (killed)", limit_s)))
            }
            Err(_) => {
                let st = wk.child.wait().ok();
                let (class, line) = crash_class(&wk.errfile);
                let ef = wk.errfile.clone();
                *w = None;
                let _ = std::fs::remove_file(ef);
                Err(Fail::new(format!("process-crash:{}", class), format!("the worker process died while running this case ({:?}): {}", st, line)))
            }
        }
    });
    match res {
        Err(f) => (c, Err(f)),
        Ok(line) => {
            let v: Value = serde_json::from_str(&line).unwrap_or(Value::Null);
            c.classes = v["classes"].as_array().map(|a| a.iter().filter_map(|x| x.as_str().map(|s| s.to_string())).collect()).unwrap_or_default();
            c.excluded = v["excluded"].as_array().map(|a| a.iter().filter_map(|x| x.as_str().map(|s| s.to_string())).collect()).unwrap_or_default();
            c.nontrivial = v["nontrivial"].as_bool().unwrap_or(false);
            c.evals = v["evals"].as_u64().unwrap_or(0);
            c.desc = v["desc"].clone();
            c.tape.set_pos(v["consumed"].as_u64().unwrap_or(0) as usize);
            if v["ok"].as_bool().unwrap_or(false) {
                (c, Ok(()))
            } else {
                (c, Err(Fail::new(v["sig"].as_str().unwrap_or("?"), v["msg"].as_str().unwrap_or("?"))))
            }
        }
    }
}

fn run_case(sub: &Sub, tape: Vec<u8>, tier: Tier, strict: bool, index: u64) -> (Case, CaseResult) {
    if ISOLATE.load(Ordering::Relaxed) {
        let limit: u64 = std::env::var("VERIF_HANG_LIMIT").ok().and_then(|s| s.parse().ok()).unwrap_or(60);
        let (c, r) = run_case_remote(sub, tape.clone(), tier, strict, index, limit);
        if matches!(&r, Err(f) if f.sig == "hang") {
            // re-confirm alone with a three times longer limit before calling it a hang
            let (c2, r2) = run_case_remote(sub, tape, tier, strict, index, limit * 3);
            return (c2, r2);
        }
        return (c, r);
    }
    case_log(sub.name, &tape);
    watch_set(Some((Instant::now(), sub.name.to_string(), tape.clone())));
    let r = run_case_inner(sub, tape, tier, strict, index);
    watch_set(None);
    r
}

fn run_case_inner(sub: &Sub, tape: Vec<u8>, tier: Tier, strict: bool, index: u64) -> (Case, CaseResult) {
    let mut c = Case::new(Tape::new(tape), tier, strict);
    c.index = index;
    if sub.exhaustive.is_some() {
        let mut b = [0u8; 8];
        for (i, x) in c.tape.raw().iter().take(8).enumerate() {
            b[i] = *x;
        }
        c.index = u64::from_le_bytes(b);
    }
    let r = match catch(|| (sub.f)(&mut c)) {
        Ok(r) => r,
        Err(p) => Err(Fail::new(format!("escaped:{}", p.sig()), format!("panic escaped the oracle at {}: {}", p.loc, p.msg))),
    };
    (c, r)
}

impl Check {
    pub fn new(property: &'static str, level: &'static str, rule: &str) -> Self {
        Check { property, level, rule: rule.to_string(), assumptions: vec![], subs: vec![], threads: 16 }
    }
    pub fn assume(mut self, a: &str) -> Self {
        self.assumptions.push(a.to_string());
        self
    }
    pub fn sub(mut self, s: Sub) -> Self {
        self.subs.push(s);
        self
    }

    fn write_replay(&self, f: &Failure) -> String {
        let dir = format!("{}/out/{}", verif_root(), self.property);
        let _ = std::fs::create_dir_all(&dir);
        let h = fnv(&[f.sub.as_bytes(), &f.tape]);
        let path = format!("{}/{}-{:016x}.json", dir, f.sub, h);
        let v = json!({
            "property": self.property, "sub": f.sub, "tape": hex(&f.tape), "strict": f.strict,
            "signature": f.fail.sig, "message": f.fail.msg, "case": f.desc,
        });
        let _ = std::fs::write(&path, serde_json::to_string_pretty(&v).unwrap());
        path
    }

    /// Replay one file; returns Some(fail) if it fails.
    fn replay_file(&self, path: &str, tier: Tier) -> Result<Option<Fail>, String> {
        let s = std::fs::read_to_string(path).map_err(|e| format!("{}: {}", path, e))?;
        let v: Value = serde_json::from_str(&s).map_err(|e| format!("{}: {}", path, e))?;
        let subname = v["sub"].as_str().unwrap_or("");
        let tape = unhex(v["tape"].as_str().unwrap_or(""));
        let strict = v["strict"].as_bool().unwrap_or(true);
        // replay files written by the libFuzzer leg name the sub-checks the fuzz target runs on one tape
        if let Some(list) = v["subs"].as_array() {
            for name in list.iter().filter_map(|x| x.as_str()) {
                let Some(sub) = self.subs.iter().find(|s| s.name == name) else {
                    return Err(format!("{}: unknown sub-check {}", path, name));
                };
                let (_c, r) = run_case(sub, tape.clone(), tier, strict, 0);
                if let Err(f) = r {
                    return Ok(Some(f));
                }
            }
            return Ok(None);
        }
        let Some(sub) = self.subs.iter().find(|s| s.name == subname) else {
            return Err(format!("{}: unknown sub-check {}", path, subname));
        };
        let (_c, r) = run_case(sub, tape, tier, strict, 0);
        Ok(r.err())
    }

    pub fn run(self) -> ! {
        let args = parse_args();
        let code = self.run_with(&args);
        std::process::exit(code)
    }

    /// Run the check in a worker subprocess (re-exec of the current binary) so that a crash of the code under test
    /// (abort, stack overflow, allocation failure) is attributed to the case that caused it and reported as a violation
    /// with a replay file instead of killing the check. The worker logs each case before running it.
    pub fn run_isolated(self) -> ! {
        let argv: Vec<String> = std::env::args().collect();
        if argv.iter().any(|a| a == "--worker") {
            self.worker_loop()
        }
        ISOLATE.store(true, Ordering::Relaxed);
        self.run()
    }

    /// worker side of the isolation protocol: one request line per case on stdin, one JSON reply line on stdout
    fn worker_loop(self) -> ! {
        use std::io::{BufRead, Write};
        install_panic_hook();
        let args = parse_args();
        let stdin = std::io::stdin();
        let stdout = std::io::stdout();
        for line in stdin.lock().lines() {
            let Ok(line) = line else { break };
            let parts: Vec<&str> = line.split('\t').collect();
            if parts.len() < 4 {
                continue;
            }
            let Some(sub) = self.subs.iter().find(|s| s.name == parts[0]) else {
                let _ = writeln!(stdout.lock(), "{}", json!({"ok": false, "sig": "unknown-sub", "msg": parts[0]}));
                continue;
            };
            let strict = parts[2] == "true";
            let index: u64 = parts[3].parse().unwrap_or(0);
            let (c, r) = run_case_inner(sub, unhex(parts[1]), args.tier, strict, index);
            let v = match &r {
                Ok(()) => json!({"ok": true, "classes": c.classes, "excluded": c.excluded, "nontrivial": c.nontrivial, "evals": c.evals, "desc": c.desc, "consumed": c.tape.pos()}),
                Err(f) => json!({"ok": false, "sig": f.sig, "msg": f.msg, "classes": c.classes, "excluded": c.excluded, "nontrivial": c.nontrivial, "evals": c.evals, "desc": c.desc, "consumed": c.tape.pos()}),
            };
            let retire = RETIRE.load(Ordering::Relaxed);
            let mut v = v;
            if retire {
                v["retire"] = json!(true);
            }
            let mut o = stdout.lock();
            let _ = writeln!(o, "{}", v);
            let _ = o.flush();
            if retire {
                std::process::exit(0);
            }
        }
        std::process::exit(0)
    }

    pub fn run_with(self, args: &Args) -> i32 {
        install_panic_hook();
        start_watchdog(self.property);
        let t0 = Instant::now();
        let tier = args.tier;
        if let Some(p) = &args.replay {
            return match self.replay_file(p, tier) {
                Ok(None) => {
                    println!("replay {}: property holds on this case", p);
                    0
                }
                Ok(Some(f)) => {
                    println!("replay failure [{}]: {}", f.sig, f.msg);
                    println!("VIOLATION property={} replay={}", self.property, p);
                    1
                }
                Err(e) => {
                    eprintln!("replay error: {}", e);
                    2
                }
            };
        }
        let known = load_known(self.property);
        let open_sigs: Vec<String> = known.iter().filter(|k| k.status == "open").map(|k| k.signature.clone()).collect();
        let mut violations: Vec<(String, String)> = vec![]; // (path, msg)
        let mut known_lines: Vec<String> = vec![];

        // ---- replay tier 1: known findings
        for k in &known {
            let Some(sub) = self.subs.iter().find(|s| s.name == k.sub) else {
                eprintln!("known finding {} names unknown sub-check {}", k.key, k.sub);
                return 2;
            };
            let (c, r) = run_case(sub, unhex(&k.tape), tier, k.strict, 0);
            match (k.status.as_str(), r) {
                ("open", Err(f)) if f.sig == k.signature => {
                    known_lines.push(format!("KNOWN-FINDING: property={} {} [{}]", self.property, k.what, k.key));
                }
                ("open", Err(f)) => {
                    let path = self.write_replay(&Failure { sub: k.sub.clone(), tape: unhex(&k.tape), fail: f.clone(), desc: c.desc, strict: k.strict });
                    violations.push((path, format!("repro of open finding {} now fails differently [{}]: {}", k.key, f.sig, f.msg)));
                }
                ("open", Ok(())) => {
                    println!("note: open finding {} no longer reproduces", k.key);
                }
                (_, Err(f)) => {
                    let path = self.write_replay(&Failure { sub: k.sub.clone(), tape: unhex(&k.tape), fail: f.clone(), desc: c.desc, strict: k.strict });
                    violations.push((path, format!("fixed finding {} is back [{}]: {}", k.key, f.sig, f.msg)));
                }
                (_, Ok(())) => {}
            }
        }
        // ---- replay tier 2: committed regression inputs
        let rdir = format!("{}/regress/{}", verif_root(), self.property);
        let mut regress_n = 0;
        if let Ok(rd) = std::fs::read_dir(&rdir) {
            let mut files: Vec<_> = rd.filter_map(|e| e.ok()).map(|e| e.path()).filter(|p| p.extension().map(|x| x == "json").unwrap_or(false)).collect();
            files.sort();
            for p in files {
                let ps = p.to_string_lossy().to_string();
                regress_n += 1;
                match self.replay_file(&ps, tier) {
                    Ok(None) => {}
                    Ok(Some(f)) => {
                        if open_sigs.contains(&f.sig) {
                            continue;
                        }
                        violations.push((ps, format!("regression input fails [{}]: {}", f.sig, f.msg)));
                    }
                    Err(e) => {
                        eprintln!("{}", e);
                        return 2;
                    }
                }
            }
        }

        // ---- generated tier
        let mut all: Vec<(String, SubStats, bool, u64)> = vec![];
        let mut health: Vec<String> = vec![];
        for sub in &self.subs {
            if let Some(o) = &args.only {
                if o != sub.name {
                    continue;
                }
            }
            let (stats, failure, exhaustive, planned) = self.run_sub(sub, tier, args.seed, &open_sigs, args.scale);
            if let Some(f) = failure {
                let path = self.write_replay(&f);
                violations.push((path, format!("{} [{}]: {}", f.sub, f.fail.sig, f.fail.msg)));
            } else {
                for r in &sub.required {
                    if stats.classes.get(*r).copied().unwrap_or(0) == 0 {
                        health.push(format!("{}: required class '{}' never generated", sub.name, r));
                    }
                }
            }
            all.push((sub.name.to_string(), stats, exhaustive, planned));
        }

        // ---- evidence
        let mut evaluations = 0u64;
        let mut distinct = 0u64;
        let mut classes: BTreeMap<String, u64> = BTreeMap::new();
        let mut samples: Vec<Value> = vec![];
        let mut excluded: BTreeMap<String, u64> = BTreeMap::new();
        let mut subs_json = vec![];
        let mut all_exh = !all.is_empty();
        for (name, st, exh, planned) in &all {
            evaluations += st.evals;
            distinct += st.distinct.len() as u64;
            for (k, v) in &st.classes {
                *classes.entry(format!("{}/{}", name, k)).or_default() += v;
            }
            for (k, v) in &st.excluded {
                *excluded.entry(k.clone()).or_default() += v;
            }
            for s in st.samples.iter().take(2) {
                samples.push(s.clone());
            }
            all_exh &= *exh;
            subs_json.push(json!({"name": name, "cases": st.cases, "planned": planned, "oracle_evaluations": st.evals,
                "nontrivial": st.nontrivial, "distinct_nontrivial": st.distinct.len(), "exhaustive_subspace": exh}));
        }
        let ev = json!({
            "property_id": self.property,
            "tier": tier.name(),
            "seed": args.seed as i64,
            "level": self.level,
            "coverage": {
                "evaluations": evaluations,
                "distinct_nontrivial": distinct,
                "rule": self.rule,
                "samples": samples,
                "classes": classes,
                "subchecks": subs_json,
                "excluded_by_known_finding": excluded,
                "regression_inputs_replayed": regress_n,
                "known_findings_reproduced": known_lines.len(),
                "exhaustive": all_exh,
            },
            "assumptions": self.assumptions,
            "wall_s": t0.elapsed().as_secs_f64(),
            "violations": violations.len(),
        });
        let edir = format!("{}/evidence", verif_root());
        let _ = std::fs::create_dir_all(&edir);
        if args.only.is_none() {
            if let Err(e) = std::fs::write(format!("{}/{}.json", edir, self.property), serde_json::to_string_pretty(&ev).unwrap()) {
                eprintln!("cannot write evidence: {}", e);
                return 2;
            }
        }
        for l in &known_lines {
            println!("{}", l);
        }
        println!(
            "{} tier={} seed={} evaluations={} distinct_nontrivial={} wall={:.1}s",
            self.property,
            tier.name(),
            args.seed,
            evaluations,
            distinct,
            t0.elapsed().as_secs_f64()
        );
        if !violations.is_empty() {
            for (p, m) in &violations {
                println!("failure: {}", m);
                println!("VIOLATION property={} replay={}", self.property, p);
            }
            return 1;
        }
        if !health.is_empty() {
            for h in &health {
                eprintln!("generator health: {}", h);
            }
            return 2;
        }
        if distinct < 2 && args.only.is_none() {
            eprintln!("generator health: fewer than 2 distinct non-trivial cases");
            return 2;
        }
        0
    }

    fn run_sub(&self, sub: &Sub, tier: Tier, seed: u64, open_sigs: &[String], scale: f64) -> (SubStats, Option<Failure>, bool, u64) {
        let stop = AtomicBool::new(false);
        let first_fail: Mutex<Option<(usize, Failure)>> = Mutex::new(None);
        let total_stats: Mutex<SubStats> = Mutex::new(SubStats::default());
        if let Some((nq, nt)) = sub.exhaustive {
            let n = if tier == Tier::Quick { nq } else { nt };
            let threads = self.threads.min(n.max(1) as usize).max(1);
            std::thread::scope(|s| {
                for t in 0..threads {
                    let stop = &stop;
                    let first_fail = &first_fail;
                    let total_stats = &total_stats;
                    s.spawn(move || {
                        install_thread();
                        let mut st = SubStats::default();
                        let mut i = t as u64;
                        while i < n {
                            if stop.load(Ordering::Relaxed) {
                                break;
                            }
                            let mut tape = i.to_le_bytes().to_vec();
                            let mut x = i ^ seed.rotate_left(17) ^ 0x9E3779B97F4A7C15;
                            for _ in 0..48 {
                                x = x.wrapping_add(0x9E3779B97F4A7C15);
                                let mut z = x;
                                z = (z ^ (z >> 30)).wrapping_mul(0xBF58476D1CE4E5B9);
                                z = (z ^ (z >> 27)).wrapping_mul(0x94D049BB133111EB);
                                z ^= z >> 31;
                                tape.extend_from_slice(&z.to_le_bytes());
                            }
                            let (c, r) = run_case(sub, tape.clone(), tier, false, i);
                            match r {
                                Ok(()) => st.absorb(&c, sub.name),
                                Err(f) if open_sigs.contains(&f.sig) => {
                                    *st.excluded.entry(f.sig.clone()).or_default() += 1;
                                }
                                Err(f) => {
                                    let mut g = first_fail.lock().unwrap();
                                    if g.as_ref().map(|x| i < x.0 as u64).unwrap_or(true) {
                                        *g = Some((i as usize, Failure { sub: sub.name.to_string(), tape, fail: f, desc: c.desc, strict: false }));
                                    }
                                    stop.store(true, Ordering::Relaxed);
                                    break;
                                }
                            }
                            i += threads as u64;
                        }
                        total_stats.lock().unwrap().merge(st);
                    });
                }
            });
            let ff = first_fail.into_inner().unwrap().map(|x| x.1);
            return (total_stats.into_inner().unwrap(), ff, true, n);
        }
        let base = if tier == Tier::Quick { sub.quick } else { sub.thorough };
        let n = ((base as f64) * scale).ceil() as u64;
        let shards = (self.threads as u64).min((n / 8).max(1)) as usize;
        std::thread::scope(|s| {
            for sh in 0..shards {
                let stop = &stop;
                let first_fail = &first_fail;
                let total_stats = &total_stats;
                let property = self.property;
                s.spawn(move || {
                    install_thread();
                    let cases = n / shards as u64 + if (sh as u64) < n % shards as u64 { 1 } else { 0 };
                    if cases == 0 {
                        return;
                    }
                    let sseed = seed ^ fnv(&[property.as_bytes(), sub.name.as_bytes(), &(sh as u64).to_le_bytes()]);
                    let cfg = Config {
                        cases: cases as u32,
                        failure_persistence: None,
                        rng_seed: RngSeed::Fixed(sseed),
                        rng_algorithm: RngAlgorithm::ChaCha,
                        max_shrink_iters: 3000,
                        max_shrink_time: 120_000,
                        verbose: 0,
                        ..Config::default()
                    };
                    let mut runner = TestRunner::new(cfg);
                    let strat = proptest::collection::vec(any::<u8>(), sub.min_tape..=sub.max_tape);
                    let st = RefCell::new(SubStats::default());
                    let failed = std::cell::Cell::new(false);
                    let res = runner.run(&strat, |tape| {
                        if stop.load(Ordering::Relaxed) && !failed.get() {
                            // another shard failed: finish quickly
                            return Ok(());
                        }
                        let (c, r) = run_case(sub, tape, tier, false, 0);
                        match r {
                            Ok(()) => {
                                if !failed.get() {
                                    st.borrow_mut().absorb(&c, sub.name);
                                }
                                Ok(())
                            }
                            Err(f) if open_sigs.contains(&f.sig) => {
                                if !failed.get() {
                                    *st.borrow_mut().excluded.entry(f.sig.clone()).or_default() += 1;
                                }
                                Ok(())
                            }
                            Err(f) => {
                                failed.set(true);
                                Err(TestCaseError::fail(f.sig))
                            }
                        }
                    });
                    if let Err(TestError::Fail(_, tape)) = res {
                        stop.store(true, Ordering::Relaxed);
                        let (c, r) = run_case(sub, tape.clone(), tier, false, 0);
                        let fail = r.err().unwrap_or_else(|| Fail::new("flaky", "shrunk case passed when re-run (non-deterministic oracle)"));
                        let mut g = first_fail.lock().unwrap();
                        if g.as_ref().map(|x| sh < x.0).unwrap_or(true) {
                            *g = Some((sh, Failure { sub: sub.name.to_string(), tape, fail, desc: c.desc, strict: false }));
                        }
                    } else if let Err(TestError::Abort(r)) = res {
                        eprintln!("proptest aborted: {}", r);
                    }
                    total_stats.lock().unwrap().merge(st.into_inner());
                });
            }
        });
        let ff = first_fail.into_inner().unwrap().map(|x| x.1);
        (total_stats.into_inner().unwrap(), ff, false, n)
    }
}

fn install_thread() {}
