//! Generators (decoded from the entropy tape) for logical types, values and columns.
use crate::model::*;
use crate::tape::Tape;

#[derive(Clone, Debug)]
pub struct TypeCfg {
    pub depth: u32,
    pub nested: bool,
    pub dict: bool,
    pub ree: bool,
    pub union: bool,
    pub map: bool,
    pub listview: bool,
    pub fixedlist: bool,
    pub view: bool,
    pub large: bool,
    pub null: bool,
    pub boolean: bool,
    pub decimal: bool,
    pub dec_small: bool,
    pub dec256: bool,
    pub interval: bool,
    pub temporal: bool,
    pub tz: bool,
    pub float: bool,
    pub f16: bool,
    pub unsigned: bool,
    pub strings: bool,
    pub binary: bool,
    pub fixedbinary: bool,
    /// nested dictionaries / run-ends inside lists and structs
    pub nested_encoded: bool,
    /// decimals with negative scale
    pub neg_scale: bool,
}
impl TypeCfg {
    pub fn all() -> Self {
        TypeCfg {
            depth: 3, nested: true, dict: true, ree: true, union: true, map: true, listview: true, fixedlist: true, view: true, large: true,
            null: true, boolean: true, decimal: true, dec_small: true, dec256: true, interval: true, temporal: true, tz: true, float: true,
            f16: true, unsigned: true, strings: true, binary: true, fixedbinary: true, nested_encoded: true, neg_scale: true,
        }
    }
    pub fn flat() -> Self {
        let mut c = Self::all();
        c.nested = false;
        c.union = false;
        c.map = false;
        c
    }
    pub fn primitive() -> Self {
        let mut c = Self::flat();
        c.dict = false;
        c.ree = false;
        c.null = false;
        c
    }
}

const TZS: [&str; 4] = ["UTC", "+05:30", "-08:00", "+00:00"];
const UNITS: [Unit; 4] = [Unit::S, Unit::Ms, Unit::Us, Unit::Ns];
const NAMES: [&str; 6] = ["a", "b", "c", "item", "k", "x y"];

pub fn gen_int_type(t: &mut Tape, unsigned: bool) -> LType {
    let bits = *t.pick(&[32u8, 64, 8, 16]);
    let signed = if unsigned { !t.chance(96) } else { true };
    LType::Int { bits, signed }
}

pub fn gen_decimal(t: &mut Tape, cfg: &TypeCfg) -> LType {
    let mut widths = vec![128u16];
    if cfg.dec_small {
        widths.push(32);
        widths.push(64);
    }
    if cfg.dec256 {
        widths.push(256);
    }
    let width = *t.pick(&widths);
    let maxp: u8 = match width {
        32 => 9,
        64 => 18,
        128 => 38,
        _ => 76,
    };
    let p = match t.below(4) {
        0 => maxp,
        1 => 1 + t.below(maxp as usize) as u8,
        _ => (1 + t.below(10) as u8).min(maxp),
    };
    let s: i8 = match t.below(6) {
        0 => 0,
        1 => p as i8,
        2 if cfg.neg_scale => -(1 + t.below(4) as i8),
        _ => t.below(p as usize + 1) as i8,
    };
    LType::Decimal { width, p, s }
}

fn gen_leaf(t: &mut Tape, cfg: &TypeCfg) -> LType {
    loop {
        let k = t.below(20);
        let ty = match k {
            0 | 1 | 2 => gen_int_type(t, cfg.unsigned),
            3 if cfg.strings => LType::Utf8(gen_enc(t, cfg)),
            4 if cfg.strings => LType::Utf8(gen_enc(t, cfg)),
            5 if cfg.boolean => LType::Bool,
            6 if cfg.float => t.pick(&[LType::F64, LType::F32, if cfg.f16 { LType::F16 } else { LType::F32 }]).clone(),
            7 if cfg.decimal => gen_decimal(t, cfg),
            8 if cfg.binary => LType::Binary(gen_enc(t, cfg)),
            9 if cfg.fixedbinary => LType::FixedBinary(*t.pick(&[4, 1, 2, 16, 0, 7])),
            10 if cfg.temporal => match t.below(3) {
                0 => LType::Date32,
                1 => LType::Date64,
                _ => LType::Duration(t.pick(&UNITS).clone()),
            },
            11 if cfg.temporal => {
                let tz = if cfg.tz && t.bool() { Some(t.pick(&TZS).to_string()) } else { None };
                LType::Timestamp(t.pick(&UNITS).clone(), tz)
            }
            12 if cfg.temporal => {
                if t.bool() {
                    LType::Time32(t.pick(&[Unit::S, Unit::Ms]).clone())
                } else {
                    LType::Time64(t.pick(&[Unit::Us, Unit::Ns]).clone())
                }
            }
            13 if cfg.interval => t.pick(&[LType::IntervalYM, LType::IntervalDT, LType::IntervalMDN]).clone(),
            14 if cfg.null => LType::Null,
            15 if cfg.float => LType::F64,
            _ => continue,
        };
        return ty;
    }
}

fn gen_enc(t: &mut Tape, cfg: &TypeCfg) -> Enc {
    match t.below(4) {
        1 if cfg.large => Enc::O64,
        2 if cfg.view => Enc::View,
        _ => Enc::O32,
    }
}

/// value types usable under a dictionary
pub fn gen_dict_value(t: &mut Tape, cfg: &TypeCfg) -> LType {
    let mut c = cfg.clone();
    c.null = false;
    c.interval = false;
    c.boolean = false;
    loop {
        let ty = gen_leaf(t, &c);
        if matches!(ty, LType::F16 | LType::Decimal { width: 32 | 64, .. }) {
            continue;
        }
        return ty;
    }
}

pub fn gen_field(t: &mut Tape, cfg: &TypeCfg, depth: u32, name: &str) -> LField {
    let ty = gen_type_d(t, cfg, depth);
    // unions carry nullability in their children (logical nulls): a union field is always declared nullable
    let nullable = matches!(ty, LType::Null | LType::Union { .. }) || !t.chance(64);
    LField { name: name.to_string(), ty, nullable }
}

pub fn gen_type(t: &mut Tape, cfg: &TypeCfg) -> LType {
    gen_type_d(t, cfg, 0)
}

fn gen_type_d(t: &mut Tape, cfg: &TypeCfg, depth: u32) -> LType {
    let can_nest = cfg.nested && depth < cfg.depth;
    let allow_enc = depth == 0 || cfg.nested_encoded;
    let k = t.below(24);
    match k {
        0..=9 => gen_leaf(t, cfg),
        10 | 11 if cfg.dict && allow_enc => {
            let key = gen_int_type(t, true);
            let LType::Int { bits, signed } = key else { unreachable!() };
            // 8-bit keys only at the top level (padding/garbage rows of nested children could exceed 128 values)
            let bits = if depth > 0 && bits == 8 { 16 } else { bits };
            LType::Dict { kbits: bits, ksigned: signed, value: Box::new(gen_dict_value(t, cfg)) }
        }
        12 if cfg.ree && allow_enc => {
            let v = gen_dict_value(t, cfg);
            LType::Ree { rbits: *t.pick(&[32u8, 16, 64]), value: Box::new(LField { name: "values".into(), ty: v, nullable: true }) }
        }
        13 | 14 if can_nest => {
            let enc = match t.below(6) {
                1 if cfg.large => ListEnc::O64,
                2 if cfg.listview => ListEnc::V32,
                3 if cfg.listview && cfg.large => ListEnc::V64,
                _ => ListEnc::O32,
            };
            LType::List(Box::new(gen_field(t, cfg, depth + 1, "item")), enc)
        }
        15 if can_nest && cfg.fixedlist => {
            let n = *t.pick(&[2, 1, 3, 0]);
            LType::FixedList(Box::new(gen_field(t, cfg, depth + 1, "item")), n)
        }
        16 | 17 if can_nest => {
            let n = 1 + t.below(3);
            let fs = (0..n).map(|i| gen_field(t, cfg, depth + 1, NAMES[i])).collect();
            LType::Struct(fs)
        }
        18 if can_nest && cfg.map => {
            let mut kc = TypeCfg::primitive();
            kc.float = false;
            kc.f16 = false;
            kc.interval = false;
            let key = if t.bool() { LType::Utf8(Enc::O32) } else { gen_leaf(t, &kc) };
            let val = gen_field(t, cfg, depth + 1, "value");
            LType::Map { key: Box::new(LField { name: "key".into(), ty: key, nullable: false }), val: Box::new(val), sorted: false }
        }
        19 if can_nest && cfg.union => {
            let n = 1 + t.below(3);
            let mut ids: Vec<i8> = vec![];
            let mut next = t.below(3) as i8;
            for _ in 0..n {
                ids.push(next);
                next += 1 + t.below(3) as i8;
            }
            let fields = (0..n).map(|i| (ids[i], gen_field(t, cfg, depth + 1, NAMES[i]))).collect();
            LType::Union { dense: t.bool(), fields }
        }
        _ => gen_leaf(t, cfg),
    }
}

/// draw types until `pred` accepts (bounded), falling back to Int32
pub fn gen_type_where(t: &mut Tape, cfg: &TypeCfg, pred: &dyn Fn(&LType) -> bool) -> LType {
    for _ in 0..24 {
        let ty = gen_type(t, cfg);
        if pred(&ty) {
            return ty;
        }
    }
    LType::Int { bits: 32, signed: true }
}

// ------------------------------------------------------------------------------------------------
#[derive(Clone, Debug)]
pub struct ValCfg {
    /// dates/timestamps restricted to calendar years 0001..=9999
    pub sane_temporal: bool,
    /// decimals within declared precision
    pub dec_in_precision: bool,
    pub max_str: usize,
    pub max_list: usize,
    /// floats may be NaN
    pub nan: bool,
}
impl Default for ValCfg {
    fn default() -> Self {
        ValCfg { sane_temporal: true, dec_in_precision: true, max_str: 300, max_list: 5, nan: true }
    }
}

pub const ALPHABET: [&str; 24] = ["a", "b", "A", "z", "0", " ", "é", "ß", "中", "😀", "\n", "%", "_", "\\", "\"", ",", ".", "*", "K", "İ", "σ", "\u{301}", "\u{0}", "~"];

/// length up to `max`; when `max` allows it, half of the draws sit next to a power-of-two boundary (scratch buffers, block
/// sizes, one-byte length prefixes).  For `max < 64` the decoding is the plain uniform one (no extra tape byte).
fn long_len(t: &mut Tape, max: usize) -> usize {
    if max >= 64 && t.bool() {
        let b = *t.pick(&[63usize, 64, 65, 127, 128, 129, 255, 256, 257, 511, 512, 513, 1023, 1024, 1025, 4095, 4096, 4097]);
        if b <= max { b } else { max }
    } else {
        t.below(max + 1)
    }
}

pub fn gen_string(t: &mut Tape, max: usize) -> String {
    let n = match t.below(10) {
        0 => 0,
        1 => *t.pick(&[12usize, 13, 11, 4, 5, 8, 32, 33]),
        2 => long_len(t, max),
        _ => t.below(7),
    };
    let mut s = String::new();
    let ascii_only = t.chance(96);
    for _ in 0..n {
        if ascii_only {
            s.push((b'a' + t.below(6) as u8) as char);
        } else {
            s.push_str(*t.pick(&ALPHABET[..]));
        }
    }
    s
}
pub fn gen_bytes(t: &mut Tape, max: usize) -> Vec<u8> {
    let n = match t.below(8) {
        0 => 0,
        1 => *t.pick(&[12usize, 13, 8, 9, 32, 33]),
        2 => long_len(t, max),
        _ => t.below(6),
    };
    (0..n).map(|_| *t.pick(&[0u8, 0xff, 1, 0x61, 0x7f, 0x80, 0xfe, 0x62])).collect()
}

pub fn pow10_i128(p: u32) -> i128 {
    10i128.pow(p)
}

pub fn gen_int_in(t: &mut Tape, lo: i128, hi: i128) -> i128 {
    let k = t.below(16);
    let v = match k {
        0 => 0,
        1 => 1,
        2 => -1,
        3 => lo,
        4 => hi,
        5 => lo + 1,
        6 => hi - 1,
        7 | 8 => t.below(10) as i128,
        9 => -(t.below(10) as i128),
        10 => {
            let b = t.below(127) as u32;
            (1i128 << b) - 1 + t.below(3) as i128
        }
        11 => {
            let b = t.below(127) as u32;
            -(1i128 << b) - 1 + t.below(3) as i128
        }
        _ => {
            let r = t.u128();
            let span = hi.wrapping_sub(lo) as u128;
            if span == u128::MAX { r as i128 } else { lo.wrapping_add((r % (span + 1)) as i128) }
        }
    };
    v.clamp(lo, hi)
}

pub fn int_range(bits: u8, signed: bool) -> (i128, i128) {
    if signed {
        (-(1i128 << (bits - 1)), (1i128 << (bits - 1)) - 1)
    } else {
        (0, (1i128 << bits) - 1)
    }
}

pub fn gen_f64_bits(t: &mut Tape, nan: bool) -> u64 {
    let k = t.below(20);
    let v: u64 = match k {
        0 => 0f64.to_bits(),
        1 => (-0f64).to_bits(),
        2 => 1f64.to_bits(),
        3 => (-1f64).to_bits(),
        4 => f64::INFINITY.to_bits(),
        5 => f64::NEG_INFINITY.to_bits(),
        6 if nan => f64::NAN.to_bits(),
        7 if nan => (-f64::NAN).to_bits(),
        8 if nan => 0x7ff0_0000_0000_0001,
        9 => 1,
        10 => f64::MAX.to_bits(),
        11 => f64::MIN_POSITIVE.to_bits(),
        12 | 13 => (t.below(200) as f64 - 100.0).to_bits(),
        14 => (t.below(2000) as f64 / 8.0 - 100.0).to_bits(),
        _ => t.u64(),
    };
    if !nan && f64::from_bits(v).is_nan() { 0 } else { v }
}
pub fn gen_f32_bits(t: &mut Tape, nan: bool) -> u32 {
    let k = t.below(20);
    let v: u32 = match k {
        0 => 0f32.to_bits(),
        1 => (-0f32).to_bits(),
        2 => 1f32.to_bits(),
        3 => (-1f32).to_bits(),
        4 => f32::INFINITY.to_bits(),
        5 => f32::NEG_INFINITY.to_bits(),
        6 if nan => f32::NAN.to_bits(),
        7 if nan => (-f32::NAN).to_bits(),
        8 if nan => 0x7f80_0001,
        9 => 1,
        10 => f32::MAX.to_bits(),
        11 => f32::MIN_POSITIVE.to_bits(),
        12 | 13 => (t.below(200) as f32 - 100.0).to_bits(),
        14 => (t.below(2000) as f32 / 8.0 - 100.0).to_bits(),
        _ => t.u32(),
    };
    if !nan && f32::from_bits(v).is_nan() { 0 } else { v }
}
pub fn gen_f16_bits(t: &mut Tape, nan: bool) -> u16 {
    let k = t.below(16);
    let v: u16 = match k {
        0 => 0,
        1 => 0x8000,
        2 => 0x3c00,
        3 => 0xbc00,
        4 => 0x7c00,
        5 => 0xfc00,
        6 if nan => 0x7e00,
        7 if nan => 0xfe00,
        8 if nan => 0x7c01,
        9 => 1,
        10 => 0x7bff,
        _ => t.u16(),
    };
    let is_nan = (v & 0x7c00) == 0x7c00 && (v & 0x03ff) != 0;
    if !nan && is_nan { 0 } else { v }
}

// days from 0001-01-01 to 9999-12-31 relative to the epoch
pub const MIN_DAY: i64 = -719_162;
pub const MAX_DAY: i64 = 2_932_896;

pub fn gen_value(t: &mut Tape, ty: &LType, nullable: bool, cfg: &ValCfg) -> LValue {
    if matches!(ty, LType::Null) {
        return LValue::Null;
    }
    if nullable && !matches!(ty, LType::Union { .. }) && t.chance(40) {
        return LValue::Null;
    }
    gen_nonnull(t, ty, cfg)
}

pub fn gen_nonnull(t: &mut Tape, ty: &LType, cfg: &ValCfg) -> LValue {
    use LType::*;
    match ty {
        Null => LValue::Null,
        Bool => LValue::Bool(t.bool()),
        Int { bits, signed } => {
            let (lo, hi) = int_range(*bits, *signed);
            LValue::Int(gen_int_in(t, lo, hi))
        }
        F16 => LValue::F16(gen_f16_bits(t, cfg.nan)),
        F32 => LValue::F32(gen_f32_bits(t, cfg.nan)),
        F64 => LValue::F64(gen_f64_bits(t, cfg.nan)),
        Decimal { width, p, .. } => {
            if *width == 256 {
                if *p <= 38 || t.bool() {
                    let lim = pow10_i128((*p as u32).min(38)) - 1;
                    LValue::Big(big_from_i128(gen_int_in(t, -lim, lim)))
                } else {
                    // up to 10^p - 1 via decimal string of p digits
                    let digits: String = (0..*p).map(|i| if i == 0 { char::from(b'1' + t.below(9) as u8) } else { char::from(b'0' + t.below(10) as u8) }).collect();
                    let neg = t.bool();
                    LValue::Big(big_from_decimal_str(&digits, neg))
                }
            } else {
                let lim = if cfg.dec_in_precision { pow10_i128(*p as u32) - 1 } else { int_range(*width as u8, true).1 };
                LValue::Int(gen_int_in(t, -lim, lim))
            }
        }
        Date32 => {
            if cfg.sane_temporal {
                LValue::Int(gen_int_in(t, MIN_DAY as i128, MAX_DAY as i128))
            } else {
                LValue::Int(gen_int_in(t, i32::MIN as i128, i32::MAX as i128))
            }
        }
        Date64 => {
            if cfg.sane_temporal {
                LValue::Int(gen_int_in(t, MIN_DAY as i128, MAX_DAY as i128) * 86_400_000)
            } else {
                LValue::Int(gen_int_in(t, i64::MIN as i128, i64::MAX as i128))
            }
        }
        Time32(u) | Time64(u) => {
            let max = 86_400i128 * u.per_second() as i128 - 1;
            LValue::Int(gen_int_in(t, 0, max))
        }
        Timestamp(u, _) => {
            if cfg.sane_temporal {
                let per = u.per_second() as i128;
                let lo = (MIN_DAY as i128 + 1) * 86_400 * per;
                let hi = (MAX_DAY as i128 - 1) * 86_400 * per;
                let lo = lo.max(i64::MIN as i128);
                let hi = hi.min(i64::MAX as i128);
                LValue::Int(gen_int_in(t, lo, hi))
            } else {
                LValue::Int(gen_int_in(t, i64::MIN as i128, i64::MAX as i128))
            }
        }
        Duration(_) => LValue::Int(gen_int_in(t, i64::MIN as i128, i64::MAX as i128)),
        IntervalYM => LValue::Int(gen_int_in(t, i32::MIN as i128, i32::MAX as i128)),
        IntervalDT => LValue::DayTime(gen_int_in(t, i32::MIN as i128, i32::MAX as i128) as i32, gen_int_in(t, i32::MIN as i128, i32::MAX as i128) as i32),
        IntervalMDN => LValue::MonthDayNano(
            gen_int_in(t, i32::MIN as i128, i32::MAX as i128) as i32,
            gen_int_in(t, i32::MIN as i128, i32::MAX as i128) as i32,
            gen_int_in(t, i64::MIN as i128, i64::MAX as i128) as i64,
        ),
        Utf8(_) => LValue::Str(gen_string(t, cfg.max_str)),
        Binary(_) => LValue::Bytes(gen_bytes(t, cfg.max_str)),
        FixedBinary(n) => LValue::Bytes((0..*n).map(|_| *t.pick(&[0u8, 0xff, 1, 0x61, 0x80])).collect()),
        List(f, _) => {
            let n = t.len(cfg.max_list.min(3), cfg.max_list);
            LValue::List((0..n).map(|_| gen_value(t, &f.ty, f.nullable, cfg)).collect())
        }
        FixedList(f, n) => LValue::List((0..*n).map(|_| gen_value(t, &f.ty, f.nullable, cfg)).collect()),
        Struct(fs) => LValue::Struct(fs.iter().map(|f| gen_value(t, &f.ty, f.nullable, cfg)).collect()),
        Map { key, val, .. } => {
            let n = t.below(4);
            LValue::Map((0..n).map(|_| (gen_nonnull(t, &key.ty, cfg), gen_value(t, &val.ty, val.nullable, cfg))).collect())
        }
        Union { fields, .. } => {
            let (id, f) = t.pick(fields);
            LValue::Union(*id, Box::new(gen_value(t, &f.ty, f.nullable, cfg)))
        }
        Dict { value, .. } => gen_nonnull(t, value, cfg),
        Ree { value, .. } => gen_nonnull(t, &value.ty, cfg),
    }
}

pub fn big_from_decimal_str(digits: &str, neg: bool) -> [u8; 32] {
    // base-256 little endian accumulate
    let mut b = [0u8; 32];
    for ch in digits.bytes() {
        let mut carry = (ch - b'0') as u32;
        for x in b.iter_mut() {
            let v = (*x as u32) * 10 + carry;
            *x = (v & 0xff) as u8;
            carry = v >> 8;
        }
    }
    if neg {
        let mut carry = 1u16;
        for x in b.iter_mut() {
            let v = (!*x) as u16 + carry;
            *x = (v & 0xff) as u8;
            carry = v >> 8;
        }
    }
    b
}

#[derive(Clone, Copy, Debug, PartialEq, Eq)]
pub enum NullPattern {
    None,
    All,
    Few,
    Random,
}

/// A column of `len` values with a null pattern and (optionally) heavy duplication.
pub fn gen_column(t: &mut Tape, ty: &LType, nullable: bool, len: usize, cfg: &ValCfg) -> Vec<LValue> {
    let pat = if !nullable || matches!(ty, LType::Union { .. }) {
        NullPattern::None
    } else {
        match t.below(8) {
            0 => NullPattern::None,
            1 => NullPattern::All,
            2 | 3 => NullPattern::Few,
            _ => NullPattern::Random,
        }
    };
    if matches!(ty, LType::Null) {
        return vec![LValue::Null; len];
    }
    let small_keys = ty.any(&|x| matches!(x, LType::Dict { kbits: 8, .. }));
    let dup = t.chance(100) || small_keys;
    let pool: Vec<LValue> = if dup { (0..1 + t.below(4)).map(|_| gen_nonnull(t, ty, cfg)).collect() } else { vec![] };
    let runs = dup && t.bool();
    let mut out: Vec<LValue> = Vec::with_capacity(len);
    for i in 0..len {
        let null = match pat {
            NullPattern::None => false,
            NullPattern::All => true,
            NullPattern::Few => t.chance(16),
            NullPattern::Random => t.chance(80),
        };
        if null {
            out.push(LValue::Null);
        } else if dup {
            if runs && i > 0 && t.chance(180) {
                let prev = out[i - 1].clone();
                out.push(prev);
            } else {
                out.push(t.pick(&pool).clone());
            }
        } else {
            out.push(gen_nonnull(t, ty, cfg));
        }
    }
    out
}

pub fn gen_len(t: &mut Tape) -> usize {
    match t.below(12) {
        0 => 0,
        1 => 1,
        2 => *t.pick(&[63usize, 64, 65, 127, 128, 129, 2, 3, 8, 9]),
        3 => 40 + t.below(100),
        _ => t.below(40),
    }
}
