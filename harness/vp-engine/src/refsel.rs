//! Naive row-by-row reference implementations of the selection kernels on logical values.
use crate::model::LValue;

pub fn ref_filter(vals: &[LValue], pred: &[Option<bool>]) -> Vec<LValue> {
    vals.iter().zip(pred).filter(|(_, p)| **p == Some(true)).map(|(v, _)| v.clone()).collect()
}
pub fn ref_take(vals: &[LValue], idx: &[Option<usize>]) -> Vec<LValue> {
    idx.iter().map(|i| i.map(|i| vals[i].clone()).unwrap_or(LValue::Null)).collect()
}
pub fn ref_concat(parts: &[Vec<LValue>]) -> Vec<LValue> {
    parts.iter().flat_map(|p| p.iter().cloned()).collect()
}
pub fn ref_interleave(parts: &[Vec<LValue>], idx: &[(usize, usize)]) -> Vec<LValue> {
    idx.iter().map(|(a, r)| parts[*a][*r].clone()).collect()
}
/// `side`: Ok(array values) or Err(scalar value)
pub type Side<'a> = Result<&'a [LValue], &'a LValue>;
fn side_at(s: &Side, i: usize) -> LValue {
    match s {
        Ok(a) => a[i].clone(),
        Err(v) => (*v).clone(),
    }
}
/// zip: mask true -> truthy[i], false or null -> falsy[i]
pub fn ref_zip(mask: &[Option<bool>], truthy: &Side, falsy: &Side) -> Vec<LValue> {
    mask.iter().enumerate().map(|(i, m)| if *m == Some(true) { side_at(truthy, i) } else { side_at(falsy, i) }).collect()
}
/// merge: k-th true takes the k-th truthy row, k-th other entry the k-th falsy row; scalars repeat
pub fn ref_merge(mask: &[Option<bool>], truthy: &Side, falsy: &Side) -> Vec<LValue> {
    let (mut ti, mut fi) = (0usize, 0usize);
    mask.iter()
        .map(|m| {
            if *m == Some(true) {
                ti += 1;
                side_at(truthy, ti - 1)
            } else {
                fi += 1;
                side_at(falsy, fi - 1)
            }
        })
        .collect()
}
pub fn ref_merge_n(values: &[Vec<LValue>], indices: &[Option<usize>]) -> Vec<LValue> {
    let mut cur = vec![0usize; values.len()];
    indices
        .iter()
        .map(|i| match i {
            None => LValue::Null,
            Some(a) => {
                cur[*a] += 1;
                values[*a][cur[*a] - 1].clone()
            }
        })
        .collect()
}
pub fn ref_nullif(left: &[LValue], right: &[Option<bool>]) -> Vec<LValue> {
    left.iter().zip(right).map(|(l, r)| if *r == Some(true) { LValue::Null } else { l.clone() }).collect()
}
pub fn ref_shift(vals: &[LValue], offset: i64) -> Vec<LValue> {
    let n = vals.len() as i64;
    (0..n)
        .map(|i| {
            let src = i - offset;
            if src >= 0 && src < n { vals[src as usize].clone() } else { LValue::Null }
        })
        .collect()
}
