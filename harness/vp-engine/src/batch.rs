//! Record-batch level helpers: schema/batch generation, realisation and extraction.
use crate::extract::extract;
use crate::model::*;
use crate::r#gen::*;
use crate::realise::{realise, Lay};
use crate::tape::Tape;
use arrow_array::{ArrayRef, RecordBatch, RecordBatchOptions};
use arrow_schema::{Field, Schema, SchemaRef};
use std::collections::HashMap;
use std::sync::Arc;

/// `ncols` fields named c0.. with generated types
pub fn gen_fields(t: &mut Tape, cfg: &TypeCfg, ncols: usize, pred: &dyn Fn(&LType) -> bool) -> Vec<LField> {
    (0..ncols)
        .map(|i| {
            let ty = gen_type_where(t, cfg, pred);
            let nullable = matches!(ty, LType::Null | LType::Union { .. }) || !t.chance(48);
            LField { name: format!("c{}", i), ty, nullable }
        })
        .collect()
}

pub fn schema_of(fields: &[LField], metadata: Option<HashMap<String, String>>) -> SchemaRef {
    let fs: Vec<Field> = fields.iter().map(|f| f.arrow()).collect();
    Arc::new(match metadata {
        Some(m) => Schema::new_with_metadata(fs, m),
        None => Schema::new(fs),
    })
}

/// logical batch: one Vec<LValue> per column
pub type LBatch = Vec<Vec<LValue>>;

pub fn gen_lbatch(t: &mut Tape, fields: &[LField], rows: usize, vcfg: &ValCfg) -> LBatch {
    fields.iter().map(|f| gen_column(t, &f.ty, f.nullable, rows, vcfg)).collect()
}

pub fn realise_batch(t: &mut Tape, schema: &SchemaRef, fields: &[LField], cols: &LBatch, rows: usize, lay: &Lay) -> RecordBatch {
    let arrays: Vec<ArrayRef> = fields.iter().zip(cols).map(|(f, c)| realise(t, &f.ty, c, f.nullable, lay)).collect();
    RecordBatch::try_new_with_options(schema.clone(), arrays, &RecordBatchOptions::new().with_row_count(Some(rows))).unwrap()
}

pub fn extract_batch(b: &RecordBatch) -> LBatch {
    b.columns().iter().map(|c| extract(c.as_ref())).collect()
}

/// append the rows of `b` to `acc` (column-wise)
pub fn append_lbatch(acc: &mut LBatch, b: &LBatch) {
    if acc.is_empty() {
        *acc = b.clone();
    } else {
        for (a, c) in acc.iter_mut().zip(b) {
            a.extend(c.iter().cloned());
        }
    }
}

/// first (column,row) where two logical batches differ
pub fn lbatch_diff(a: &LBatch, b: &LBatch) -> Option<(usize, usize)> {
    if a.len() != b.len() {
        return Some((a.len().min(b.len()), 0));
    }
    for (ci, (x, y)) in a.iter().zip(b).enumerate() {
        if let Some(r) = first_diff(x, y) {
            return Some((ci, r));
        }
    }
    None
}
