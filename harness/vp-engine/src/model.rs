//! Logical model: types and values, independent of the physical Arrow layout.
use arrow_schema::{DataType, Field, Fields, IntervalUnit, TimeUnit, UnionFields, UnionMode};
use serde::{Deserialize, Serialize};
use std::cmp::Ordering;
use std::sync::Arc;

#[derive(Clone, Debug, PartialEq, Eq, Hash, Serialize, Deserialize)]
pub enum Unit {
    S,
    Ms,
    Us,
    Ns,
}
impl Unit {
    pub fn arrow(&self) -> TimeUnit {
        match self {
            Unit::S => TimeUnit::Second,
            Unit::Ms => TimeUnit::Millisecond,
            Unit::Us => TimeUnit::Microsecond,
            Unit::Ns => TimeUnit::Nanosecond,
        }
    }
    pub fn from_arrow(u: &TimeUnit) -> Unit {
        match u {
            TimeUnit::Second => Unit::S,
            TimeUnit::Millisecond => Unit::Ms,
            TimeUnit::Microsecond => Unit::Us,
            TimeUnit::Nanosecond => Unit::Ns,
        }
    }
    pub fn per_second(&self) -> i64 {
        match self {
            Unit::S => 1,
            Unit::Ms => 1_000,
            Unit::Us => 1_000_000,
            Unit::Ns => 1_000_000_000,
        }
    }
}

/// physical encoding of variable-length data
#[derive(Clone, Copy, Debug, PartialEq, Eq, Hash, Serialize, Deserialize)]
pub enum Enc {
    O32,
    O64,
    View,
}
#[derive(Clone, Copy, Debug, PartialEq, Eq, Hash, Serialize, Deserialize)]
pub enum ListEnc {
    O32,
    O64,
    V32,
    V64,
}

#[derive(Clone, Debug, PartialEq, Eq, Hash, Serialize, Deserialize)]
pub struct LField {
    pub name: String,
    pub ty: LType,
    pub nullable: bool,
}
impl LField {
    pub fn new(name: &str, ty: LType, nullable: bool) -> Self {
        LField { name: name.to_string(), ty, nullable }
    }
    pub fn arrow(&self) -> Field {
        Field::new(&self.name, self.ty.arrow(), self.nullable)
    }
}

#[derive(Clone, Debug, PartialEq, Eq, Hash, Serialize, Deserialize)]
pub enum LType {
    Null,
    Bool,
    Int { bits: u8, signed: bool },
    F16,
    F32,
    F64,
    /// width in bits: 32, 64, 128, 256
    Decimal { width: u16, p: u8, s: i8 },
    Date32,
    Date64,
    Time32(Unit),
    Time64(Unit),
    Timestamp(Unit, Option<String>),
    Duration(Unit),
    IntervalYM,
    IntervalDT,
    IntervalMDN,
    Utf8(Enc),
    Binary(Enc),
    FixedBinary(i32),
    List(Box<LField>, ListEnc),
    FixedList(Box<LField>, i32),
    Struct(Vec<LField>),
    Map { key: Box<LField>, val: Box<LField>, sorted: bool },
    Union { dense: bool, fields: Vec<(i8, LField)> },
    /// key integer type (bits, signed) and value type
    Dict { kbits: u8, ksigned: bool, value: Box<LType> },
    /// run-end bits 16/32/64 and values field
    Ree { rbits: u8, value: Box<LField> },
}

impl LType {
    pub fn arrow(&self) -> DataType {
        use LType::*;
        match self {
            Null => DataType::Null,
            Bool => DataType::Boolean,
            Int { bits, signed } => int_dt(*bits, *signed),
            F16 => DataType::Float16,
            F32 => DataType::Float32,
            F64 => DataType::Float64,
            Decimal { width, p, s } => match width {
                32 => DataType::Decimal32(*p, *s),
                64 => DataType::Decimal64(*p, *s),
                128 => DataType::Decimal128(*p, *s),
                _ => DataType::Decimal256(*p, *s),
            },
            Date32 => DataType::Date32,
            Date64 => DataType::Date64,
            Time32(u) => DataType::Time32(u.arrow()),
            Time64(u) => DataType::Time64(u.arrow()),
            Timestamp(u, tz) => DataType::Timestamp(u.arrow(), tz.as_ref().map(|s| Arc::from(s.as_str()))),
            Duration(u) => DataType::Duration(u.arrow()),
            IntervalYM => DataType::Interval(IntervalUnit::YearMonth),
            IntervalDT => DataType::Interval(IntervalUnit::DayTime),
            IntervalMDN => DataType::Interval(IntervalUnit::MonthDayNano),
            Utf8(Enc::O32) => DataType::Utf8,
            Utf8(Enc::O64) => DataType::LargeUtf8,
            Utf8(Enc::View) => DataType::Utf8View,
            Binary(Enc::O32) => DataType::Binary,
            Binary(Enc::O64) => DataType::LargeBinary,
            Binary(Enc::View) => DataType::BinaryView,
            FixedBinary(n) => DataType::FixedSizeBinary(*n),
            List(f, e) => {
                let f = Arc::new(f.arrow());
                match e {
                    ListEnc::O32 => DataType::List(f),
                    ListEnc::O64 => DataType::LargeList(f),
                    ListEnc::V32 => DataType::ListView(f),
                    ListEnc::V64 => DataType::LargeListView(f),
                }
            }
            FixedList(f, n) => DataType::FixedSizeList(Arc::new(f.arrow()), *n),
            Struct(fs) => DataType::Struct(Fields::from(fs.iter().map(|f| f.arrow()).collect::<Vec<_>>())),
            Map { key, val, sorted } => {
                let entries = Field::new("entries", DataType::Struct(Fields::from(vec![key.arrow(), val.arrow()])), false);
                DataType::Map(Arc::new(entries), *sorted)
            }
            Union { dense, fields } => {
                let uf = UnionFields::try_new(fields.iter().map(|x| x.0), fields.iter().map(|x| x.1.arrow())).unwrap();
                DataType::Union(uf, if *dense { UnionMode::Dense } else { UnionMode::Sparse })
            }
            Dict { kbits, ksigned, value } => DataType::Dictionary(Box::new(int_dt(*kbits, *ksigned)), Box::new(value.arrow())),
            Ree { rbits, value } => DataType::RunEndEncoded(
                Arc::new(Field::new("run_ends", int_dt(*rbits, true), false)),
                Arc::new(value.arrow()),
            ),
        }
    }

    pub fn from_arrow(dt: &DataType) -> Option<LType> {
        use DataType as D;
        let lf = |f: &Field| -> Option<LField> { Some(LField { name: f.name().clone(), ty: LType::from_arrow(f.data_type())?, nullable: f.is_nullable() }) };
        Some(match dt {
            D::Null => LType::Null,
            D::Boolean => LType::Bool,
            D::Int8 => LType::Int { bits: 8, signed: true },
            D::Int16 => LType::Int { bits: 16, signed: true },
            D::Int32 => LType::Int { bits: 32, signed: true },
            D::Int64 => LType::Int { bits: 64, signed: true },
            D::UInt8 => LType::Int { bits: 8, signed: false },
            D::UInt16 => LType::Int { bits: 16, signed: false },
            D::UInt32 => LType::Int { bits: 32, signed: false },
            D::UInt64 => LType::Int { bits: 64, signed: false },
            D::Float16 => LType::F16,
            D::Float32 => LType::F32,
            D::Float64 => LType::F64,
            D::Decimal32(p, s) => LType::Decimal { width: 32, p: *p, s: *s },
            D::Decimal64(p, s) => LType::Decimal { width: 64, p: *p, s: *s },
            D::Decimal128(p, s) => LType::Decimal { width: 128, p: *p, s: *s },
            D::Decimal256(p, s) => LType::Decimal { width: 256, p: *p, s: *s },
            D::Date32 => LType::Date32,
            D::Date64 => LType::Date64,
            D::Time32(u) => LType::Time32(Unit::from_arrow(u)),
            D::Time64(u) => LType::Time64(Unit::from_arrow(u)),
            D::Timestamp(u, tz) => LType::Timestamp(Unit::from_arrow(u), tz.as_ref().map(|s| s.to_string())),
            D::Duration(u) => LType::Duration(Unit::from_arrow(u)),
            D::Interval(IntervalUnit::YearMonth) => LType::IntervalYM,
            D::Interval(IntervalUnit::DayTime) => LType::IntervalDT,
            D::Interval(IntervalUnit::MonthDayNano) => LType::IntervalMDN,
            D::Utf8 => LType::Utf8(Enc::O32),
            D::LargeUtf8 => LType::Utf8(Enc::O64),
            D::Utf8View => LType::Utf8(Enc::View),
            D::Binary => LType::Binary(Enc::O32),
            D::LargeBinary => LType::Binary(Enc::O64),
            D::BinaryView => LType::Binary(Enc::View),
            D::FixedSizeBinary(n) => LType::FixedBinary(*n),
            D::List(f) => LType::List(Box::new(lf(f)?), ListEnc::O32),
            D::LargeList(f) => LType::List(Box::new(lf(f)?), ListEnc::O64),
            D::ListView(f) => LType::List(Box::new(lf(f)?), ListEnc::V32),
            D::LargeListView(f) => LType::List(Box::new(lf(f)?), ListEnc::V64),
            D::FixedSizeList(f, n) => LType::FixedList(Box::new(lf(f)?), *n),
            D::Struct(fs) => LType::Struct(fs.iter().map(|f| lf(f)).collect::<Option<Vec<_>>>()?),
            D::Map(e, sorted) => match e.data_type() {
                D::Struct(fs) if fs.len() == 2 => LType::Map { key: Box::new(lf(&fs[0])?), val: Box::new(lf(&fs[1])?), sorted: *sorted },
                _ => return None,
            },
            D::Union(uf, mode) => LType::Union {
                dense: *mode == UnionMode::Dense,
                fields: uf.iter().map(|(id, f)| Some((id, lf(f)?))).collect::<Option<Vec<_>>>()?,
            },
            D::Dictionary(k, v) => {
                let LType::Int { bits, signed } = LType::from_arrow(k)? else { return None };
                LType::Dict { kbits: bits, ksigned: signed, value: Box::new(LType::from_arrow(v)?) }
            }
            D::RunEndEncoded(r, v) => {
                let LType::Int { bits, .. } = LType::from_arrow(r.data_type())? else { return None };
                LType::Ree { rbits: bits, value: Box::new(lf(v)?) }
            }
        })
    }

    /// type whose values are denoted (dictionary / run-end stripped at the top level)
    pub fn denoted(&self) -> &LType {
        match self {
            LType::Dict { value, .. } => value.denoted(),
            LType::Ree { value, .. } => value.ty.denoted(),
            t => t,
        }
    }
    pub fn is_nested(&self) -> bool {
        matches!(self.denoted(), LType::List(..) | LType::FixedList(..) | LType::Struct(..) | LType::Map { .. } | LType::Union { .. })
    }
    pub fn family(&self) -> &'static str {
        use LType::*;
        match self {
            Null => "null",
            Bool => "bool",
            Int { .. } => "int",
            F16 | F32 | F64 => "float",
            Decimal { .. } => "decimal",
            Date32 | Date64 | Time32(_) | Time64(_) | Timestamp(..) | Duration(_) => "temporal",
            IntervalYM | IntervalDT | IntervalMDN => "interval",
            Utf8(Enc::View) | Binary(Enc::View) => "view",
            Utf8(_) | Binary(_) => "bytes",
            FixedBinary(_) => "fixedbinary",
            List(_, ListEnc::V32 | ListEnc::V64) => "listview",
            List(..) => "list",
            FixedList(..) => "fixedlist",
            Struct(_) => "struct",
            Map { .. } => "map",
            Union { .. } => "union",
            Dict { .. } => "dictionary",
            Ree { .. } => "runend",
        }
    }
    /// does any node of the type satisfy `f`
    pub fn any(&self, f: &dyn Fn(&LType) -> bool) -> bool {
        if f(self) {
            return true;
        }
        use LType::*;
        match self {
            List(c, _) | FixedList(c, _) => c.ty.any(f),
            Struct(fs) => fs.iter().any(|x| x.ty.any(f)),
            Map { key, val, .. } => key.ty.any(f) || val.ty.any(f),
            Union { fields, .. } => fields.iter().any(|x| x.1.ty.any(f)),
            Dict { value, .. } => value.any(f),
            Ree { value, .. } => value.ty.any(f),
            _ => false,
        }
    }
}

pub fn int_dt(bits: u8, signed: bool) -> DataType {
    match (bits, signed) {
        (8, true) => DataType::Int8,
        (16, true) => DataType::Int16,
        (32, true) => DataType::Int32,
        (64, true) => DataType::Int64,
        (8, false) => DataType::UInt8,
        (16, false) => DataType::UInt16,
        (32, false) => DataType::UInt32,
        _ => DataType::UInt64,
    }
}

/// Logical value. Integers of every width (also dates, times, timestamps, durations, decimals up to 128 bit,
/// year-month intervals) are `Int`; 256-bit decimals are `Big` (little-endian two's complement);
/// floats carry their bit pattern.
#[derive(Clone, Debug, PartialEq, Eq, Hash, Serialize, Deserialize)]
pub enum LValue {
    Null,
    Bool(bool),
    Int(i128),
    Big([u8; 32]),
    F16(u16),
    F32(u32),
    F64(u64),
    /// days, millis
    DayTime(i32, i32),
    /// months, days, nanos
    MonthDayNano(i32, i32, i64),
    Bytes(Vec<u8>),
    Str(String),
    List(Vec<LValue>),
    Struct(Vec<LValue>),
    /// map entries (key, value)
    Map(Vec<(LValue, LValue)>),
    Union(i8, Box<LValue>),
}

impl LValue {
    pub fn is_null(&self) -> bool {
        matches!(self, LValue::Null)
    }
    pub fn short(&self) -> String {
        let s = format!("{:?}", self);
        if s.len() > 120 { format!("{}…", s.chars().take(120).collect::<String>()) } else { s }
    }
}

pub fn short_vec(v: &[LValue]) -> String {
    let parts: Vec<String> = v.iter().take(12).map(|x| x.short()).collect();
    format!("[{}{}] (len {})", parts.join(", "), if v.len() > 12 { ", …" } else { "" }, v.len())
}

/// first index where two value sequences differ
pub fn first_diff(a: &[LValue], b: &[LValue]) -> Option<usize> {
    if a.len() != b.len() {
        return Some(a.len().min(b.len()));
    }
    (0..a.len()).find(|i| a[*i] != b[*i])
}

pub fn big_from_i128(v: i128) -> [u8; 32] {
    let mut b = if v < 0 { [0xffu8; 32] } else { [0u8; 32] };
    b[..16].copy_from_slice(&v.to_le_bytes());
    b
}
pub fn big_is_neg(b: &[u8; 32]) -> bool {
    b[31] & 0x80 != 0
}
pub fn big_cmp(a: &[u8; 32], b: &[u8; 32]) -> Ordering {
    match (big_is_neg(a), big_is_neg(b)) {
        (true, false) => Ordering::Less,
        (false, true) => Ordering::Greater,
        _ => {
            for i in (0..32).rev() {
                match a[i].cmp(&b[i]) {
                    Ordering::Equal => {}
                    o => return o,
                }
            }
            Ordering::Equal
        }
    }
}

/// IEEE-754 totalOrder on bit patterns
pub fn total_cmp_bits(a: u64, b: u64, bits: u32) -> Ordering {
    let sign = 1u64 << (bits - 1);
    let key = |x: u64| -> i128 {
        if x & sign != 0 { -((x & (sign - 1)) as i128) - 1 } else { (x & (sign - 1)) as i128 }
    };
    key(a).cmp(&key(b))
}
