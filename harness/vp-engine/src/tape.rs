//! Entropy tape: every random choice of every generator is decoded from a byte string that is
//! produced by proptest (`vec(any::<u8>())`) or by libFuzzer.  A tape that runs out yields zeros, and
//! every decoder maps 0 to its simplest choice, so shrinking the byte vector (shorter, smaller bytes)
//! shrinks the case.  The consumed prefix identifies the case (used for distinct counting).

#[derive(Clone, Debug)]
pub struct Tape {
    data: Vec<u8>,
    pos: usize,
}

impl Tape {
    pub fn new(data: Vec<u8>) -> Self {
        Tape { data, pos: 0 }
    }
    pub fn from_slice(d: &[u8]) -> Self {
        Tape::new(d.to_vec())
    }
    pub fn consumed(&self) -> &[u8] {
        &self.data[..self.pos.min(self.data.len())]
    }
    pub fn exhausted(&self) -> bool {
        self.pos >= self.data.len()
    }
    pub fn raw(&self) -> &[u8] {
        &self.data
    }
    pub fn pos(&self) -> usize {
        self.pos
    }
    pub fn set_pos(&mut self, p: usize) {
        self.pos = p;
    }
    pub fn u8(&mut self) -> u8 {
        let v = self.data.get(self.pos).copied().unwrap_or(0);
        self.pos += 1;
        v
    }
    pub fn u16(&mut self) -> u16 {
        (self.u8() as u16) | ((self.u8() as u16) << 8)
    }
    pub fn u32(&mut self) -> u32 {
        (self.u16() as u32) | ((self.u16() as u32) << 16)
    }
    pub fn u64(&mut self) -> u64 {
        (self.u32() as u64) | ((self.u32() as u64) << 32)
    }
    pub fn u128(&mut self) -> u128 {
        (self.u64() as u128) | ((self.u64() as u128) << 64)
    }
    pub fn bool(&mut self) -> bool {
        self.u8() & 1 == 1
    }
    /// true with probability num/256
    pub fn chance(&mut self, num: u32) -> bool {
        (self.u8() as u32) < num
    }
    /// monotone map of tape bytes to 0..n (0 for n==0); small bytes => small values
    pub fn below(&mut self, n: usize) -> usize {
        if n <= 1 {
            return 0;
        }
        if n <= 256 {
            ((self.u8() as usize) * n) >> 8
        } else if n <= 65536 {
            ((self.u16() as usize) * n) >> 16
        } else {
            (((self.u32() as u64) * (n as u64)) >> 32) as usize
        }
    }
    /// inclusive range
    pub fn range(&mut self, lo: i64, hi: i64) -> i64 {
        if hi <= lo {
            return lo;
        }
        let span = (hi - lo) as u128 + 1;
        if span <= u32::MAX as u128 {
            lo + self.below(span as usize) as i64
        } else {
            let r = self.u64() as u128;
            lo.wrapping_add(((r * span) >> 64) as i64)
        }
    }
    pub fn pick<'a, T>(&mut self, xs: &'a [T]) -> &'a T {
        &xs[self.below(xs.len())]
    }
    /// small length, geometric-ish: mostly 0..=max_small, sometimes up to max
    pub fn len(&mut self, small: usize, max: usize) -> usize {
        let b = self.u8();
        if b < 224 || max <= small {
            ((b as usize) * (small + 1)) / 224
        } else {
            small + self.below(max - small + 1)
        }
    }
    pub fn bytes(&mut self, n: usize) -> Vec<u8> {
        (0..n).map(|_| self.u8()).collect()
    }
    /// a permutation of 0..n (identity when the tape is exhausted)
    pub fn perm(&mut self, n: usize) -> Vec<usize> {
        let mut v: Vec<usize> = (0..n).collect();
        for i in 0..n {
            let j = i + self.below(n - i);
            v.swap(i, j);
        }
        v
    }
    /// offsets biased to interesting bit/word boundaries
    pub fn bias_offset(&mut self) -> usize {
        const B: [usize; 14] = [0, 0, 0, 1, 3, 7, 8, 9, 31, 63, 64, 65, 2, 5];
        *self.pick(&B)
    }
}

pub fn hex(b: &[u8]) -> String {
    let mut s = String::with_capacity(b.len() * 2);
    for x in b {
        s.push_str(&format!("{:02x}", x));
    }
    s
}
pub fn unhex(s: &str) -> Vec<u8> {
    let s = s.trim();
    (0..s.len() / 2)
        .map(|i| u8::from_str_radix(&s[2 * i..2 * i + 2], 16).unwrap_or(0))
        .collect()
}

pub fn fnv(parts: &[&[u8]]) -> u64 {
    let mut h: u64 = 0xcbf29ce484222325;
    for p in parts {
        for b in *p {
            h ^= *b as u64;
            h = h.wrapping_mul(0x100000001b3);
        }
        h ^= 0xff;
        h = h.wrapping_mul(0x100000001b3);
    }
    h
}
