//! Independent validator written from the Arrow columnar specification (and arrow-rs's documented
//! interpretation of `ArrayData`: `offset` applies to buffers and children, `nulls` is already offset).
//! It reads raw bytes only; it does not call `ArrayData::validate*` or typed accessors.
use arrow_data::ArrayData;
use arrow_schema::{DataType, IntervalUnit, UnionMode};

pub type V = Result<(), String>;

fn rd_i(b: &[u8], i: usize, w: usize) -> i128 {
    let s = &b[i * w..(i + 1) * w];
    match w {
        1 => s[0] as i8 as i128,
        2 => i16::from_le_bytes([s[0], s[1]]) as i128,
        4 => i32::from_le_bytes([s[0], s[1], s[2], s[3]]) as i128,
        8 => i64::from_le_bytes(s.try_into().unwrap()) as i128,
        _ => 0,
    }
}
fn rd_u(b: &[u8], i: usize, w: usize) -> i128 {
    let s = &b[i * w..(i + 1) * w];
    match w {
        1 => s[0] as i128,
        2 => u16::from_le_bytes([s[0], s[1]]) as i128,
        4 => u32::from_le_bytes([s[0], s[1], s[2], s[3]]) as i128,
        8 => u64::from_le_bytes(s.try_into().unwrap()) as i128,
        _ => 0,
    }
}

/// (byte width, alignment) of fixed-width primitive layouts
fn prim_layout(dt: &DataType) -> Option<(usize, usize)> {
    use DataType::*;
    Some(match dt {
        Int8 | UInt8 => (1, 1),
        Int16 | UInt16 | Float16 => (2, 2),
        Int32 | UInt32 | Float32 | Date32 | Time32(_) | Decimal32(..) => (4, 4),
        Interval(IntervalUnit::YearMonth) => (4, 4),
        Int64 | UInt64 | Float64 | Date64 | Time64(_) | Timestamp(..) | Duration(_) | Decimal64(..) => (8, 8),
        Interval(IntervalUnit::DayTime) => (8, 4),
        Interval(IntervalUnit::MonthDayNano) => (16, 8),
        Decimal128(..) => (16, 16),
        Decimal256(..) => (32, 16),
        _ => return None,
    })
}

struct Ctx<'a> {
    d: &'a ArrayData,
    path: String,
}
impl Ctx<'_> {
    fn err<T>(&self, m: impl AsRef<str>) -> Result<T, String> {
        Err(format!("{} [{}]: {}", self.path, self.d.data_type(), m.as_ref()))
    }
    fn valid(&self, i: usize) -> bool {
        // i relative to the array (0..len); nulls buffer is already offset
        match self.d.nulls() {
            None => true,
            Some(n) => {
                let bytes = n.inner().values();
                let p = n.inner().offset() + i;
                bytes[p / 8] >> (p % 8) & 1 == 1
            }
        }
    }
    fn nbuf(&self, n: usize) -> V {
        if self.d.buffers().len() != n {
            return self.err(format!("expected {} buffers, found {}", n, self.d.buffers().len()));
        }
        Ok(())
    }
    fn nchild(&self, n: usize) -> V {
        if self.d.child_data().len() != n {
            return self.err(format!("expected {} children, found {}", n, self.d.child_data().len()));
        }
        Ok(())
    }
    /// typed buffer: at least (offset+len)*w bytes, aligned
    fn typed(&self, bi: usize, w: usize, align: usize, extra: usize) -> Result<&[u8], String> {
        let b = &self.d.buffers()[bi];
        let need = self.d.offset().checked_add(self.d.len()).and_then(|x| x.checked_add(extra)).and_then(|x| x.checked_mul(w));
        let Some(need) = need else { return self.err("offset + len overflows the address space") };
        if b.len() < need {
            return self.err(format!("buffer {} has {} bytes, needs {} for offset {} + len {}", bi, b.len(), need, self.d.offset(), self.d.len()));
        }
        if align > 1 && (b.as_ptr() as usize) % align != 0 {
            return self.err(format!("buffer {} not aligned to {}", bi, align));
        }
        Ok(b.as_slice())
    }
}

pub fn spec_validate(d: &ArrayData) -> V {
    NULLABILITY.with(|n| n.set(true));
    validate_node(d, "$".to_string())
}

/// Layout-only variant: does not judge field nullability (schema-level metadata that `ArrayData` validation
/// does not claim to check); used to judge `ArrayData::try_new`/`validate_full` acceptance in C09.
pub fn spec_validate_layout(d: &ArrayData) -> V {
    NULLABILITY.with(|n| n.set(false));
    let r = validate_node(d, "$".to_string());
    NULLABILITY.with(|n| n.set(true));
    r
}

thread_local! {
    static NULLABILITY: std::cell::Cell<bool> = const { std::cell::Cell::new(true) };
}
fn check_nullability() -> bool {
    NULLABILITY.with(|n| n.get())
}

fn validate_node(d: &ArrayData, path: String) -> V {
    let c = Ctx { d, path: path.clone() };
    let len = d.len();
    let off = d.offset();
    if off.checked_add(len).is_none() {
        return c.err("offset + len overflows");
    }
    // validity
    if let Some(n) = d.nulls() {
        if n.len() != len {
            return c.err(format!("validity length {} != len {}", n.len(), len));
        }
        let bytes = n.inner().values();
        let bo = n.inner().offset();
        if bytes.len() * 8 < bo + len {
            return c.err("validity bitmap too short");
        }
        let mut zeros = 0;
        for i in 0..len {
            let p = bo + i;
            if bytes[p / 8] >> (p % 8) & 1 == 0 {
                zeros += 1;
            }
        }
        if zeros != n.null_count() {
            return c.err(format!("null_count {} but bitmap has {} zero bits", n.null_count(), zeros));
        }
        if matches!(d.data_type(), DataType::Null | DataType::Union(..) | DataType::RunEndEncoded(..)) {
            return c.err("type must not carry a validity bitmap");
        }
    }
    use DataType as D;
    let dt = d.data_type();
    if let Some((w, align)) = prim_layout(dt) {
        c.nbuf(1)?;
        c.nchild(0)?;
        c.typed(0, w, align, 0)?;
        return Ok(());
    }
    match dt {
        D::Null => {
            c.nbuf(0)?;
            c.nchild(0)?;
        }
        D::Boolean => {
            c.nbuf(1)?;
            c.nchild(0)?;
            if d.buffers()[0].len() * 8 < off + len {
                return c.err("boolean values buffer too short");
            }
        }
        D::Utf8 | D::Binary | D::LargeUtf8 | D::LargeBinary => {
            c.nbuf(2)?;
            c.nchild(0)?;
            let w = if matches!(dt, D::Utf8 | D::Binary) { 4 } else { 8 };
            let values = d.buffers()[1].as_slice();
            let offs = check_offsets(&c, w, values.len())?;
            if matches!(dt, D::Utf8 | D::LargeUtf8) {
                for i in 0..len {
                    if c.valid(i) {
                        let (s, e) = (offs[i], offs[i + 1]);
                        if std::str::from_utf8(&values[s..e]).is_err() {
                            return c.err(format!("slot {} is not valid UTF-8", i));
                        }
                    }
                }
            }
        }
        D::FixedSizeBinary(w) => {
            c.nbuf(1)?;
            c.nchild(0)?;
            if *w < 0 {
                return c.err("negative byte width");
            }
            c.typed(0, *w as usize, 1, 0)?;
        }
        D::Utf8View | D::BinaryView => {
            c.nchild(0)?;
            if d.buffers().is_empty() {
                return c.err("view array without views buffer");
            }
            let vb = c.typed(0, 16, 16, 0)?;
            let data = &d.buffers()[1..];
            for i in 0..len {
                if !c.valid(i) {
                    continue;
                }
                let v = &vb[(off + i) * 16..(off + i + 1) * 16];
                let l = u32::from_le_bytes([v[0], v[1], v[2], v[3]]) as usize;
                let bytes: &[u8] = if l <= 12 {
                    if v[4 + l..].iter().any(|x| *x != 0) {
                        return c.err(format!("view {}: inline padding not zero", i));
                    }
                    &v[4..4 + l]
                } else {
                    let bi = u32::from_le_bytes([v[8], v[9], v[10], v[11]]) as usize;
                    let bo = u32::from_le_bytes([v[12], v[13], v[14], v[15]]) as usize;
                    if bi >= data.len() {
                        return c.err(format!("view {}: buffer index {} out of {} buffers", i, bi, data.len()));
                    }
                    if bo + l > data[bi].len() {
                        return c.err(format!("view {}: range {}..{} outside buffer of {} bytes", i, bo, bo + l, data[bi].len()));
                    }
                    let s = &data[bi].as_slice()[bo..bo + l];
                    if s[..4] != v[4..8] {
                        return c.err(format!("view {}: prefix mismatch", i));
                    }
                    s
                };
                if matches!(dt, D::Utf8View) && std::str::from_utf8(bytes).is_err() {
                    return c.err(format!("view {}: not valid UTF-8", i));
                }
            }
        }
        D::List(f) | D::LargeList(f) | D::Map(f, _) => {
            c.nbuf(1)?;
            c.nchild(1)?;
            let w = if matches!(dt, D::LargeList(_)) { 8 } else { 4 };
            let child = &d.child_data()[0];
            if child.data_type() != f.data_type() {
                return c.err(format!("child type {} != field type {}", child.data_type(), f.data_type()));
            }
            let offs = check_offsets(&c, w, child.len())?;
            validate_node(child, format!("{}.{}", path, f.name()))?;
            if !f.is_nullable() && check_nullability() {
                for i in 0..len {
                    if c.valid(i) {
                        for j in offs[i]..offs[i + 1] {
                            if !slot_valid(child, j) {
                                return c.err(if matches!(child.data_type(), DataType::Null) { format!("non-nullable child of type Null has rows (child slot {}, list slot {})", j, i) } else { format!("non-nullable child has a null at child slot {} (list slot {})", j, i) });
                            }
                        }
                    }
                }
            }
            if let D::Map(..) = dt {
                match child.data_type() {
                    D::Struct(fs) if fs.len() == 2 => {
                        if child.nulls().map(|n| n.null_count()).unwrap_or(0) != 0 {
                            return c.err("map entries struct has nulls");
                        }
                        let keys = &child.child_data()[0];
                        for i in 0..len {
                            if c.valid(i) {
                                for j in offs[i]..offs[i + 1] {
                                    if !slot_valid(keys, child.offset() + j) {
                                        return c.err(format!("map key null at entry {}", j));
                                    }
                                }
                            }
                        }
                    }
                    _ => return c.err("map entries must be a struct of two fields"),
                }
            }
        }
        D::ListView(f) | D::LargeListView(f) => {
            c.nbuf(2)?;
            c.nchild(1)?;
            let w = if matches!(dt, D::LargeListView(_)) { 8 } else { 4 };
            let child = &d.child_data()[0];
            if child.data_type() != f.data_type() {
                return c.err("child type != field type");
            }
            let ob = c.typed(0, w, w, 0)?;
            let sb = c.typed(1, w, w, 0)?;
            for i in 0..len {
                let o = rd_i(ob, off + i, w);
                let s = rd_i(sb, off + i, w);
                if o < 0 || s < 0 || o + s > child.len() as i128 {
                    return c.err(format!("list-view slot {}: offset {} size {} outside child of length {}", i, o, s, child.len()));
                }
                if !f.is_nullable() && check_nullability() && c.valid(i) {
                    for j in o as usize..(o + s) as usize {
                        if !slot_valid(child, j) {
                            return c.err(if matches!(child.data_type(), DataType::Null) { format!("non-nullable child of type Null has rows (child slot {})", j) } else { format!("non-nullable child has a null at child slot {}", j) });
                        }
                    }
                }
            }
            validate_node(child, format!("{}.{}", path, f.name()))?;
        }
        D::FixedSizeList(f, n) => {
            c.nbuf(0)?;
            c.nchild(1)?;
            if *n < 0 {
                return c.err("negative list size");
            }
            let child = &d.child_data()[0];
            if child.data_type() != f.data_type() {
                return c.err("child type != field type");
            }
            let need = (off + len).checked_mul(*n as usize).ok_or("overflow")?;
            if child.len() < need {
                return c.err(format!("fixed-size-list child shorter than (offset + len) * size (child {} slots, offset {} len {} size {})", child.len(), off, len, n));
            }
            validate_node(child, format!("{}.{}", path, f.name()))?;
            if !f.is_nullable() && check_nullability() {
                for i in 0..len {
                    if c.valid(i) {
                        for j in (off + i) * *n as usize..(off + i + 1) * *n as usize {
                            if !slot_valid(child, j) {
                                return c.err(if matches!(child.data_type(), DataType::Null) { format!("non-nullable child of type Null has rows (child slot {})", j) } else { format!("non-nullable child has a null at child slot {}", j) });
                            }
                        }
                    }
                }
            }
        }
        D::Struct(fs) => {
            c.nbuf(0)?;
            c.nchild(fs.len())?;
            for (f, child) in fs.iter().zip(d.child_data()) {
                if child.data_type() != f.data_type() {
                    return c.err(format!("child {} type {} != field type {}", f.name(), child.data_type(), f.data_type()));
                }
                if child.len() < off + len {
                    return c.err(format!("struct child shorter than offset + len (child {} has {} slots, offset {} len {})", f.name(), child.len(), off, len));
                }
                validate_node(child, format!("{}.{}", path, f.name()))?;
                if !f.is_nullable() && check_nullability() {
                    for i in 0..len {
                        if c.valid(i) && !slot_valid(child, off + i) {
                            return c.err(format!("non-nullable child {} has a null at slot {}", f.name(), i));
                        }
                    }
                }
            }
        }
        D::Union(uf, mode) => {
            c.nchild(uf.len())?;
            c.nbuf(if *mode == UnionMode::Dense { 2 } else { 1 })?;
            let ids = c.typed(0, 1, 1, 0)?;
            let offs = if *mode == UnionMode::Dense { Some(c.typed(1, 4, 4, 0)?) } else { None };
            let declared: Vec<i8> = uf.iter().map(|(i, _)| i).collect();
            for ((_, f), child) in uf.iter().zip(d.child_data()) {
                if child.data_type() != f.data_type() {
                    return c.err(format!("union child {} has type {} != {}", f.name(), child.data_type(), f.data_type()));
                }
                validate_node(child, format!("{}.{}", path, f.name()))?;
                if *mode == UnionMode::Sparse && child.len() < off + len {
                    return c.err(format!("sparse union child shorter than offset + len (child {} has {} slots, offset {} len {})", f.name(), child.len(), off, len));
                }
            }
            for i in 0..len {
                let id = ids[off + i] as i8;
                let Some(pos) = declared.iter().position(|x| *x == id) else {
                    return c.err(format!("union type id not declared (slot {}: id {}, declared {:?})", i, id, declared));
                };
                if let Some(ob) = offs {
                    let o = rd_i(ob, off + i, 4);
                    if o < 0 || o >= d.child_data()[pos].len() as i128 {
                        return c.err(format!("union dense offset outside its child (slot {}: offset {}, child {} of length {})", i, o, pos, d.child_data()[pos].len()));
                    }
                }
            }
        }
        D::Dictionary(k, v) => {
            c.nbuf(1)?;
            c.nchild(1)?;
            let Some((w, align)) = prim_layout(k) else { return c.err("bad key type") };
            let kb = c.typed(0, w, align, 0)?;
            let dict = &d.child_data()[0];
            if dict.data_type() != v.as_ref() {
                return c.err(format!("dictionary values type mismatch (values child is {})", dict.data_type()));
            }
            let signed = matches!(k.as_ref(), D::Int8 | D::Int16 | D::Int32 | D::Int64);
            for i in 0..len {
                if c.valid(i) {
                    let key = if signed { rd_i(kb, off + i, w) } else { rd_u(kb, off + i, w) };
                    if key < 0 || key >= dict.len() as i128 {
                        return c.err(format!("slot {}: key {} outside dictionary of {} values", i, key, dict.len()));
                    }
                }
            }
            validate_node(dict, format!("{}.dict", path))?;
        }
        D::RunEndEncoded(r, v) => {
            c.nbuf(0)?;
            c.nchild(2)?;
            let re = &d.child_data()[0];
            let vals = &d.child_data()[1];
            if re.data_type() != r.data_type() || vals.data_type() != v.data_type() {
                return c.err("run-end children type mismatch");
            }
            let Some((w, align)) = prim_layout(r.data_type()) else { return c.err("bad run-end type") };
            if !matches!(r.data_type(), D::Int16 | D::Int32 | D::Int64) {
                return c.err("run ends must be Int16/32/64");
            }
            if re.nulls().map(|n| n.null_count()).unwrap_or(0) > 0 {
                return c.err("run ends contain nulls");
            }
            if re.len() != vals.len() {
                return c.err(format!("run ends length {} != values length {}", re.len(), vals.len()));
            }
            let rc = Ctx { d: re, path: format!("{}.run_ends", path) };
            let rb = rc.typed(0, w, align, 0)?;
            let mut prev = 0i128;
            for i in 0..re.len() {
                let e = rd_i(rb, re.offset() + i, w);
                if e <= prev {
                    return c.err(format!("run end {} at {} not strictly increasing/positive (previous {})", e, i, prev));
                }
                prev = e;
            }
            if len > 0 && prev < (off + len) as i128 {
                return c.err(format!("last run end below offset + len (last {}, offset {} len {})", prev, off, len));
            }
            validate_node(vals, format!("{}.values", path))?;
        }
        _ => return c.err("type not handled by the validator"),
    }
    Ok(())
}

/// offsets[offset..=offset+len] as usize, validated: non-negative, monotone, within `limit`
fn check_offsets(c: &Ctx, w: usize, limit: usize) -> Result<Vec<usize>, String> {
    let d = c.d;
    let b = &d.buffers()[0];
    if d.len() == 0 && b.is_empty() {
        return Ok(vec![0]);
    }
    let ob = c.typed(0, w, w, 1)?;
    let mut out = Vec::with_capacity(d.len() + 1);
    let mut prev: i128 = -1;
    for i in 0..=d.len() {
        let o = rd_i(ob, d.offset() + i, w);
        if o < 0 {
            return c.err(format!("offset {} at {} is negative", o, i));
        }
        if o < prev {
            return c.err(format!("offsets not monotone at {}: {} after {}", i, o, prev));
        }
        if o as usize > limit {
            return c.err(format!("offset {} at {} beyond values/child length {}", o, i, limit));
        }
        prev = o;
        out.push(o as usize);
    }
    Ok(out)
}

/// validity of physical slot `j` (0-based within child.len, before the child's own offset is applied? no:
/// `j` is relative to the child array as the parent sees it, i.e. 0..child.len())
fn slot_valid(child: &ArrayData, j: usize) -> bool {
    match child.data_type() {
        DataType::Null => false,
        _ => match child.nulls() {
            None => true,
            Some(n) => {
                if j >= n.len() {
                    return true;
                }
                let bytes = n.inner().values();
                let p = n.inner().offset() + j;
                bytes[p / 8] >> (p % 8) & 1 == 1
            }
        },
    }
}

use crate::runner::{CaseResult, Fail};

fn reason_class(m: &str) -> String {
    let m = m.split("]: ").last().unwrap_or(m);
    m.chars().filter(|c| !c.is_ascii_digit()).take(36).collect()
}

/// Two judges: the independent validator and `ArrayData::validate_full`.
/// Tolerated over-strictness of `validate_full` (not a property violation): it sizes the validity bitmap with the
/// *values* offset (`null_bit_buffer size too small`), although `NullBuffer` carries its own offset.
pub fn check_valid(arr: &dyn arrow_array::Array, what: &str) -> CaseResult {
    let data = crate::runner::no_panic(&format!("{}:to_data", what), || arr.to_data())?;
    if let Err(e) = spec_validate(&data) {
        return Err(Fail::new(format!("{}:spec-invalid:{}", what, reason_class(&e)), format!("{} returned an array the independent validator rejects: {}", what, e)));
    }
    match crate::runner::no_panic(&format!("{}:validate_full", what), || data.validate_full())? {
        Ok(()) => Ok(()),
        Err(e) => {
            let m = e.to_string();
            if m.contains("null_bit_buffer size too small") {
                return Ok(());
            }
            Err(Fail::new(format!("{}:validate_full:{}", what, reason_class(&m)), format!("{} returned an array validate_full rejects: {}", what, m)))
        }
    }
}
