//! Physical realiser: one logical column -> many valid Arrow arrays (checked constructors only).
use crate::r#gen::{gen_nonnull, gen_value, ValCfg};
use crate::model::*;
use crate::tape::Tape;
use arrow_array::builder::make_view;
use arrow_array::types::*;
use arrow_array::*;
use arrow_buffer::{i256, BooleanBuffer, Buffer, IntervalDayTime, IntervalMonthDayNano, NullBuffer, OffsetBuffer, ScalarBuffer};
use arrow_schema::{DataType, Field, Fields, UnionFields};
use std::sync::Arc;

#[derive(Clone, Debug)]
pub struct Lay {
    /// enable physical variation (slices, garbage under nulls, permuted dictionaries, split runs, ...)
    pub fancy: bool,
    /// dictionaries may represent a null row as a valid key pointing at a null dictionary value
    pub dict_value_nulls: bool,
    /// bias of padding: probability (x/256) that a node is built padded and sliced
    pub slice_chance: u32,
}
impl Lay {
    pub fn plain() -> Self {
        Lay { fancy: false, dict_value_nulls: false, slice_chance: 0 }
    }
    pub fn fancy() -> Self {
        Lay { fancy: true, dict_value_nulls: false, slice_chance: 128 }
    }
}

fn vcfg() -> ValCfg {
    ValCfg { max_str: 14, max_list: 3, ..ValCfg::default() }
}

/// validity buffer for `vals` (bit offset and surrounding bits random in fancy mode)
pub fn make_nulls(t: &mut Tape, vals: &[LValue], lay: &Lay) -> Option<NullBuffer> {
    let has_null = vals.iter().any(|v| v.is_null());
    if !has_null && !(lay.fancy && t.chance(64)) {
        return None;
    }
    Some(NullBuffer::new(make_bool_buffer(t, &vals.iter().map(|v| !v.is_null()).collect::<Vec<_>>(), lay)))
}

pub fn make_bool_buffer(t: &mut Tape, bits: &[bool], lay: &Lay) -> BooleanBuffer {
    if !lay.fancy || !t.bool() {
        return BooleanBuffer::from(bits.to_vec());
    }
    let off = t.bias_offset();
    let n = (off + bits.len()).div_ceil(8) + t.below(2);
    let mut d: Vec<u8> = (0..n).map(|_| t.u8() ^ 0xA5).collect();
    for (i, b) in bits.iter().enumerate() {
        let p = off + i;
        if *b {
            d[p / 8] |= 1 << (p % 8)
        } else {
            d[p / 8] &= !(1 << (p % 8))
        }
    }
    BooleanBuffer::new(Buffer::from_vec(d), off, bits.len())
}

trait FromI128: Copy {
    fn from_i128(v: i128) -> Self;
}
macro_rules! from_i128 {
    ($($t:ty),*) => { $(impl FromI128 for $t { fn from_i128(v: i128) -> Self { v as $t } })* };
}
from_i128!(i8, i16, i32, i64, i128, u8, u16, u32, u64);

fn int_of(v: &LValue) -> i128 {
    match v {
        LValue::Int(i) => *i,
        LValue::Bool(b) => *b as i128,
        _ => 0,
    }
}

fn prim_int<T: ArrowPrimitiveType>(t: &mut Tape, vals: &[LValue], nulls: Option<NullBuffer>, dt: &DataType, lay: &Lay) -> ArrayRef
where
    T::Native: FromI128,
{
    let v: Vec<T::Native> = vals
        .iter()
        .map(|x| {
            if x.is_null() {
                if lay.fancy {
                    // garbage under nulls, biased to error-inducing payloads (0, -1, MIN, MAX)
                    let g: i128 = match t.below(6) {
                        0 => 0,
                        1 => -1,
                        2 => i128::MIN,
                        3 => i128::MAX,
                        _ => t.u64() as i128,
                    };
                    T::Native::from_i128(g)
                } else {
                    T::Native::from_i128(0)
                }
            } else {
                T::Native::from_i128(int_of(x))
            }
        })
        .collect();
    Arc::new(PrimitiveArray::<T>::try_new(ScalarBuffer::from(v), nulls).unwrap().with_data_type(dt.clone()))
}

/// Build the array padded and sliced (fancy) or directly.
pub fn realise(t: &mut Tape, ty: &LType, vals: &[LValue], nullable: bool, lay: &Lay) -> ArrayRef {
    if !lay.fancy || !t.chance(lay.slice_chance) {
        return build(t, ty, vals, nullable, lay);
    }
    let pre = *t.pick(&[1usize, 2, 3, 7, 8, 9, 1, 5, 64, 65]);
    let pre = if vals.len() < 8 && pre > 9 { 1 } else { pre };
    let post = t.below(3);
    let cfg = vcfg();
    let mut full: Vec<LValue> = Vec::with_capacity(pre + vals.len() + post);
    // 8-bit dictionary keys: padding rows must not add distinct values beyond the key capacity
    let small_keys = ty.any(&|x| matches!(x, LType::Dict { kbits: 8, .. }));
    let mut pad = |t: &mut Tape| -> LValue {
        if small_keys && !vals.is_empty() { vals[t.below(vals.len())].clone() } else { gen_value(t, ty, nullable, &cfg) }
    };
    for _ in 0..pre {
        full.push(pad(t));
    }
    full.extend_from_slice(vals);
    for _ in 0..post {
        full.push(pad(t));
    }
    let arr = build(t, ty, &full, nullable, lay);
    arr.slice(pre, vals.len())
}

fn garbage_ascii(t: &mut Tape, max: usize) -> Vec<u8> {
    let n = t.below(max + 1);
    (0..n).map(|_| b'p' + t.below(4) as u8).collect()
}

fn offsets_of<O: OffsetSizeTrait>(v: Vec<usize>) -> OffsetBuffer<O> {
    OffsetBuffer::new(ScalarBuffer::from(v.into_iter().map(|x| O::usize_as(x)).collect::<Vec<O>>()))
}

fn bytes_of(v: &LValue) -> &[u8] {
    match v {
        LValue::Str(s) => s.as_bytes(),
        LValue::Bytes(b) => b,
        _ => &[],
    }
}

fn build_bytes<T: ByteArrayType>(t: &mut Tape, vals: &[LValue], nulls: Option<NullBuffer>, lay: &Lay) -> ArrayRef {
    let mut data: Vec<u8> = vec![];
    if lay.fancy && t.chance(80) {
        data.extend(garbage_ascii(t, 5));
    }
    let mut offs = vec![data.len()];
    for v in vals {
        if v.is_null() {
            if lay.fancy && t.chance(96) {
                data.extend(garbage_ascii(t, 4));
            }
        } else {
            data.extend_from_slice(bytes_of(v));
        }
        offs.push(data.len());
    }
    if lay.fancy && t.chance(64) {
        data.extend(garbage_ascii(t, 5));
    }
    Arc::new(GenericByteArray::<T>::try_new(offsets_of::<T::Offset>(offs), Buffer::from_vec(data), nulls).unwrap())
}

fn build_view<T: ByteViewType>(t: &mut Tape, vals: &[LValue], nulls: Option<NullBuffer>, lay: &Lay) -> ArrayRef {
    let nbuf = if lay.fancy { 1 + t.below(3) } else { 1 };
    let mut bufs: Vec<Vec<u8>> = vec![vec![]; nbuf];
    if lay.fancy && t.chance(64) {
        bufs[0].extend(garbage_ascii(t, 20));
    }
    let mut placed: Vec<(Vec<u8>, u32, u32)> = vec![];
    let mut views: Vec<u128> = vec![];
    for v in vals {
        if v.is_null() {
            let g = if lay.fancy && !views.is_empty() && t.chance(96) {
                views[t.below(views.len())]
            } else if lay.fancy && t.chance(64) {
                make_view(&garbage_ascii(t, 6), 0, 0)
            } else {
                0u128
            };
            views.push(g);
            continue;
        }
        let b = bytes_of(v);
        if b.len() <= 12 {
            views.push(make_view(b, 0, 0));
        } else {
            if lay.fancy && t.chance(96) {
                if let Some(p) = placed.iter().find(|p| p.0 == b) {
                    views.push(make_view(b, p.1, p.2));
                    continue;
                }
            }
            let bi = t.below(nbuf);
            if lay.fancy && t.chance(48) {
                bufs[bi].extend(garbage_ascii(t, 3));
            }
            let off = bufs[bi].len() as u32;
            bufs[bi].extend_from_slice(b);
            placed.push((b.to_vec(), bi as u32, off));
            views.push(make_view(b, bi as u32, off));
        }
    }
    let mut buffers: Vec<Buffer> = bufs.into_iter().map(Buffer::from_vec).collect();
    if !lay.fancy {
        // a plain array has only the buffers it needs
        if buffers[0].is_empty() {
            buffers.clear();
        }
    }
    Arc::new(GenericByteViewArray::<T>::try_new(ScalarBuffer::from(views), buffers, nulls).unwrap())
}

/// elements of the child column of a list-like parent plus per-row (offset,size)
fn list_children(t: &mut Tape, f: &LField, vals: &[LValue], lay: &Lay, view: bool) -> (Vec<LValue>, Vec<usize>, Vec<usize>) {
    let cfg = vcfg();
    let mut child: Vec<LValue> = vec![];
    let mut offs = vec![0usize; vals.len()];
    let mut sizes = vec![0usize; vals.len()];
    let garbage = |t: &mut Tape, child: &mut Vec<LValue>, max: usize| {
        let n = t.below(max + 1);
        for _ in 0..n {
            child.push(gen_value(t, &f.ty, f.nullable, &cfg));
        }
    };
    if lay.fancy && t.chance(80) {
        garbage(t, &mut child, 3);
    }
    let order: Vec<usize> = if view && lay.fancy && t.bool() { t.perm(vals.len()) } else { (0..vals.len()).collect() };
    let mut seen: Vec<(usize, usize, usize)> = vec![]; // (row, off, size)
    for &i in &order {
        match &vals[i] {
            LValue::List(items) => {
                if view && lay.fancy && t.chance(64) {
                    if let Some(s) = seen.iter().find(|s| vals[s.0] == vals[i]) {
                        offs[i] = s.1;
                        sizes[i] = s.2;
                        continue;
                    }
                }
                if view && lay.fancy && t.chance(48) {
                    garbage(t, &mut child, 2);
                }
                offs[i] = child.len();
                sizes[i] = items.len();
                child.extend(items.iter().cloned());
                seen.push((i, offs[i], sizes[i]));
            }
            _ => {
                offs[i] = child.len();
                if lay.fancy && t.chance(96) {
                    let before = child.len();
                    garbage(t, &mut child, 3);
                    sizes[i] = child.len() - before;
                } else if view && lay.fancy && t.chance(64) && !child.is_empty() {
                    // null list-view slot pointing at an unrelated valid range
                    offs[i] = t.below(child.len());
                    sizes[i] = t.below(child.len() - offs[i] + 1);
                }
            }
        }
    }
    if lay.fancy && t.chance(64) {
        garbage(t, &mut child, 3);
    }
    (child, offs, sizes)
}

fn build_list<O: OffsetSizeTrait>(t: &mut Tape, f: &LField, vals: &[LValue], nulls: Option<NullBuffer>, lay: &Lay) -> ArrayRef {
    let (child, offs, sizes) = list_children(t, f, vals, lay, false);
    let mut o: Vec<usize> = Vec::with_capacity(vals.len() + 1);
    for i in 0..vals.len() {
        o.push(offs[i]);
    }
    let last = if vals.is_empty() { 0 } else { offs[vals.len() - 1] + sizes[vals.len() - 1] };
    o.push(last);
    let values = realise(t, &f.ty, &child, f.nullable, lay);
    Arc::new(GenericListArray::<O>::try_new(Arc::new(f.arrow()), offsets_of::<O>(o), values, nulls).unwrap())
}

fn build_list_view<O: OffsetSizeTrait>(t: &mut Tape, f: &LField, vals: &[LValue], nulls: Option<NullBuffer>, lay: &Lay) -> ArrayRef {
    let (child, offs, sizes) = list_children(t, f, vals, lay, true);
    let values = realise(t, &f.ty, &child, f.nullable, lay);
    let o: Vec<O> = offs.iter().map(|x| O::usize_as(*x)).collect();
    let s: Vec<O> = sizes.iter().map(|x| O::usize_as(*x)).collect();
    Arc::new(GenericListViewArray::<O>::try_new(Arc::new(f.arrow()), ScalarBuffer::from(o), ScalarBuffer::from(s), values, nulls).unwrap())
}

fn child_col(t: &mut Tape, f: &LField, vals: &[LValue], j: usize, lay: &Lay) -> Vec<LValue> {
    let cfg = vcfg();
    // 8-bit dictionary keys below: garbage under null structs must not add distinct values beyond the key capacity
    let small_keys = f.ty.any(&|x| matches!(x, LType::Dict { kbits: 8, .. }));
    let existing: Vec<&LValue> = if small_keys { vals.iter().filter_map(|r| if let LValue::Struct(vs) = r { Some(&vs[j]) } else { None }).collect() } else { vec![] };
    vals.iter()
        .map(|r| match r {
            LValue::Struct(vs) => vs[j].clone(),
            _ => {
                if lay.fancy && small_keys {
                    if existing.is_empty() {
                        if f.nullable { LValue::Null } else { default_value(&f.ty) }
                    } else {
                        existing[t.below(existing.len())].clone()
                    }
                } else if lay.fancy {
                    gen_value(t, &f.ty, f.nullable, &cfg)
                } else if f.nullable {
                    LValue::Null
                } else {
                    default_value(&f.ty)
                }
            }
        })
        .collect()
}

/// simplest non-null value of a type (for non-nullable children under null parents in plain layouts)
pub fn default_value(ty: &LType) -> LValue {
    let mut t = Tape::new(vec![]);
    // with an exhausted tape every choice is the simplest one; gen_nonnull never returns Null except for Null type
    match ty {
        LType::Utf8(_) => LValue::Str(String::new()),
        LType::Binary(_) => LValue::Bytes(vec![]),
        _ => gen_nonnull(&mut t, ty, &ValCfg::default()),
    }
}

macro_rules! with_int_type {
    ($bits:expr, $signed:expr, $m:ident) => {
        match ($bits, $signed) {
            (8, true) => $m!(Int8Type),
            (16, true) => $m!(Int16Type),
            (32, true) => $m!(Int32Type),
            (64, true) => $m!(Int64Type),
            (8, false) => $m!(UInt8Type),
            (16, false) => $m!(UInt16Type),
            (32, false) => $m!(UInt32Type),
            _ => $m!(UInt64Type),
        }
    };
}

pub fn key_capacity(bits: u8, signed: bool) -> usize {
    let b = if signed { bits - 1 } else { bits } as u32;
    if b >= 31 { usize::MAX / 4 } else { 1usize << b }
}

fn build(t: &mut Tape, ty: &LType, vals: &[LValue], nullable: bool, lay: &Lay) -> ArrayRef {
    use LType::*;
    let dt = ty.arrow();
    let n = vals.len();
    debug_assert!(nullable || matches!(ty, Null) || vals.iter().all(|v| !v.is_null()));
    match ty {
        Null => Arc::new(NullArray::new(n)),
        Union { dense, fields } => build_union(t, *dense, fields, vals, lay),
        Ree { rbits, value } => build_ree(t, *rbits, value, vals, nullable, lay),
        Dict { kbits, ksigned, value } => build_dict(t, *kbits, *ksigned, value, vals, nullable, lay),
        _ => {
            let nulls = make_nulls(t, vals, lay);
            match ty {
                Bool => {
                    let bits: Vec<bool> = vals.iter().map(|v| if let LValue::Bool(b) = v { *b } else { lay.fancy && t.bool() }).collect();
                    Arc::new(BooleanArray::new(make_bool_buffer(t, &bits, lay), nulls))
                }
                Int { bits, signed } => {
                    macro_rules! m {
                        ($T:ty) => {
                            prim_int::<$T>(t, vals, nulls, &dt, lay)
                        };
                    }
                    with_int_type!(*bits, *signed, m)
                }
                F16 => {
                    let v: Vec<half::f16> = vals.iter().map(|x| half::f16::from_bits(if let LValue::F16(b) = x { *b } else if lay.fancy { t.u16() } else { 0 })).collect();
                    Arc::new(Float16Array::try_new(ScalarBuffer::from(v), nulls).unwrap())
                }
                F32 => {
                    let v: Vec<f32> = vals.iter().map(|x| f32::from_bits(if let LValue::F32(b) = x { *b } else if lay.fancy { t.u32() } else { 0 })).collect();
                    Arc::new(Float32Array::try_new(ScalarBuffer::from(v), nulls).unwrap())
                }
                F64 => {
                    let v: Vec<f64> = vals.iter().map(|x| f64::from_bits(if let LValue::F64(b) = x { *b } else if lay.fancy { t.u64() } else { 0 })).collect();
                    Arc::new(Float64Array::try_new(ScalarBuffer::from(v), nulls).unwrap())
                }
                Decimal { width: 32, .. } => prim_int::<Decimal32Type>(t, vals, nulls, &dt, lay),
                Decimal { width: 64, .. } => prim_int::<Decimal64Type>(t, vals, nulls, &dt, lay),
                Decimal { width: 128, .. } => prim_int::<Decimal128Type>(t, vals, nulls, &dt, lay),
                Decimal { .. } => {
                    let v: Vec<i256> = vals
                        .iter()
                        .map(|x| match x {
                            LValue::Big(b) => i256::from_le_bytes(*b),
                            LValue::Int(i) => i256::from_i128(*i),
                            _ => {
                                if lay.fancy {
                                    i256::from_parts(t.u128(), t.u64() as i128)
                                } else {
                                    i256::ZERO
                                }
                            }
                        })
                        .collect();
                    Arc::new(Decimal256Array::try_new(ScalarBuffer::from(v), nulls).unwrap().with_data_type(dt.clone()))
                }
                Date32 => prim_int::<Date32Type>(t, vals, nulls, &dt, lay),
                Date64 => prim_int::<Date64Type>(t, vals, nulls, &dt, lay),
                Time32(Unit::S) => prim_int::<Time32SecondType>(t, vals, nulls, &dt, lay),
                Time32(_) => prim_int::<Time32MillisecondType>(t, vals, nulls, &dt, lay),
                Time64(Unit::Us) => prim_int::<Time64MicrosecondType>(t, vals, nulls, &dt, lay),
                Time64(_) => prim_int::<Time64NanosecondType>(t, vals, nulls, &dt, lay),
                Timestamp(Unit::S, _) => prim_int::<TimestampSecondType>(t, vals, nulls, &dt, lay),
                Timestamp(Unit::Ms, _) => prim_int::<TimestampMillisecondType>(t, vals, nulls, &dt, lay),
                Timestamp(Unit::Us, _) => prim_int::<TimestampMicrosecondType>(t, vals, nulls, &dt, lay),
                Timestamp(Unit::Ns, _) => prim_int::<TimestampNanosecondType>(t, vals, nulls, &dt, lay),
                Duration(Unit::S) => prim_int::<DurationSecondType>(t, vals, nulls, &dt, lay),
                Duration(Unit::Ms) => prim_int::<DurationMillisecondType>(t, vals, nulls, &dt, lay),
                Duration(Unit::Us) => prim_int::<DurationMicrosecondType>(t, vals, nulls, &dt, lay),
                Duration(Unit::Ns) => prim_int::<DurationNanosecondType>(t, vals, nulls, &dt, lay),
                IntervalYM => prim_int::<IntervalYearMonthType>(t, vals, nulls, &dt, lay),
                IntervalDT => {
                    let v: Vec<IntervalDayTime> = vals
                        .iter()
                        .map(|x| if let LValue::DayTime(d, m) = x { IntervalDayTime::new(*d, *m) } else if lay.fancy { IntervalDayTime::new(t.u32() as i32, t.u32() as i32) } else { IntervalDayTime::new(0, 0) })
                        .collect();
                    Arc::new(IntervalDayTimeArray::try_new(ScalarBuffer::from(v), nulls).unwrap())
                }
                IntervalMDN => {
                    let v: Vec<IntervalMonthDayNano> = vals
                        .iter()
                        .map(|x| {
                            if let LValue::MonthDayNano(m, d, ns) = x {
                                IntervalMonthDayNano::new(*m, *d, *ns)
                            } else if lay.fancy {
                                IntervalMonthDayNano::new(t.u32() as i32, t.u32() as i32, t.u64() as i64)
                            } else {
                                IntervalMonthDayNano::new(0, 0, 0)
                            }
                        })
                        .collect();
                    Arc::new(IntervalMonthDayNanoArray::try_new(ScalarBuffer::from(v), nulls).unwrap())
                }
                Utf8(Enc::O32) => build_bytes::<Utf8Type>(t, vals, nulls, lay),
                Utf8(Enc::O64) => build_bytes::<LargeUtf8Type>(t, vals, nulls, lay),
                Utf8(Enc::View) => build_view::<StringViewType>(t, vals, nulls, lay),
                Binary(Enc::O32) => build_bytes::<BinaryType>(t, vals, nulls, lay),
                Binary(Enc::O64) => build_bytes::<LargeBinaryType>(t, vals, nulls, lay),
                Binary(Enc::View) => build_view::<BinaryViewType>(t, vals, nulls, lay),
                FixedBinary(w) => {
                    let mut data: Vec<u8> = Vec::with_capacity(n * *w as usize);
                    for v in vals {
                        if v.is_null() {
                            for _ in 0..*w {
                                data.push(if lay.fancy { t.u8() } else { 0 });
                            }
                        } else {
                            data.extend_from_slice(bytes_of(v));
                        }
                    }
                    Arc::new(FixedSizeBinaryArray::try_new_with_len(*w, Buffer::from_vec(data), nulls, n).unwrap())
                }
                List(f, ListEnc::O32) => build_list::<i32>(t, f, vals, nulls, lay),
                List(f, ListEnc::O64) => build_list::<i64>(t, f, vals, nulls, lay),
                List(f, ListEnc::V32) => build_list_view::<i32>(t, f, vals, nulls, lay),
                List(f, ListEnc::V64) => build_list_view::<i64>(t, f, vals, nulls, lay),
                FixedList(f, w) => {
                    let cfg = vcfg();
                    let mut child: Vec<LValue> = Vec::with_capacity(n * *w as usize);
                    for v in vals {
                        match v {
                            LValue::List(items) => child.extend(items.iter().cloned()),
                            _ => {
                                for _ in 0..*w {
                                    child.push(if lay.fancy {
                                        gen_value(t, &f.ty, f.nullable, &cfg)
                                    } else if f.nullable {
                                        LValue::Null
                                    } else {
                                        default_value(&f.ty)
                                    });
                                }
                            }
                        }
                    }
                    let values = realise(t, &f.ty, &child, f.nullable, lay);
                    Arc::new(FixedSizeListArray::try_new_with_length(Arc::new(f.arrow()), *w, values, nulls, n).unwrap())
                }
                Struct(fs) => {
                    let arrays: Vec<ArrayRef> = fs
                        .iter()
                        .enumerate()
                        .map(|(j, f)| {
                            let col = child_col(t, f, vals, j, lay);
                            realise(t, &f.ty, &col, f.nullable, lay)
                        })
                        .collect();
                    let fields = Fields::from(fs.iter().map(|f| f.arrow()).collect::<Vec<_>>());
                    Arc::new(StructArray::try_new_with_length(fields, arrays, nulls, n).unwrap())
                }
                Map { key, val, sorted } => {
                    // entries as a list of (key,value) structs
                    let ef = LField { name: "entries".into(), ty: LType::Struct(vec![(**key).clone(), (**val).clone()]), nullable: false };
                    let as_list: Vec<LValue> = vals
                        .iter()
                        .map(|v| match v {
                            LValue::Map(es) => LValue::List(es.iter().map(|(k, v)| LValue::Struct(vec![k.clone(), v.clone()])).collect()),
                            _ => LValue::Null,
                        })
                        .collect();
                    let (child, offs, sizes) = list_children(t, &ef, &as_list, lay, false);
                    let mut o: Vec<usize> = (0..n).map(|i| offs[i]).collect();
                    o.push(if n == 0 { 0 } else { offs[n - 1] + sizes[n - 1] });
                    let entries = realise(t, &ef.ty, &child, false, lay);
                    let entries = entries.as_any().downcast_ref::<StructArray>().unwrap().clone();
                    let DataType::Map(efield, _) = &dt else { unreachable!() };
                    Arc::new(MapArray::try_new(efield.clone(), offsets_of::<i32>(o), entries, nulls, *sorted).unwrap())
                }
                _ => unreachable!(),
            }
        }
    }
}

fn build_union(t: &mut Tape, dense: bool, fields: &[(i8, LField)], vals: &[LValue], lay: &Lay) -> ArrayRef {
    let cfg = vcfg();
    let n = vals.len();
    let uf = UnionFields::try_new(fields.iter().map(|x| x.0), fields.iter().map(|x| x.1.arrow())).unwrap();
    let type_ids: Vec<i8> = vals.iter().map(|v| if let LValue::Union(id, _) = v { *id } else { fields[0].0 }).collect();
    let inner = |v: &LValue| -> LValue {
        match v {
            LValue::Union(_, b) => (**b).clone(),
            _ => LValue::Null,
        }
    };
    if !dense {
        let children: Vec<ArrayRef> = fields
            .iter()
            .map(|(id, f)| {
                let col: Vec<LValue> = vals
                    .iter()
                    .map(|v| match v {
                        LValue::Union(i, b) if i == id => (**b).clone(),
                        _ => {
                            if lay.fancy {
                                gen_value(t, &f.ty, f.nullable, &cfg)
                            } else if f.nullable {
                                LValue::Null
                            } else {
                                default_value(&f.ty)
                            }
                        }
                    })
                    .collect();
                realise(t, &f.ty, &col, f.nullable, lay)
            })
            .collect();
        return Arc::new(UnionArray::try_new(uf, ScalarBuffer::from(type_ids), None, children).unwrap());
    }
    let mut offsets = vec![0i32; n];
    let mut children: Vec<ArrayRef> = vec![];
    for (id, f) in fields {
        let rows: Vec<usize> = (0..n).filter(|i| type_ids[*i] == *id).collect();
        // slots of the child: referenced values in (possibly permuted) order plus unreferenced rows
        let extra = if lay.fancy { t.below(3) } else { 0 };
        let total = rows.len() + extra;
        let pos: Vec<usize> = if lay.fancy && t.bool() { t.perm(total) } else { (0..total).collect() };
        let mut col: Vec<LValue> = (0..total).map(|_| LValue::Null).collect();
        let mut filled = vec![false; total];
        for (k, r) in rows.iter().enumerate() {
            col[pos[k]] = inner(&vals[*r]);
            filled[pos[k]] = true;
            offsets[*r] = pos[k] as i32;
        }
        for k in 0..total {
            if !filled[k] {
                col[k] = gen_value(t, &f.ty, f.nullable, &cfg);
            }
        }
        children.push(realise(t, &f.ty, &col, f.nullable, lay));
    }
    Arc::new(UnionArray::try_new(uf, ScalarBuffer::from(type_ids), Some(ScalarBuffer::from(offsets)), children).unwrap())
}

fn build_ree(t: &mut Tape, rbits: u8, value: &LField, vals: &[LValue], nullable: bool, lay: &Lay) -> ArrayRef {
    let n = vals.len();
    let mut ends: Vec<usize> = vec![];
    let mut rv: Vec<LValue> = vec![];
    for i in 0..n {
        let new_run = i == 0 || vals[i] != vals[i - 1] || (lay.fancy && t.chance(48));
        if new_run {
            if i > 0 {
                ends.push(i);
            }
            rv.push(vals[i].clone());
        }
    }
    if n > 0 {
        ends.push(n);
    }
    // `Array::is_nullable` of run-end/dictionary arrays is conservative (any null in the values child counts), so a
    // non-nullable column must not have nulls (even unreferenced ones) in its values child
    let values = realise(t, &value.ty, &rv, nullable, lay);
    macro_rules! m {
        ($T:ty) => {{
            let re = PrimitiveArray::<$T>::from_iter_values(ends.iter().map(|e| <$T as ArrowPrimitiveType>::Native::from_i128(*e as i128)));
            Arc::new(RunArray::<$T>::try_new(&re, values.as_ref()).unwrap()) as ArrayRef
        }};
    }
    match rbits {
        16 => m!(Int16Type),
        32 => m!(Int32Type),
        _ => m!(Int64Type),
    }
}

fn build_dict(t: &mut Tape, kbits: u8, ksigned: bool, value: &LType, vals: &[LValue], nullable: bool, lay: &Lay) -> ArrayRef {
    let cfg = vcfg();
    let cap = key_capacity(kbits, ksigned);
    let mut dict: Vec<LValue> = vec![];
    for v in vals {
        if !v.is_null() && !dict.contains(v) {
            dict.push(v.clone());
        }
    }
    assert!(dict.len() <= cap, "generator produced more distinct values ({}) than the dictionary key type can address ({} bit keys, values {:?}, {} rows)", dict.len(), kbits, value, vals.len());
    let has_null = vals.iter().any(|v| v.is_null());
    let mut null_entry = false;
    if lay.fancy {
        let extra = t.below(3).min(cap - dict.len());
        for _ in 0..extra {
            let g = if !dict.is_empty() && t.bool() { dict[t.below(dict.len())].clone() } else { gen_nonnull(t, value, &cfg) };
            dict.push(g);
        }
        if lay.dict_value_nulls && has_null && dict.len() < cap && t.bool() {
            dict.push(LValue::Null);
            null_entry = true;
        }
        let p = t.perm(dict.len());
        let mut d2 = dict.clone();
        for (i, j) in p.iter().enumerate() {
            d2[*j] = dict[i].clone();
        }
        dict = d2;
    }
    let null_pos = dict.iter().position(|v| v.is_null());
    let mut keys: Vec<Option<usize>> = vec![];
    let mut garbage: Vec<usize> = vec![];
    for v in vals {
        if v.is_null() {
            if null_entry && t.bool() {
                keys.push(null_pos);
                garbage.push(0);
            } else {
                keys.push(None);
                garbage.push(if lay.fancy { t.below(300) } else { 0 });
            }
        } else {
            let cands: Vec<usize> = dict.iter().enumerate().filter(|(_, d)| *d == v).map(|(i, _)| i).collect();
            keys.push(Some(*t.pick(&cands)));
            garbage.push(0);
        }
    }
    let values = realise(t, value, &dict, nullable, lay);
    macro_rules! m {
        ($T:ty) => {{
            type N = <$T as ArrowPrimitiveType>::Native;
            let kv: Vec<N> = keys.iter().zip(&garbage).map(|(k, g)| N::from_i128(k.map(|x| x as i128).unwrap_or(*g as i128 % (cap.min(1 << 20) as i128)))).collect();
            let any_null = keys.iter().any(|k| k.is_none());
            let nulls = if any_null || (nullable && lay.fancy && t.chance(48)) {
                Some(NullBuffer::new(make_bool_buffer(t, &keys.iter().map(|k| k.is_some()).collect::<Vec<_>>(), lay)))
            } else {
                None
            };
            let ka = PrimitiveArray::<$T>::try_new(ScalarBuffer::from(kv), nulls).unwrap();
            Arc::new(DictionaryArray::<$T>::try_new(ka, values).unwrap()) as ArrayRef
        }};
    }
    with_int_type!(kbits, ksigned, m)
}

/// realise a record batch column set
pub fn realise_field(t: &mut Tape, f: &LField, vals: &[LValue], lay: &Lay) -> (Field, ArrayRef) {
    (f.arrow(), realise(t, &f.ty, vals, f.nullable, lay))
}
