pub mod runner;
pub mod tape;
