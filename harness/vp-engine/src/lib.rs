pub mod batch;
pub mod extract;
pub mod r#gen;
pub mod model;
pub mod realise;
pub mod runner;
pub mod tape;
pub mod validate;
