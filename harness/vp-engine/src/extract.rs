//! Accessor-level extraction of an Arrow array into logical values (what a user can read).
use crate::model::*;
use arrow_array::cast::AsArray;
use arrow_array::types::*;
use arrow_array::*;
use arrow_buffer::i256;
use arrow_schema::{DataType, IntervalUnit, TimeUnit, UnionMode};

pub fn extract(a: &dyn Array) -> Vec<LValue> {
    (0..a.len()).map(|i| extract_at(a, i)).collect()
}

macro_rules! prim {
    ($a:expr, $i:expr, $t:ty) => {{
        let arr = $a.as_primitive::<$t>();
        if arr.is_null($i) { LValue::Null } else { LValue::Int(arr.value($i) as i128) }
    }};
}

pub fn extract_at(a: &dyn Array, i: usize) -> LValue {
    use DataType as D;
    match a.data_type() {
        D::Null => LValue::Null,
        D::Boolean => {
            let arr = a.as_boolean();
            if arr.is_null(i) { LValue::Null } else { LValue::Bool(arr.value(i)) }
        }
        D::Int8 => prim!(a, i, Int8Type),
        D::Int16 => prim!(a, i, Int16Type),
        D::Int32 => prim!(a, i, Int32Type),
        D::Int64 => prim!(a, i, Int64Type),
        D::UInt8 => prim!(a, i, UInt8Type),
        D::UInt16 => prim!(a, i, UInt16Type),
        D::UInt32 => prim!(a, i, UInt32Type),
        D::UInt64 => prim!(a, i, UInt64Type),
        D::Float16 => {
            let arr = a.as_primitive::<Float16Type>();
            if arr.is_null(i) { LValue::Null } else { LValue::F16(arr.value(i).to_bits()) }
        }
        D::Float32 => {
            let arr = a.as_primitive::<Float32Type>();
            if arr.is_null(i) { LValue::Null } else { LValue::F32(arr.value(i).to_bits()) }
        }
        D::Float64 => {
            let arr = a.as_primitive::<Float64Type>();
            if arr.is_null(i) { LValue::Null } else { LValue::F64(arr.value(i).to_bits()) }
        }
        D::Decimal32(..) => prim!(a, i, Decimal32Type),
        D::Decimal64(..) => prim!(a, i, Decimal64Type),
        D::Decimal128(..) => prim!(a, i, Decimal128Type),
        D::Decimal256(..) => {
            let arr = a.as_primitive::<Decimal256Type>();
            if arr.is_null(i) { LValue::Null } else { LValue::Big(arr.value(i).to_le_bytes()) }
        }
        D::Date32 => prim!(a, i, Date32Type),
        D::Date64 => prim!(a, i, Date64Type),
        D::Time32(TimeUnit::Second) => prim!(a, i, Time32SecondType),
        D::Time32(_) => prim!(a, i, Time32MillisecondType),
        D::Time64(TimeUnit::Microsecond) => prim!(a, i, Time64MicrosecondType),
        D::Time64(_) => prim!(a, i, Time64NanosecondType),
        D::Timestamp(TimeUnit::Second, _) => prim!(a, i, TimestampSecondType),
        D::Timestamp(TimeUnit::Millisecond, _) => prim!(a, i, TimestampMillisecondType),
        D::Timestamp(TimeUnit::Microsecond, _) => prim!(a, i, TimestampMicrosecondType),
        D::Timestamp(TimeUnit::Nanosecond, _) => prim!(a, i, TimestampNanosecondType),
        D::Duration(TimeUnit::Second) => prim!(a, i, DurationSecondType),
        D::Duration(TimeUnit::Millisecond) => prim!(a, i, DurationMillisecondType),
        D::Duration(TimeUnit::Microsecond) => prim!(a, i, DurationMicrosecondType),
        D::Duration(TimeUnit::Nanosecond) => prim!(a, i, DurationNanosecondType),
        D::Interval(IntervalUnit::YearMonth) => prim!(a, i, IntervalYearMonthType),
        D::Interval(IntervalUnit::DayTime) => {
            let arr = a.as_primitive::<IntervalDayTimeType>();
            if arr.is_null(i) {
                LValue::Null
            } else {
                let v = arr.value(i);
                LValue::DayTime(v.days, v.milliseconds)
            }
        }
        D::Interval(IntervalUnit::MonthDayNano) => {
            let arr = a.as_primitive::<IntervalMonthDayNanoType>();
            if arr.is_null(i) {
                LValue::Null
            } else {
                let v = arr.value(i);
                LValue::MonthDayNano(v.months, v.days, v.nanoseconds)
            }
        }
        D::Utf8 => {
            let arr = a.as_string::<i32>();
            if arr.is_null(i) { LValue::Null } else { LValue::Str(arr.value(i).to_string()) }
        }
        D::LargeUtf8 => {
            let arr = a.as_string::<i64>();
            if arr.is_null(i) { LValue::Null } else { LValue::Str(arr.value(i).to_string()) }
        }
        D::Utf8View => {
            let arr = a.as_string_view();
            if arr.is_null(i) { LValue::Null } else { LValue::Str(arr.value(i).to_string()) }
        }
        D::Binary => {
            let arr = a.as_binary::<i32>();
            if arr.is_null(i) { LValue::Null } else { LValue::Bytes(arr.value(i).to_vec()) }
        }
        D::LargeBinary => {
            let arr = a.as_binary::<i64>();
            if arr.is_null(i) { LValue::Null } else { LValue::Bytes(arr.value(i).to_vec()) }
        }
        D::BinaryView => {
            let arr = a.as_binary_view();
            if arr.is_null(i) { LValue::Null } else { LValue::Bytes(arr.value(i).to_vec()) }
        }
        D::FixedSizeBinary(_) => {
            let arr = a.as_fixed_size_binary();
            if arr.is_null(i) { LValue::Null } else { LValue::Bytes(arr.value(i).to_vec()) }
        }
        D::List(_) => {
            let arr = a.as_list::<i32>();
            if arr.is_null(i) { LValue::Null } else { LValue::List(extract(arr.value(i).as_ref())) }
        }
        D::LargeList(_) => {
            let arr = a.as_list::<i64>();
            if arr.is_null(i) { LValue::Null } else { LValue::List(extract(arr.value(i).as_ref())) }
        }
        D::ListView(_) => {
            let arr = a.as_list_view::<i32>();
            if arr.is_null(i) { LValue::Null } else { LValue::List(extract(arr.value(i).as_ref())) }
        }
        D::LargeListView(_) => {
            let arr = a.as_list_view::<i64>();
            if arr.is_null(i) { LValue::Null } else { LValue::List(extract(arr.value(i).as_ref())) }
        }
        D::FixedSizeList(..) => {
            let arr = a.as_fixed_size_list();
            if arr.is_null(i) { LValue::Null } else { LValue::List(extract(arr.value(i).as_ref())) }
        }
        D::Struct(_) => {
            let arr = a.as_struct();
            if arr.is_null(i) { LValue::Null } else { LValue::Struct(arr.columns().iter().map(|c| extract_at(c.as_ref(), i)).collect()) }
        }
        D::Map(..) => {
            let arr = a.as_map();
            if arr.is_null(i) {
                LValue::Null
            } else {
                let e = arr.value(i);
                let k = extract(e.column(0).as_ref());
                let v = extract(e.column(1).as_ref());
                LValue::Map(k.into_iter().zip(v).collect())
            }
        }
        D::Union(_, mode) => {
            let arr = a.as_any().downcast_ref::<UnionArray>().unwrap();
            let id = arr.type_id(i);
            let child = arr.child(id);
            let off = match mode {
                UnionMode::Dense => arr.value_offset(i),
                UnionMode::Sparse => i,
            };
            LValue::Union(id, Box::new(extract_at(child.as_ref(), off)))
        }
        D::Dictionary(k, _) => {
            macro_rules! d {
                ($kt:ty) => {{
                    let arr = a.as_dictionary::<$kt>();
                    if arr.keys().is_null(i) { LValue::Null } else { extract_at(arr.values().as_ref(), arr.keys().value(i) as usize) }
                }};
            }
            match k.as_ref() {
                D::Int8 => d!(Int8Type),
                D::Int16 => d!(Int16Type),
                D::Int32 => d!(Int32Type),
                D::Int64 => d!(Int64Type),
                D::UInt8 => d!(UInt8Type),
                D::UInt16 => d!(UInt16Type),
                D::UInt32 => d!(UInt32Type),
                _ => d!(UInt64Type),
            }
        }
        D::RunEndEncoded(r, _) => {
            macro_rules! r {
                ($rt:ty) => {{
                    let arr = a.as_any().downcast_ref::<RunArray<$rt>>().unwrap();
                    let p = arr.get_physical_index(i);
                    extract_at(arr.values().as_ref(), p)
                }};
            }
            match r.data_type() {
                D::Int16 => r!(Int16Type),
                D::Int32 => r!(Int32Type),
                _ => r!(Int64Type),
            }
        }
    }
}

pub fn i256_of(b: &[u8; 32]) -> i256 {
    i256::from_le_bytes(*b)
}
