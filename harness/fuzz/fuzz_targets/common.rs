// shared by the libFuzzer targets: run one sub-check oracle on the fuzzer's bytes (the entropy tape); failures whose
// signature is an open known finding are tolerated (so a campaign does not rediscover one defect forever)
use std::sync::OnceLock;
use vp_engine::runner::{catch, install_panic_hook, load_known, Case, CaseResult, Fail, Tier};
use vp_engine::tape::Tape;

static KNOWN: OnceLock<Vec<String>> = OnceLock::new();

/// every oracle gets a fresh case over the same bytes (so a saved input replays per sub-check with `./check <ID> --replay`)
pub fn run(property: &'static str, data: &[u8], fs: &[fn(&mut Case) -> CaseResult]) {
    let known = KNOWN.get_or_init(|| {
        install_panic_hook();
        load_known(property).into_iter().filter(|k| k.status == "open").map(|k| k.signature).collect()
    });
    for f in fs {
        let mut c = Case::new(Tape::from_slice(data), Tier::Quick, false);
        // same treatment as the proptest driver: a panic that escapes the oracle is a failure with an `escaped:` signature
        let r = match catch(|| f(&mut c)) {
            Ok(r) => r,
            Err(p) => Err(Fail::new(format!("escaped:{}", p.sig()), format!("panic escaped the oracle at {}: {}", p.loc, p.msg))),
        };
        if let Err(e) = r {
            if !known.contains(&e.sig) {
                // abort so that libFuzzer saves the input as a crash artifact
                eprintln!("ORACLE FAILURE [{}]: {}", e.sig, e.msg);
                std::process::abort();
            }
        }
    }
}
