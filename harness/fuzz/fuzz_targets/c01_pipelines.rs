#![no_main]
#![allow(dead_code)]
use libfuzzer_sys::fuzz_target;
#[path = "../../vp-checks/src/bin/c01.rs"]
mod c01;
mod common;
fuzz_target!(|data: &[u8]| {
    common::run("C01", data, &[c01::sub_pipelines, c01::sub_bulk_builders]);
});
