#![no_main]
#![allow(dead_code)]
use libfuzzer_sys::fuzz_target;
#[path = "../../vp-checks/src/bin/c09.rs"]
mod c09;
mod common;
fuzz_target!(|data: &[u8]| {
    common::run("C09", data, &[c09::sub_arraydata]);
});
