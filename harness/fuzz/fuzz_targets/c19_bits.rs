#![no_main]
#![allow(dead_code)]
use libfuzzer_sys::fuzz_target;
#[path = "../../vp-checks/src/bin/c19.rs"]
mod c19;
mod common;
// sub-checks replayed by `./check C19 --replay`: boolean_buffer, inplace, iterators
fuzz_target!(|data: &[u8]| {
    common::run("C19", data, &[|c| c19::sub_boolean_buffer(c, false), |c| c19::sub_inplace(c, false), |c| c19::sub_iterators(c, false)]);
});
