//! C20: substring / substring_by_char, length / bit_length, concat_elements_*.
use super::mk;
use super::r::*;
use arrow_array::cast::AsArray;
use arrow_array::*;
use arrow_schema::{ArrowError, DataType};
use arrow_string::concat_elements::*;
use arrow_string::length::{bit_length, length};
use arrow_string::substring::{substring, substring_by_char};
use serde_json::json;
use vp_engine::extract::extract;
use vp_engine::model::*;
use vp_engine::r#gen::{gen_column, gen_type, TypeCfg, ValCfg};
use vp_engine::runner::*;
use vp_engine::tape::Tape;
use vp_engine::validate::check_valid;
use vp_engine::{ensure, fail};

fn bytes_of(v: &LValue) -> Option<&[u8]> {
    match v {
        LValue::Str(s) => Some(s.as_bytes()),
        LValue::Bytes(b) => Some(b),
        _ => None,
    }
}

// ------------------------------------------------------------------------------------------------ substring
const EXTREME_START: [i64; 12] = [i64::MIN, i64::MIN + 1, -(1 << 32) - 1, -(1 << 32), -(1 << 31) - 1, -(1 << 31), (1 << 31) - 1, 1 << 31, 1 << 32, (1 << 32) + 1, i64::MAX - 1, i64::MAX];
const EXTREME_LEN: [u64; 9] = [(1 << 31) - 1, 1 << 31, (1 << 32) - 1, 1 << 32, (1 << 32) + 1, i64::MAX as u64, (i64::MAX as u64) + 1, u64::MAX - 1, u64::MAX];

fn gen_start_len(t: &mut Tape, maxlen: usize, extreme: bool) -> (i64, Option<u64>) {
    let m = maxlen as i64;
    let mut start = t.range(0, 2 * m + 4);
    // decode 0 -> 0, then alternate signs: small tape bytes give small |start|
    start = if start % 2 == 0 { start / 2 } else { -(start + 1) / 2 };
    let mut length = match t.below(4) {
        0 => None,
        _ => Some(t.below(maxlen + 3) as u64),
    };
    if extreme {
        match t.below(3) {
            0 => start = *t.pick(&EXTREME_START),
            1 => length = Some(*t.pick(&EXTREME_LEN)),
            _ => {
                start = *t.pick(&EXTREME_START);
                length = Some(*t.pick(&EXTREME_LEN));
            }
        }
    }
    (start, length)
}

fn substring_case(c: &mut Case, force_extreme: bool) -> CaseResult {
    let strict = c.strict;
    let kind = c.tape.below(10);
    // start/length far outside the value lengths: by-char and FixedSizeBinary handle them; the offset-based and view
    // variants do not (known finding, sub-check substring_large_args), so the generator avoids them there
    let mut extreme = force_extreme || c.tape.chance(20);
    if extreme && !force_extreme && !strict && !matches!(kind, 0..=2 | 6) {
        extreme = false;
        c.excluded.push("substring-large-start-or-length".to_string());
    }
    if extreme {
        c.class("large-start-or-length");
    }
    let t = &mut c.tape;
    let n = gen_rows(t);
    let hnull = gen_null_chance(t);
    // non-ASCII columns are kept short so that calls without a char-boundary error stay frequent
    let prof = gen_prof(t);
    let n = if prof != Prof::Ascii && t.chance(160) { n.min(1 + t.below(3)) } else { n };
    match kind {
        // ---- substring_by_char (Utf8 / LargeUtf8)
        0..=2 => {
            let col = gen_strcol(t, n, prof, hnull, true);
            let maxlen = col.iter().flatten().map(|s| s.chars().count()).max().unwrap_or(0).min(24);
            let (start, length) = gen_start_len(t, maxlen, extreme);
            let large = t.bool();
            c.class("by-char");
            c.class(if start < 0 { "negative-start" } else { "non-negative-start" });
            c.class("ok");
            c.describe(json!({"kernel": "substring_by_char", "large": large, "start": start, "length": length, "col": show_col(&col)}));
            let mut nt = false;
            let want: Vec<LValue> = col
                .iter()
                .map(|s| match s {
                    None => LValue::Null,
                    Some(s) => {
                        let r = char_substring(s, start, length);
                        let a = sub_range(s.chars().count(), start, length);
                        let ba = s.char_indices().nth(a.0).map(|x| x.0).unwrap_or(s.len());
                        let bb = s.char_indices().nth(a.1).map(|x| x.0).unwrap_or(s.len());
                        if cut_near_multibyte(s, ba, bb) && (ba > 0 || bb < s.len()) {
                            nt = true;
                        }
                        LValue::Str(r)
                    }
                })
                .collect();
            if nt {
                c.nontrivial();
            }
            let ty = LType::Utf8(if large { Enc::O64 } else { Enc::O32 });
            let a = mk(&mut c.tape, &ty, &sv(&col))?;
            let got: ArrayRef = if large {
                let r = no_panic("substring_by_char", || substring_by_char(a.as_string::<i64>(), start, length))?;
                match r {
                    Ok(x) => std::sync::Arc::new(x),
                    Err(e) => fail!("substring_by_char:err", "Err({}) start {} length {:?} col {}", e, start, length, show_col(&col)),
                }
            } else {
                let r = no_panic("substring_by_char", || substring_by_char(a.as_string::<i32>(), start, length))?;
                match r {
                    Ok(x) => std::sync::Arc::new(x),
                    Err(e) => fail!("substring_by_char:err", "Err({}) start {} length {:?} col {}", e, start, length, show_col(&col)),
                }
            };
            check_valid(got.as_ref(), "substring_by_char")?;
            let vals = no_panic("extract", || extract(got.as_ref()))?;
            if let Some(i) = first_diff(&vals, &want) {
                fail!("substring_by_char:row", "row {}: got {:?} expected {:?}; value {} start {} length {:?}", i, vals.get(i), want.get(i), show(&col[i.min(col.len().saturating_sub(1))]), start, length);
            }
            c.evals(n.max(1) as u64);
        }
        // ---- byte substring
        _ => {
            let (ty, string): (LType, bool) = match kind {
                3 | 4 => (LType::Utf8(*t.pick(&ENCS)), true),
                5 => (LType::Binary(*t.pick(&ENCS)), false),
                6 => (LType::FixedBinary(*t.pick(&[4, 1, 2, 16, 0, 7, 13])), false),
                7 => (LType::Dict { kbits: 16, ksigned: true, value: Box::new(LType::Utf8(*t.pick(&ENCS))) }, true),
                8 => {
                    let k = *t.pick(&KEYS);
                    (LType::Dict { kbits: k.0, ksigned: k.1, value: Box::new(if t.bool() { LType::Binary(*t.pick(&ENCS)) } else { LType::Utf8(*t.pick(&ENCS)) }) }, false)
                }
                _ => (LType::Utf8(Enc::O32), true),
            };
            let string = string || matches!(ty.denoted(), LType::Utf8(_));
            let vals: Vec<LValue> = match ty.denoted() {
                LType::Utf8(_) => sv(&gen_strcol(t, n, prof, hnull, true)),
                LType::FixedBinary(w) => (0..n).map(|_| if hnull > 0 && t.chance(hnull) { LValue::Null } else { LValue::Bytes((0..*w).map(|_| *t.pick(&[0x61u8, 0, 0xff, 0x80, 0x62])).collect()) }).collect(),
                _ => gen_strcol(t, n, prof, hnull, true).into_iter().map(|s| s.map(|s| LValue::Bytes(s.into_bytes())).unwrap_or(LValue::Null)).collect(),
            };
            let maxlen = vals.iter().filter_map(bytes_of).map(|b| b.len()).max().unwrap_or(0).min(30);
            let (start, length) = gen_start_len(t, maxlen, extreme);
            c.class(match (&ty, ty.denoted()) {
                (LType::Dict { .. }, _) => "bytes:dictionary",
                (_, LType::Utf8(_)) => "bytes:utf8",
                (_, LType::FixedBinary(_)) => "bytes:fixed",
                _ => "bytes:binary",
            });
            if matches!(ty.denoted(), LType::Utf8(Enc::View) | LType::Binary(Enc::View)) {
                c.class("bytes:view");
            }
            c.class(if start < 0 { "negative-start" } else { "non-negative-start" });
            c.describe(json!({"kernel": "substring", "type": format!("{}", ty.arrow()), "start": start, "length": length, "col": short_vec(&vals)}));
            // reference
            let mut bad_cut = false;
            let mut nt = false;
            let want: Vec<LValue> = vals
                .iter()
                .map(|v| match v {
                    LValue::Str(s) => {
                        let (a, b) = sub_range(s.len(), start, length);
                        if cut_near_multibyte(s, a, b) {
                            nt = true;
                        }
                        match byte_substring_str(s, start, length) {
                            Ok(r) => LValue::Str(r),
                            Err(()) => {
                                bad_cut = true;
                                LValue::Null
                            }
                        }
                    }
                    LValue::Bytes(b) => {
                        let (x, y) = sub_range(b.len(), start, length);
                        LValue::Bytes(b[x..y].to_vec())
                    }
                    _ => LValue::Null,
                })
                .collect();
            if nt {
                c.nontrivial();
            }
            let a = mk(&mut c.tape, &ty, &vals)?;
            // a dictionary may hold values no row refers to; the kernel takes the substring of every dictionary value
            let mut unref_bad = false;
            if let Some(d) = a.as_any_dictionary_opt() {
                if string {
                    for v in extract(d.values().as_ref()) {
                        if let LValue::Str(s) = v {
                            if byte_substring_str(&s, start, length).is_err() {
                                unref_bad = true;
                            }
                        }
                    }
                }
            }
            let res = no_panic("substring", || substring(a.as_ref(), start, length))?;
            match res {
                Err(e) => {
                    ensure!(bad_cut || unref_bad, "substring:err", "Err({}) although every cut is on a char boundary; type {} start {} length {:?} col {}", e, ty.arrow(), start, length, short_vec(&vals));
                    c.class("char-boundary-error");
                }
                Ok(got) => {
                    ensure!(!bad_cut, "substring:no-err", "Ok although a cut is not on a char boundary; type {} start {} length {:?} col {}", ty.arrow(), start, length, short_vec(&vals));
                    c.class("ok");
                    check_valid(got.as_ref(), "substring")?;
                    // result type: same as the input, except the width of FixedSizeBinary
                    match (&ty, got.data_type()) {
                        (LType::FixedBinary(w), DataType::FixedSizeBinary(nw)) => {
                            let (x, y) = sub_range(*w as usize, start, length);
                            ensure!(*nw as usize == y - x, "substring:fixed-width", "FixedSizeBinary({}) start {} length {:?} gave width {}", w, start, length, nw);
                        }
                        (_, dt) => ensure!(dt == &ty.arrow(), "substring:type", "result type {} for input {}", dt, ty.arrow()),
                    }
                    let gv = no_panic("extract", || extract(got.as_ref()))?;
                    if let Some(i) = first_diff(&gv, &want) {
                        fail!("substring:row", "row {}: got {:?} expected {:?}; value {:?} type {} start {} length {:?}", i, gv.get(i), want.get(i), vals.get(i), ty.arrow(), start, length);
                    }
                }
            }
            c.evals(n.max(1) as u64);
        }
    }
    Ok(())
}
pub fn sub_substring(c: &mut Case) -> CaseResult {
    substring_case(c, false)
}
/// start / length values beyond the 32-bit range (the API takes i64 / u64 without a stated precondition)
pub fn sub_substring_extreme(c: &mut Case) -> CaseResult {
    substring_case(c, true).map_err(|f| Fail::new("substring:large-start-or-length", format!("[{}] {}", f.sig, f.msg)))
}

// ------------------------------------------------------------------------------------------------ length
fn gen_len_type(t: &mut Tape) -> LType {
    let leaf = match t.below(8) {
        0 => LType::Utf8(Enc::O32),
        1 => LType::Utf8(Enc::O64),
        2 => LType::Utf8(Enc::View),
        3 => LType::Binary(Enc::O32),
        4 => LType::Binary(Enc::O64),
        5 => LType::Binary(Enc::View),
        _ => LType::FixedBinary(*t.pick(&[4, 1, 2, 16, 0, 7])),
    };
    let child = |t: &mut Tape| LField::new("item", gen_type(t, &TypeCfg::primitive()), true);
    match t.below(12) {
        0..=4 => leaf,
        5 | 6 => {
            let k = *t.pick(&KEYS);
            LType::Dict { kbits: k.0, ksigned: k.1, value: Box::new(leaf) }
        }
        7 => LType::Ree { rbits: *t.pick(&[32u8, 16, 64]), value: Box::new(LField::new("values", leaf, true)) },
        8 | 9 => LType::List(Box::new(child(t)), *t.pick(&[ListEnc::O32, ListEnc::O64, ListEnc::V32, ListEnc::V64])),
        10 => LType::FixedList(Box::new(child(t)), *t.pick(&[2, 1, 3, 0])),
        _ => LType::Map { key: Box::new(LField::new("key", LType::Utf8(Enc::O32), false)), val: Box::new(LField::new("value", gen_type(t, &TypeCfg::primitive()), true)), sorted: false },
    }
}
fn len_of(v: &LValue) -> LValue {
    match v {
        LValue::Str(s) => LValue::Int(s.len() as i128),
        LValue::Bytes(b) => LValue::Int(b.len() as i128),
        LValue::List(l) => LValue::Int(l.len() as i128),
        LValue::Map(m) => LValue::Int(m.len() as i128),
        _ => LValue::Null,
    }
}
pub fn sub_length(c: &mut Case) -> CaseResult {
    let ty = gen_len_type(&mut c.tape);
    let n = gen_rows(&mut c.tape);
    // some columns with values well beyond 255 bytes
    let vcfg = if c.tape.chance(90) { ValCfg { max_str: 600, ..ValCfg::default() } } else { ValCfg::default() };
    let col = gen_column(&mut c.tape, &ty, true, n, &vcfg);
    if col.iter().any(|v| matches!(v, LValue::Str(s) if s.len() > 255) || matches!(v, LValue::Bytes(b) if b.len() > 255)) {
        c.class("value>255-bytes");
    }
    c.class(format!("type:{}", ty.family()));
    c.describe(json!({"type": format!("{}", ty.arrow()), "col": short_vec(&col)}));
    if col.iter().any(|v| matches!(v, LValue::Str(s) if !s.is_ascii())) {
        c.nontrivial();
    }
    let a = mk(&mut c.tape, &ty, &col)?;
    let want: Vec<LValue> = col.iter().map(len_of).collect();
    let check = |name: &str, res: Result<ArrayRef, ArrowError>, want: &[LValue]| -> CaseResult {
        let got = match res {
            Ok(g) => g,
            Err(e) => fail!(format!("{}:err", name), "Err({}) for {}", e, ty.arrow()),
        };
        check_valid(got.as_ref(), name)?;
        let den = LType::from_arrow(got.data_type()).map(|t| t.denoted().clone());
        ensure!(matches!(den, Some(LType::Int { bits: 32 | 64, signed: true })), format!("{}:type", name), "result type {} for {}", got.data_type(), ty.arrow());
        let gv = no_panic("extract", || extract(got.as_ref()))?;
        if let Some(i) = first_diff(&gv, want) {
            fail!(format!("{}:row", name), "row {}: got {:?} expected {:?} for value {:?} of {}", i, gv.get(i), want.get(i), col.get(i), ty.arrow());
        }
        Ok(())
    };
    c.class("length");
    let r = no_panic("length", || length(a.as_ref()))?;
    check("length", r, &want)?;
    c.evals(n.max(1) as u64);
    if matches!(ty.denoted(), LType::Utf8(_) | LType::Binary(_) | LType::FixedBinary(_)) {
        c.class("bit_length");
        let wb: Vec<LValue> = want.iter().map(|v| if let LValue::Int(i) = v { LValue::Int(i * 8) } else { LValue::Null }).collect();
        let r = no_panic("bit_length", || bit_length(a.as_ref()))?;
        check("bit_length", r, &wb)?;
        c.evals(n.max(1) as u64);
    }
    Ok(())
}

// ------------------------------------------------------------------------------------------------ concat
fn gen_small_strcol(t: &mut Tape, n: usize, prof: Prof, nullc: u32) -> Vec<Option<String>> {
    // short pieces so that sums straddle the 12-byte inline limit of views
    (0..n)
        .map(|_| {
            if nullc > 0 && t.chance(nullc) {
                None
            } else {
                let k = match t.below(8) {
                    0 => 0,
                    1 => 6,
                    2 => 7,
                    3 => 12,
                    4 => 13,
                    _ => t.below(9),
                };
                let a = prof.alphabet();
                Some((0..k).map(|_| *t.pick(a)).collect())
            }
        })
        .collect()
}
pub fn sub_concat(c: &mut Case) -> CaseResult {
    let t = &mut c.tape;
    let kind = t.below(7);
    let via_dyn = t.chance(90) && kind != 3;
    let n = gen_rows(t);
    let prof = gen_prof(t);
    let binary = matches!(kind, 2 | 5);
    let k_arrays = if kind == 3 { 1 + t.below(4) } else { 2 };
    let fixed_w: Vec<i32> = (0..2).map(|_| *t.pick(&[2, 0, 1, 4, 7])).collect();
    let mut cols: Vec<Vec<LValue>> = vec![];
    for j in 0..k_arrays {
        let nullc = gen_null_chance(t);
        let col: Vec<LValue> = if kind == 6 {
            (0..n).map(|_| if nullc > 0 && t.chance(nullc) { LValue::Null } else { LValue::Bytes((0..fixed_w[j]).map(|_| *t.pick(&[0x61u8, 0, 0xff, 0x80])).collect()) }).collect()
        } else {
            let s = gen_small_strcol(t, n, prof, nullc);
            if binary { s.into_iter().map(|x| x.map(|x| LValue::Bytes(x.into_bytes())).unwrap_or(LValue::Null)).collect() } else { sv(&s) }
        };
        cols.push(col);
    }
    let large = t.bool();
    let off = if large { Enc::O64 } else { Enc::O32 };
    let tys: Vec<LType> = match kind {
        0 | 1 | 3 => vec![LType::Utf8(off); k_arrays],
        2 => vec![LType::Binary(off); 2],
        4 => vec![LType::Utf8(Enc::View); 2],
        5 => vec![LType::Binary(Enc::View); 2],
        _ => vec![LType::FixedBinary(fixed_w[0]), LType::FixedBinary(fixed_w[1])],
    };
    let kname = ["utf8", "utf8", "binary", "many", "view", "view", "fixed"][kind];
    c.class(kname);
    if via_dyn {
        c.class("dyn");
    }
    c.describe(json!({"kind": kind, "dyn": via_dyn, "types": tys.iter().map(|t| format!("{}", t.arrow())).collect::<Vec<_>>(), "cols": cols.iter().map(|c| short_vec(c)).collect::<Vec<_>>()}));
    let want: Vec<LValue> = (0..n)
        .map(|i| {
            if cols.iter().any(|c| c[i].is_null()) {
                return LValue::Null;
            }
            let mut b: Vec<u8> = vec![];
            for c in &cols {
                b.extend_from_slice(bytes_of(&c[i]).unwrap());
            }
            if binary || kind == 6 { LValue::Bytes(b) } else { LValue::Str(String::from_utf8(b).unwrap()) }
        })
        .collect();
    if want.iter().any(|v| matches!(v, LValue::Str(s) if !s.is_ascii() && s.len() > 12)) {
        c.nontrivial();
    }
    let mut arrs: Vec<ArrayRef> = vec![];
    for (ty, col) in tys.iter().zip(&cols) {
        arrs.push(mk(&mut c.tape, ty, col)?);
    }
    let res: Result<ArrayRef, ArrowError> = no_panic("concat_elements", || -> Result<ArrayRef, ArrowError> {
        use std::sync::Arc;
        if via_dyn {
            return concat_elements_dyn(arrs[0].as_ref(), arrs[1].as_ref());
        }
        Ok(match (kind, large) {
            (0 | 1, false) => Arc::new(concat_elements_utf8(arrs[0].as_string::<i32>(), arrs[1].as_string::<i32>())?),
            (0 | 1, true) => Arc::new(concat_elements_utf8(arrs[0].as_string::<i64>(), arrs[1].as_string::<i64>())?),
            (2, false) => Arc::new(concat_element_binary(arrs[0].as_binary::<i32>(), arrs[1].as_binary::<i32>())?),
            (2, true) => Arc::new(concat_element_binary(arrs[0].as_binary::<i64>(), arrs[1].as_binary::<i64>())?),
            (3, false) => {
                let v: Vec<&StringArray> = arrs.iter().map(|a| a.as_string::<i32>()).collect();
                Arc::new(concat_elements_utf8_many(&v)?)
            }
            (3, true) => {
                let v: Vec<&LargeStringArray> = arrs.iter().map(|a| a.as_string::<i64>()).collect();
                Arc::new(concat_elements_utf8_many(&v)?)
            }
            (4, _) => Arc::new(concat_elements_string_view_array(arrs[0].as_string_view(), arrs[1].as_string_view())?),
            (5, _) => Arc::new(concat_elements_binary_view_array(arrs[0].as_binary_view(), arrs[1].as_binary_view())?),
            _ => Arc::new(concat_elements_fixed_size_binary(arrs[0].as_fixed_size_binary(), arrs[1].as_fixed_size_binary())?),
        })
    })?;
    let got = match res {
        Ok(g) => g,
        Err(e) => fail!("concat_elements:err", "Err({}) for {:?}", e, tys.iter().map(|t| format!("{}", t.arrow())).collect::<Vec<_>>()),
    };
    check_valid(got.as_ref(), "concat_elements")?;
    let want_ty = if kind == 6 { DataType::FixedSizeBinary(fixed_w[0] + fixed_w[1]) } else { tys[0].arrow() };
    ensure!(got.data_type() == &want_ty, "concat_elements:type", "result type {} expected {}", got.data_type(), want_ty);
    let gv = no_panic("extract", || extract(got.as_ref()))?;
    if let Some(i) = first_diff(&gv, &want) {
        fail!("concat_elements:row", "row {}: got {:?} expected {:?} (kind {}, dyn {})", i, gv.get(i), want.get(i), kind, via_dyn);
    }
    c.evals(n.max(1) as u64);
    Ok(())
}
