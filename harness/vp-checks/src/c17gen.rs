//! C17 generators: nasty text, per-format type/value generation, Avro read-back model, conversion to apache-avro values,
//! and the independent RFC 4180 / RFC 8259 renderers.
use apache_avro::types::Value as AV;
use apache_avro::Schema as AS;
use std::collections::HashMap;
use vp_engine::model::*;
use vp_engine::r#gen::*;
use vp_engine::tape::Tape;

// ------------------------------------------------------------------------------------------------ text
pub const ALPHA: [&str; 40] = [
    "a", "b", "z", "A", "0", "1", " ", "é", "ß", "中", "😀", "𝄞", "\n", "\r", "\r\n", "\t", "\"", "'", "\\", ",", ";", "|", "$", "~", "/", "%", "\u{0}", "\u{1}", "\u{7f}", "\u{2028}", "\u{feff}", "NULL",
    "null", "\\N", "true", "-", "1.5", "\"\"", ".", "\u{ffff}",
];

/// string over an alphabet of delimiters, quotes, escapes, line breaks, control, BMP and non-BMP characters
pub fn nasty_string(t: &mut Tape, extra: &[String], max: usize) -> String {
    let shape = t.below(16);
    let pickc = |t: &mut Tape| -> String {
        let n = ALPHA.len() + extra.len();
        let i = t.below(n);
        if i < ALPHA.len() { ALPHA[i].to_string() } else { extra[i - ALPHA.len()].clone() }
    };
    let body = |t: &mut Tape, max: usize| -> String {
        let n = match t.below(6) {
            0 => 1,
            1 => t.below(max + 1),
            _ => 1 + t.below(5.min(max.max(1))),
        };
        let mut s = String::new();
        for _ in 0..n {
            s.push_str(&pickc(t));
        }
        s
    };
    match shape {
        0 => String::new(),
        1 => format!(" {} ", body(t, 3)),
        2 => format!("{}\"", body(t, 3)),
        3 => "\"\"".to_string(),
        4 => "\r".to_string(),
        5 => format!("{}\r\n{}", body(t, 2), body(t, 2)),
        6 if !extra.is_empty() => {
            // an `extra` token (delimiter, quote, escape, null sentinel) surrounded by other text
            let e = extra[t.below(extra.len())].clone();
            match t.below(4) {
                0 => format!("{}x", e),
                1 => format!(" {}", e),
                2 => format!("{}{}", e, e),
                _ => format!("{}{}{}", body(t, 2), e, body(t, 2)),
            }
        }
        7 | 8 => {
            // plain short ascii
            let n = 1 + t.below(6);
            (0..n).map(|_| (b'a' + t.below(6) as u8) as char).collect()
        }
        _ => body(t, max),
    }
}

/// only characters that never need quoting in any CSV dialect generated here
pub fn plain_string(t: &mut Tape) -> String {
    let n = 1 + t.below(6);
    (0..n).map(|_| (b'a' + t.below(8) as u8) as char).collect()
}

/// apply `leaf` to every non-null leaf value (nested types are walked with their child types; dictionary / run-end
/// columns are walked with their value type)
pub fn transform(ty: &LType, v: &LValue, leaf: &mut dyn FnMut(&LType, &LValue) -> LValue) -> LValue {
    if v.is_null() {
        return LValue::Null;
    }
    match (ty, v) {
        (LType::List(f, _), LValue::List(xs)) | (LType::FixedList(f, _), LValue::List(xs)) => LValue::List(xs.iter().map(|x| transform(&f.ty, x, leaf)).collect()),
        (LType::Struct(fs), LValue::Struct(xs)) => LValue::Struct(fs.iter().zip(xs).map(|(f, x)| transform(&f.ty, x, leaf)).collect()),
        (LType::Map { key, val, .. }, LValue::Map(es)) => LValue::Map(es.iter().map(|(k, x)| (transform(&key.ty, k, leaf), transform(&val.ty, x, leaf))).collect()),
        (LType::Union { fields, .. }, LValue::Union(id, x)) => {
            let f = &fields.iter().find(|f| f.0 == *id).unwrap().1;
            LValue::Union(*id, Box::new(transform(&f.ty, x, leaf)))
        }
        (LType::Dict { value, .. }, x) => transform(value, x, leaf),
        (LType::Ree { value, .. }, x) => transform(&value.ty, x, leaf),
        (t, x) => leaf(t, x),
    }
}

/// does any value at a node satisfying `pred(type, value)` exist
pub fn any_value(ty: &LType, v: &LValue, pred: &dyn Fn(&LType, &LValue) -> bool) -> bool {
    if pred(ty, v) {
        return true;
    }
    match (ty, v) {
        (LType::List(f, _), LValue::List(xs)) | (LType::FixedList(f, _), LValue::List(xs)) => xs.iter().any(|x| any_value(&f.ty, x, pred)),
        (LType::Struct(fs), LValue::Struct(xs)) => fs.iter().zip(xs).any(|(f, x)| any_value(&f.ty, x, pred)),
        (LType::Map { key, val, .. }, LValue::Map(es)) => es.iter().any(|(k, x)| any_value(&key.ty, k, pred) || any_value(&val.ty, x, pred)),
        (LType::Dict { value, .. }, x) => !x.is_null() && any_value(value, x, pred),
        (LType::Ree { value, .. }, x) => !x.is_null() && any_value(&value.ty, x, pred),
        _ => false,
    }
}

// ------------------------------------------------------------------------------------------------ CSV
pub const TZS: [&str; 5] = ["UTC", "+05:30", "-08:00", "+00:00", "America/New_York"];
const UNITS: [Unit; 4] = [Unit::S, Unit::Ms, Unit::Us, Unit::Ns];

pub fn csv_type_cfg() -> TypeCfg {
    let mut c = TypeCfg::primitive();
    c.neg_scale = false;
    c
}

pub fn gen_csv_type(t: &mut Tape) -> LType {
    match t.below(22) {
        0..=4 => LType::Utf8(if t.chance(80) { Enc::View } else { Enc::O32 }),
        5 | 6 => {
            let LType::Int { bits, signed } = gen_int_type(t, true) else { unreachable!() };
            LType::Dict { kbits: bits, ksigned: signed, value: Box::new(LType::Utf8(Enc::O32)) }
        }
        7 => LType::Bool,
        8 | 9 | 10 => gen_int_type(t, true),
        11 | 12 => t.pick(&[LType::F64, LType::F32, LType::F16]).clone(),
        13 | 14 => gen_decimal(t, &csv_type_cfg()),
        15 => t.pick(&[LType::Date32, LType::Date64]).clone(),
        16 => t.pick(&[LType::Time32(Unit::S), LType::Time32(Unit::Ms), LType::Time64(Unit::Us), LType::Time64(Unit::Ns)]).clone(),
        17 | 18 | 19 => {
            let tz = if t.bool() { Some(t.pick(&TZS[..4]).to_string()) } else { None };
            LType::Timestamp(t.pick(&UNITS).clone(), tz)
        }
        20 => LType::Null,
        _ => LType::Int { bits: 64, signed: true },
    }
}

// ------------------------------------------------------------------------------------------------ JSON (arrow round trip)
pub fn json_type_cfg() -> TypeCfg {
    let mut c = TypeCfg::all();
    c.dict = false;
    c.union = false;
    c.interval = false;
    c.neg_scale = false;
    c.nested_encoded = true;
    c
}
/// types of the committed JSON grid (writer ∩ reader, lossless)
pub fn json_type_ok(ty: &LType) -> bool {
    !ty.any(&|x| match x {
        LType::Duration(_) | LType::IntervalYM | LType::IntervalDT | LType::IntervalMDN | LType::Dict { .. } | LType::Union { .. } => true,
        LType::Decimal { s, .. } if *s < 0 => true,
        LType::Map { key, sorted, .. } => *sorted || !matches!(key.ty, LType::Utf8(_)),
        _ => false,
    })
}

pub fn finite_leaf(ty: &LType, v: &LValue) -> LValue {
    match (ty, v) {
        (_, LValue::F64(b)) if !f64::from_bits(*b).is_finite() => LValue::F64(if f64::from_bits(*b) > 0.0 { f64::MAX.to_bits() } else { f64::MIN.to_bits() }),
        (_, LValue::F32(b)) if !f32::from_bits(*b).is_finite() => LValue::F32(if f32::from_bits(*b) > 0.0 { f32::MAX.to_bits() } else { f32::MIN.to_bits() }),
        (_, LValue::F16(b)) if (*b & 0x7c00) == 0x7c00 => LValue::F16(if *b & 0x8000 == 0 { 0x7bff } else { 0xfbff }),
        (_, x) => x.clone(),
    }
}

// ------------------------------------------------------------------------------------------------ Avro
/// Avro names: [A-Za-z_][A-Za-z0-9_]*
const AVRO_NAMES: [&str; 4] = ["a", "b", "c", "d_1"];
pub const ENUM_SYMBOLS: [&str; 5] = ["A", "B", "C_1", "dd", "E"];

#[derive(Clone, Debug, PartialEq)]
pub enum Special {
    None,
    /// Dictionary(Int32, Utf8) with `avro.enum.symbols` metadata: first n symbols
    Enum(usize),
    /// FixedSizeBinary(16) with logicalType=uuid metadata
    Uuid,
}

fn avro_leaf(t: &mut Tape, cross: bool) -> LType {
    let enc = |t: &mut Tape| *t.pick(&[Enc::O32, Enc::O32, Enc::O64, Enc::View]);
    loop {
        return match t.below(30) {
            0 => LType::Bool,
            1 | 2 => LType::Int { bits: 32, signed: true },
            3 | 4 => LType::Int { bits: 64, signed: true },
            5 => {
                let bits = *t.pick(&[8u8, 16, 32, 64]);
                LType::Int { bits, signed: !t.bool() }
            }
            6 => LType::F32,
            7 | 8 => LType::F64,
            9 => LType::F16,
            10 | 11 | 12 => LType::Utf8(enc(t)),
            13 | 14 => LType::Binary(enc(t)),
            15 => LType::FixedBinary(*t.pick(&[4, 1, 16, 12, 7])),
            16 | 17 => {
                let mut c = TypeCfg::primitive();
                c.neg_scale = false;
                c.dec_small = false;
                gen_decimal(t, &c)
            }
            18 => LType::Date32,
            19 => LType::Date64,
            20 => t.pick(&[LType::Time32(Unit::S), LType::Time32(Unit::Ms), LType::Time64(Unit::Us), LType::Time64(Unit::Ns)]).clone(),
            21 | 22 | 23 => {
                let tz = if t.bool() { Some(t.pick(&TZS[..4]).to_string()) } else { None };
                LType::Timestamp(t.pick(&UNITS).clone(), tz)
            }
            24 => LType::Duration(t.pick(&UNITS).clone()),
            25 => t.pick(&[LType::IntervalYM, LType::IntervalDT, LType::IntervalMDN]).clone(),
            26 if !cross => LType::Null,
            _ => continue,
        };
    }
}

pub fn gen_avro_type(t: &mut Tape, depth: u32, cross: bool) -> LType {
    if depth >= 3 {
        return avro_leaf(t, cross);
    }
    match t.below(20) {
        0..=9 => avro_leaf(t, cross),
        10 | 11 => {
            let enc = *t.pick(&[ListEnc::O32, ListEnc::O32, ListEnc::O64, ListEnc::V32, ListEnc::V64]);
            LType::List(Box::new(gen_avro_field(t, depth + 1, "item", cross)), enc)
        }
        12 => LType::FixedList(Box::new(gen_avro_field(t, depth + 1, "item", cross)), *t.pick(&[2, 1, 3, 0])),
        13 | 14 | 15 => {
            let n = 1 + t.below(3);
            LType::Struct((0..n).map(|i| gen_avro_field(t, depth + 1, AVRO_NAMES[i], cross)).collect())
        }
        16 | 17 => {
            let key = LType::Utf8(if t.chance(64) { Enc::O64 } else { Enc::O32 });
            LType::Map { key: Box::new(LField::new("key", key, false)), val: Box::new(gen_avro_field(t, depth + 1, "value", cross)), sorted: false }
        }
        18 => {
            let v = loop {
                let v = avro_leaf(t, cross);
                // Bool values: the engine's realiser cannot build RunArray<_, Boolean> with a bit-offset validity (reported)
                if !matches!(v, LType::Null | LType::F16 | LType::Bool) {
                    break v;
                }
            };
            LType::Ree { rbits: *t.pick(&[32u8, 16, 64]), value: Box::new(LField::new("values", v, true)) }
        }
        _ => avro_leaf(t, cross),
    }
}

pub fn gen_avro_field(t: &mut Tape, depth: u32, name: &str, cross: bool) -> LField {
    let ty = gen_avro_type(t, depth, cross);
    let nullable = matches!(ty, LType::Null) || !t.chance(96);
    LField { name: name.to_string(), ty, nullable }
}

/// known finding: a nullable run-end encoded field below the top level is written with two union tags; make such
/// fields non-nullable, returns the number of fields changed
pub fn fix_nested_ree(f: &mut LField, depth: u32) -> usize {
    let mut n = 0;
    if depth > 0 && matches!(f.ty, LType::Ree { .. }) && f.nullable {
        f.nullable = false;
        n += 1;
    }
    match &mut f.ty {
        LType::List(c, _) | LType::FixedList(c, _) => n += fix_nested_ree(c, depth + 1),
        LType::Struct(fs) => {
            for c in fs.iter_mut() {
                n += fix_nested_ree(c, depth + 1);
            }
        }
        LType::Map { val, .. } => n += fix_nested_ree(val, depth + 1),
        _ => {}
    }
    n
}

/// known finding: the Avro RunEncodedEncoder only scans forward, so a run-end encoded child of a ListView (whose
/// child ranges may be visited in any order) is written wrongly: list-views above a run-end column become lists
pub fn fix_listview_ree(f: &mut LField) -> usize {
    fn strip(ty: &mut LType) {
        match ty {
            LType::List(c, e) => {
                *e = match *e {
                    ListEnc::V32 => ListEnc::O32,
                    ListEnc::V64 => ListEnc::O64,
                    x => x,
                };
                strip(&mut c.ty);
            }
            LType::FixedList(c, _) => strip(&mut c.ty),
            LType::Struct(fs) => fs.iter_mut().for_each(|c| strip(&mut c.ty)),
            LType::Map { val, .. } => strip(&mut val.ty),
            _ => {}
        }
    }
    let hit = f.ty.any(&|x| matches!(x, LType::List(c, ListEnc::V32 | ListEnc::V64) if c.ty.any(&|y| matches!(y, LType::Ree { .. }))));
    if hit {
        strip(&mut f.ty);
        1
    } else {
        0
    }
}

/// restrict generated values to what the writer documents as encodable
pub fn avro_fix_leaf(ty: &LType, v: &LValue) -> LValue {
    match (ty, v) {
        (LType::Int { bits: 64, signed: false }, LValue::Int(i)) => LValue::Int(*i & (i64::MAX as i128)),
        (LType::IntervalYM, LValue::Int(i)) => LValue::Int((*i).unsigned_abs().min(i32::MAX as u128) as i128),
        (LType::IntervalDT, LValue::DayTime(d, ms)) => LValue::DayTime((*d as i64).abs().min(i32::MAX as i64) as i32, (*ms as i64).abs().min(i32::MAX as i64) as i32),
        (LType::IntervalMDN, LValue::MonthDayNano(m, d, n)) => {
            let ms = ((*n as i128).unsigned_abs() % (u32::MAX as u128 + 1)) as i64;
            LValue::MonthDayNano((*m as i64).abs().min(i32::MAX as i64) as i32, (*d as i64).abs().min(i32::MAX as i64) as i32, ms * 1_000_000)
        }
        (_, x) => x.clone(),
    }
}

/// the Arrow type arrow-avro's reader returns for data written from `ty` (default cargo features: no
/// `avro_custom_types`, no `small_decimals`); None = not in the round-trip grid
pub fn rb_type(ty: &LType, utf8view: bool) -> LType {
    use LType::*;
    let f = |x: &LField| Box::new(LField { name: x.name.clone(), ty: rb_type(&x.ty, utf8view), nullable: x.nullable });
    match ty {
        Int { bits: 8 | 16, .. } => Int { bits: 32, signed: true },
        Int { bits: 32, signed: false } | Int { bits: 64, signed: false } => Int { bits: 64, signed: true },
        F16 => F32,
        Decimal { width: _, p, s } => Decimal { width: if *p <= 38 { 128 } else { 256 }, p: *p, s: *s },
        Date64 => Timestamp(Unit::Ms, Option::None),
        Time32(Unit::S) => Time32(Unit::Ms),
        Time64(Unit::Ns) => Time64(Unit::Us),
        Timestamp(u, tz) => Timestamp(if *u == Unit::S { Unit::Ms } else { u.clone() }, tz.as_ref().map(|_| "+00:00".to_string())),
        Duration(_) => Int { bits: 64, signed: true },
        IntervalYM | IntervalDT | IntervalMDN => IntervalMDN,
        Utf8(_) => Utf8(if utf8view { Enc::View } else { Enc::O32 }),
        Binary(_) => Binary(Enc::O32),
        List(x, _) => List(f(x), ListEnc::O32),
        FixedList(x, _) => List(f(x), ListEnc::O32),
        Struct(fs) => Struct(fs.iter().map(|x| *f(x)).collect()),
        // map keys stay Utf8 even with with_utf8_view
        Map { key, val, .. } => Map { key: Box::new(LField { name: key.name.clone(), ty: Utf8(Enc::O32), nullable: false }), val: f(val), sorted: false },
        Ree { value, .. } => rb_type(&value.ty, utf8view),
        t => t.clone(),
    }
}

/// the value the reader returns for `v` written as `ty`
pub fn rb_value(ty: &LType, v: &LValue) -> LValue {
    transform(ty, v, &mut |t, x| match (t, x) {
        (LType::F16, LValue::F16(b)) => LValue::F32(half::f16::from_bits(*b).to_f32().to_bits()),
        // Decimal256 with precision <= 38 comes back as Decimal128
        (LType::Decimal { width: 256, p, .. }, LValue::Big(b)) if *p <= 38 => LValue::Int(i128::from_le_bytes(b[..16].try_into().unwrap())),
        (LType::Time32(Unit::S), LValue::Int(i)) => LValue::Int(i * 1000),
        (LType::Time64(Unit::Ns), LValue::Int(i)) => LValue::Int(i / 1000),
        (LType::Timestamp(Unit::S, _), LValue::Int(i)) => LValue::Int(i * 1000),
        (LType::IntervalYM, LValue::Int(i)) => LValue::MonthDayNano(*i as i32, 0, 0),
        (LType::IntervalDT, LValue::DayTime(d, ms)) => LValue::MonthDayNano(0, *d, *ms as i64 * 1_000_000),
        (_, x) => x.clone(),
    })
}

/// order-insensitive comparison form: map entries sorted by key (apache-avro keeps maps in a HashMap)
pub fn sort_maps(v: &LValue) -> LValue {
    match v {
        LValue::List(xs) => LValue::List(xs.iter().map(sort_maps).collect()),
        LValue::Struct(xs) => LValue::Struct(xs.iter().map(sort_maps).collect()),
        LValue::Map(es) => {
            let mut e: Vec<(LValue, LValue)> = es.iter().map(|(k, x)| (k.clone(), sort_maps(x))).collect();
            e.sort_by(|a, b| format!("{:?}", a.0).cmp(&format!("{:?}", b.0)));
            LValue::Map(e)
        }
        x => x.clone(),
    }
}

/// remove duplicate map keys (first occurrence wins)
pub fn dedup_map_keys(ty: &LType, v: &LValue) -> LValue {
    if v.is_null() {
        return LValue::Null;
    }
    match (ty, v) {
        (LType::List(f, _), LValue::List(xs)) | (LType::FixedList(f, _), LValue::List(xs)) => LValue::List(xs.iter().map(|x| dedup_map_keys(&f.ty, x)).collect()),
        (LType::Struct(fs), LValue::Struct(xs)) => LValue::Struct(fs.iter().zip(xs).map(|(f, x)| dedup_map_keys(&f.ty, x)).collect()),
        (LType::Map { val, .. }, LValue::Map(es)) => {
            let mut out: Vec<(LValue, LValue)> = vec![];
            for (k, x) in es {
                if !out.iter().any(|(k2, _)| k2 == k) {
                    out.push((k.clone(), dedup_map_keys(&val.ty, x)));
                }
            }
            LValue::Map(out)
        }
        (LType::Ree { value, .. }, x) => dedup_map_keys(&value.ty, x),
        (_, x) => x.clone(),
    }
}

fn be_bytes_of_decimal(v: &LValue) -> Vec<u8> {
    match v {
        LValue::Int(i) => i.to_be_bytes().to_vec(),
        LValue::Big(b) => b.iter().rev().copied().collect(),
        _ => vec![],
    }
}

/// Build the apache-avro value for logical value `v` of (read-back) type `ty` at a site with Avro schema `s`.
pub fn to_apache(s: &AS, ty: &LType, v: &LValue, special: &Special) -> Result<AV, String> {
    if let AS::Union(u) = s {
        let vars = u.variants();
        let null_idx = vars.iter().position(|x| matches!(x, AS::Null));
        if v.is_null() {
            let i = null_idx.ok_or("null value at a union without null branch")?;
            return Ok(AV::Union(i as u32, Box::new(AV::Null)));
        }
        let (i, inner) = vars.iter().enumerate().find(|(_, x)| !matches!(x, AS::Null)).ok_or("union without value branch")?;
        return Ok(AV::Union(i as u32, Box::new(to_apache(inner, ty, v, special)?)));
    }
    if v.is_null() {
        return match s {
            AS::Null => Ok(AV::Null),
            _ => Err(format!("null value at non-nullable site {:?}", s)),
        };
    }
    Ok(match (s, ty, v) {
        (AS::Boolean, _, LValue::Bool(b)) => AV::Boolean(*b),
        (AS::Int, _, LValue::Int(i)) => AV::Int(*i as i32),
        (AS::Long, _, LValue::Int(i)) => AV::Long(*i as i64),
        (AS::Float, _, LValue::F32(b)) => AV::Float(f32::from_bits(*b)),
        (AS::Double, _, LValue::F64(b)) => AV::Double(f64::from_bits(*b)),
        (AS::Bytes, _, LValue::Bytes(b)) => AV::Bytes(b.clone()),
        (AS::String, _, LValue::Str(x)) => AV::String(x.clone()),
        (AS::Fixed(f), _, LValue::Bytes(b)) => AV::Fixed(f.size, b.clone()),
        (AS::Enum(e), _, LValue::Str(x)) => {
            let i = e.symbols.iter().position(|y| y == x).ok_or("symbol not in enum")?;
            AV::Enum(i as u32, x.clone())
        }
        (AS::Decimal(_), _, d) => AV::Decimal(apache_avro::Decimal::from(be_bytes_of_decimal(d))),
        (AS::Uuid(_), _, LValue::Bytes(b)) => AV::Uuid(apache_avro::Uuid::from_slice(b).map_err(|e| e.to_string())?),
        (AS::Date, _, LValue::Int(i)) => AV::Date(*i as i32),
        (AS::TimeMillis, _, LValue::Int(i)) => AV::TimeMillis(*i as i32),
        (AS::TimeMicros, _, LValue::Int(i)) => AV::TimeMicros(*i as i64),
        (AS::TimestampMillis, _, LValue::Int(i)) => AV::TimestampMillis(*i as i64),
        (AS::TimestampMicros, _, LValue::Int(i)) => AV::TimestampMicros(*i as i64),
        (AS::TimestampNanos, _, LValue::Int(i)) => AV::TimestampNanos(*i as i64),
        (AS::LocalTimestampMillis, _, LValue::Int(i)) => AV::LocalTimestampMillis(*i as i64),
        (AS::LocalTimestampMicros, _, LValue::Int(i)) => AV::LocalTimestampMicros(*i as i64),
        (AS::LocalTimestampNanos, _, LValue::Int(i)) => AV::LocalTimestampNanos(*i as i64),
        (AS::Duration(_), _, LValue::MonthDayNano(m, d, n)) => AV::Duration(apache_avro::Duration::new(
            apache_avro::Months::new(*m as u32),
            apache_avro::Days::new(*d as u32),
            apache_avro::Millis::new((*n / 1_000_000) as u32),
        )),
        (AS::Array(a), LType::List(f, _), LValue::List(xs)) => AV::Array(xs.iter().map(|x| to_apache(&a.items, &f.ty, x, &Special::None)).collect::<Result<Vec<_>, _>>()?),
        (AS::Map(m), LType::Map { val, .. }, LValue::Map(es)) => {
            let mut h = HashMap::new();
            for (k, x) in es {
                let LValue::Str(k) = k else { return Err("map key is not a string".into()) };
                h.insert(k.clone(), to_apache(&m.types, &val.ty, x, &Special::None)?);
            }
            AV::Map(h)
        }
        (AS::Record(r), LType::Struct(fs), LValue::Struct(xs)) => {
            if r.fields.len() != fs.len() {
                return Err(format!("record has {} fields, struct {}", r.fields.len(), fs.len()));
            }
            let mut out = vec![];
            for ((rf, f), x) in r.fields.iter().zip(fs).zip(xs) {
                out.push((rf.name.clone(), to_apache(&rf.schema, &f.ty, x, &Special::None)?));
            }
            AV::Record(out)
        }
        (s, t, v) => return Err(format!("no apache-avro value for schema {:?} / type {:?} / value {}", s, t, v.short())),
    })
}

/// equality of apache-avro values with floats compared by bit pattern
pub fn avro_eq(a: &AV, b: &AV) -> bool {
    match (a, b) {
        (AV::Float(x), AV::Float(y)) => x.to_bits() == y.to_bits(),
        (AV::Double(x), AV::Double(y)) => x.to_bits() == y.to_bits(),
        (AV::Union(i, x), AV::Union(j, y)) => i == j && avro_eq(x, y),
        (AV::Array(x), AV::Array(y)) => x.len() == y.len() && x.iter().zip(y).all(|(p, q)| avro_eq(p, q)),
        (AV::Map(x), AV::Map(y)) => x.len() == y.len() && x.iter().all(|(k, p)| y.get(k).is_some_and(|q| avro_eq(p, q))),
        (AV::Record(x), AV::Record(y)) => x.len() == y.len() && x.iter().zip(y).all(|(p, q)| p.0 == q.0 && avro_eq(&p.1, &q.1)),
        (x, y) => x == y,
    }
}

/// move "null" to the second position at (some of) the two-branch nullable unions of an Avro schema JSON
pub fn swap_null_order(t: &mut Tape, v: &mut serde_json::Value, all: bool) -> usize {
    let mut n = 0;
    match v {
        serde_json::Value::Array(a) => {
            if a.len() == 2 && a[0] == serde_json::Value::String("null".into()) && a[1] != serde_json::Value::String("null".into()) && (all || t.bool()) {
                a.swap(0, 1);
                n += 1;
            }
            for x in a.iter_mut() {
                n += swap_null_order(t, x, all);
            }
        }
        serde_json::Value::Object(o) => {
            for (_, x) in o.iter_mut() {
                n += swap_null_order(t, x, all);
            }
        }
        _ => {}
    }
    n
}

// ------------------------------------------------------------------------------------------------ RFC 4180 renderer
pub struct Rfc4180 {
    pub crlf: bool,
    pub final_break: bool,
}
/// render records per RFC 4180: fields containing `"`, `,`, CR or LF are enclosed in double quotes with `"` doubled;
/// other fields are enclosed or not at random (`force_quote` = must be enclosed for another reason)
pub fn render_rfc4180(t: &mut Tape, records: &[Vec<String>], o: &Rfc4180, quoted_log: &mut usize) -> Vec<u8> {
    let mut out = String::new();
    for (ri, r) in records.iter().enumerate() {
        for (i, f) in r.iter().enumerate() {
            if i > 0 {
                out.push(',');
            }
            let must = f.contains('"') || f.contains(',') || f.contains('\r') || f.contains('\n') || (r.len() == 1 && f.is_empty());
            if must || t.chance(70) {
                *quoted_log += 1;
                out.push('"');
                out.push_str(&f.replace('"', "\"\""));
                out.push('"');
            } else {
                out.push_str(f);
            }
        }
        if ri + 1 < records.len() || o.final_break {
            out.push_str(if o.crlf { "\r\n" } else { "\n" });
        }
    }
    out.into_bytes()
}

// ------------------------------------------------------------------------------------------------ RFC 8259 renderer
#[derive(Clone, Debug)]
pub enum J {
    Null,
    Bool(bool),
    /// number with its exact spelling
    Num(String),
    Str(String),
    Arr(Vec<J>),
    /// members in rendering order
    Obj(Vec<(String, J)>),
}

pub fn json_ws(t: &mut Tape, out: &mut String) {
    if t.chance(150) {
        return;
    }
    let n = 1 + t.below(3);
    for _ in 0..n {
        out.push(*t.pick(&[' ', '\n', '\t', '\r', ' ']));
    }
}

/// a JSON string literal for `s` with random (legal) escape spellings
pub fn render_json_string(t: &mut Tape, s: &str, out: &mut String, escapes: &mut usize) {
    out.push('"');
    let style = t.below(4); // 0: minimal, 1: mixed, 2: everything \u, 3: mixed
    for ch in s.chars() {
        let c = ch as u32;
        let must = c < 0x20 || ch == '"' || ch == '\\';
        let esc = must || match style {
            0 => false,
            2 => true,
            _ => t.chance(70),
        };
        if !esc {
            out.push(ch);
            continue;
        }
        *escapes += 1;
        let short: Option<&str> = match ch {
            '"' => Some("\\\""),
            '\\' => Some("\\\\"),
            '/' => Some("\\/"),
            '\u{8}' => Some("\\b"),
            '\u{c}' => Some("\\f"),
            '\n' => Some("\\n"),
            '\r' => Some("\\r"),
            '\t' => Some("\\t"),
            _ => None,
        };
        if let Some(sh) = short {
            if style != 2 && t.bool() {
                out.push_str(sh);
                continue;
            }
        }
        let upper = t.bool();
        let hex = |u: u32, out: &mut String| {
            if upper {
                out.push_str(&format!("\\u{:04X}", u));
            } else {
                out.push_str(&format!("\\u{:04x}", u));
            }
        };
        if c >= 0x10000 {
            let v = c - 0x10000;
            hex(0xD800 + (v >> 10), out);
            hex(0xDC00 + (v & 0x3ff), out);
        } else {
            hex(c, out);
        }
    }
    out.push('"');
}

pub fn render_json(t: &mut Tape, j: &J, out: &mut String, escapes: &mut usize) {
    match j {
        J::Null => out.push_str("null"),
        J::Bool(b) => out.push_str(if *b { "true" } else { "false" }),
        J::Num(s) => out.push_str(s),
        J::Str(s) => render_json_string(t, s, out, escapes),
        J::Arr(xs) => {
            out.push('[');
            json_ws(t, out);
            for (i, x) in xs.iter().enumerate() {
                if i > 0 {
                    out.push(',');
                    json_ws(t, out);
                }
                render_json(t, x, out, escapes);
                json_ws(t, out);
            }
            out.push(']');
        }
        J::Obj(ms) => {
            out.push('{');
            json_ws(t, out);
            for (i, (k, x)) in ms.iter().enumerate() {
                if i > 0 {
                    out.push(',');
                    json_ws(t, out);
                }
                render_json_string(t, k, out, escapes);
                json_ws(t, out);
                out.push(':');
                json_ws(t, out);
                render_json(t, x, out, escapes);
                json_ws(t, out);
            }
            out.push('}');
        }
    }
}

/// spelling of the integer `v` (|v| <= 2^53 for the non-plain spellings, so that a reader that falls back to
/// double precision still sees the exact value)
pub fn spell_int(t: &mut Tape, v: i128) -> String {
    let small = v.unsigned_abs() <= (1u128 << 53);
    let k = if small { t.below(9) } else { 0 };
    let e = |t: &mut Tape| *t.pick(&["e", "E"]);
    match k {
        0 | 1 => format!("{}", v),
        2 => format!("{}.0", v),
        3 => format!("{}.{}", v, "0".repeat(1 + t.below(30))),
        4 => format!("{}{}{}0", v, e(t), t.pick(&["", "+", "-"])),
        5 => {
            // strip trailing zeros into an exponent: 1200 -> 12E+2
            let mut m = v;
            let mut x = 0;
            while m != 0 && m % 10 == 0 && x < 20 {
                m /= 10;
                x += 1;
            }
            format!("{}{}{}{}", m, e(t), t.pick(&["", "+"]), x)
        }
        6 => {
            // move the decimal point: 125 -> 1.25e2 / 12.5E+1
            let neg = v < 0;
            let digits = format!("{}", v.unsigned_abs());
            if digits.len() < 2 {
                return format!("{}", v);
            }
            let cut = 1 + t.below(digits.len() - 1);
            let (a, b) = digits.split_at(cut);
            format!("{}{}.{}{}{}{}", if neg { "-" } else { "" }, a, b, e(t), t.pick(&["", "+"]), b.len())
        }
        7 if v == 0 => "-0".to_string(),
        7 => format!("{}", v),
        _ => {
            // scaled up mantissa with a negative exponent: 5 -> 500e-2
            if v == 0 {
                return "0E-3".to_string();
            }
            let z = 1 + t.below(4);
            format!("{}{}{}-{}", v, "0".repeat(z), e(t), z)
        }
    }
}

/// an arbitrary RFC 8259 number spelling whose value is a finite double
pub fn spell_float(t: &mut Tape) -> String {
    let mut s = String::new();
    if t.chance(100) {
        s.push('-');
    }
    let digits = |t: &mut Tape, n: usize, s: &mut String| {
        for _ in 0..n {
            s.push((b'0' + t.below(10) as u8) as char);
        }
    };
    match t.below(4) {
        0 => s.push('0'),
        _ => {
            s.push((b'1' + t.below(9) as u8) as char);
            let n = match t.below(4) {
                0 => 0,
                1 => t.below(20),
                _ => t.below(4),
            };
            digits(t, n, &mut s);
        }
    }
    if t.bool() {
        s.push('.');
        let n = 1 + match t.below(4) {
            0 => t.below(30),
            _ => t.below(5),
        };
        digits(t, n, &mut s);
    }
    if t.chance(100) {
        s.push(*t.pick(&['e', 'E']));
        s.push_str(*t.pick(&["", "+", "-"]));
        let neg = s.ends_with('-');
        let x = match t.below(4) {
            0 => t.below(if neg { 330 } else { 280 }),
            _ => t.below(25),
        };
        if t.chance(40) {
            s.push('0');
        }
        s.push_str(&format!("{}", x));
    }
    s
}
