//! C17 Avro sub-checks: (c) arrow-avro round trip, (f) cross-implementation agreement with apache-avro 0.22.
use super::g::*;
use super::io::*;
use super::*;
use apache_avro::types::Value as AV;
use arrow_array::{DictionaryArray, Int32Array, StringArray};

pub struct AvroCase {
    pub fields: Vec<LField>,
    pub specials: Vec<Special>,
    pub schema: SchemaRef,
    pub cols: LBatch,
    pub rows: usize,
    pub depth: u32,
}

/// known finding: with_utf8_view(true) reads null strings as empty strings
fn has_null_string(ac: &AvroCase) -> bool {
    ac.fields.iter().zip(&ac.specials).zip(&ac.cols).any(|((f, sp), col)| {
        col.iter().any(|v| (*sp == Special::Uuid && v.is_null()) || any_value(&f.ty, v, &|ty, x| x.is_null() && matches!(ty.denoted(), LType::Utf8(_))))
    })
}

fn type_depth(ty: &LType) -> u32 {
    match ty {
        LType::List(f, _) | LType::FixedList(f, _) => 1 + type_depth(&f.ty),
        LType::Struct(fs) => 1 + fs.iter().map(|f| type_depth(&f.ty)).max().unwrap_or(0),
        LType::Map { val, .. } => 1 + type_depth(&val.ty),
        _ => 0,
    }
}

/// schema + logical columns for the Avro legs; `cross` = restricted to what apache-avro can represent/compare
pub fn gen_avro_case(c: &mut Case, cross: bool) -> AvroCase {
    let ncols = 1 + c.tape.below(4);
    let mut fields = vec![];
    let mut specials = vec![];
    for i in 0..ncols {
        let name = format!("c{}", i);
        match c.tape.below(12) {
            0 => {
                let n = 1 + c.tape.below(ENUM_SYMBOLS.len());
                fields.push(LField { name, ty: LType::Dict { kbits: 32, ksigned: true, value: Box::new(LType::Utf8(Enc::O32)) }, nullable: c.tape.bool() });
                specials.push(Special::Enum(n));
            }
            1 => {
                fields.push(LField { name, ty: LType::FixedBinary(16), nullable: c.tape.bool() });
                specials.push(Special::Uuid);
            }
            _ => {
                let mut f = gen_avro_field(&mut c.tape, 0, &name, cross);
                if !c.strict {
                    for _ in 0..fix_nested_ree(&mut f, 0) {
                        c.exclude("avro-nested-nullable-runend");
                    }
                    for _ in 0..fix_listview_ree(&mut f) {
                        c.exclude("avro-listview-runend");
                    }
                }
                fields.push(f);
                specials.push(Special::None);
            }
        }
    }
    let rows = gen_rows(&mut c.tape);
    let long = c.tape.chance(80);
    if long {
        c.class("long-values");
    }
    let vcfg = ValCfg { nan: true, max_str: if long { 1100 } else { 16 }, max_list: 4, ..ValCfg::default() };
    let mut cols: LBatch = vec![];
    for (f, sp) in fields.iter().zip(&specials) {
        let col: Vec<LValue> = match sp {
            Special::Enum(n) => (0..rows).map(|_| if f.nullable && c.tape.chance(50) { LValue::Null } else { LValue::Str(ENUM_SYMBOLS[c.tape.below(*n)].to_string()) }).collect(),
            _ => {
                let raw = gen_column(&mut c.tape, &f.ty, f.nullable, rows, &vcfg);
                raw.iter()
                    .map(|v| {
                        let t = &mut c.tape;
                        let v = transform(&f.ty, v, &mut |ty, x| match (ty, x) {
                            (LType::Utf8(_), LValue::Str(_)) if t.chance(40) => LValue::Str(nasty_string(t, &[], 10)),
                            _ => avro_fix_leaf(ty, x),
                        });
                        if cross { dedup_map_keys(&f.ty, &v) } else { v }
                    })
                    .collect()
            }
        };
        cols.push(col);
    }
    let depth = fields.iter().map(|f| type_depth(&f.ty)).max().unwrap_or(0);
    let afields: Vec<Field> = fields
        .iter()
        .zip(&specials)
        .map(|(f, sp)| {
            let fld = f.arrow();
            match sp {
                Special::Enum(n) => fld.with_metadata(HashMap::from([(arrow_avro::schema::AVRO_ENUM_SYMBOLS_METADATA_KEY.to_string(), serde_json::to_string(&ENUM_SYMBOLS[..*n]).unwrap())])),
                Special::Uuid => fld.with_metadata(HashMap::from([("logicalType".to_string(), "uuid".to_string())])),
                Special::None => fld,
            }
        })
        .collect();
    AvroCase { fields, specials, schema: Arc::new(Schema::new(afields)), cols, rows, depth }
}

/// the engine's realiser occasionally panics on run-end layouts (engine issue, reported): such cases are skipped
fn realise_all(c: &mut Case, ac: &AvroCase, schema: &SchemaRef, splits: &[(usize, usize)], lay: &Lay) -> Option<Vec<RecordBatch>> {
    let mut lay = lay.clone();
    if lay.fancy && !c.strict {
        let bool_child = ac.fields.iter().any(|f| {
            f.ty.any(&|x| match x {
                LType::List(c, _) | LType::FixedList(c, _) => matches!(c.ty, LType::Bool),
                LType::Map { val, .. } => matches!(val.ty, LType::Bool),
                _ => false,
            })
        });
        if bool_child {
            // known finding: list/map encoders subtract Array::offset() of the child (non-zero for a BooleanArray whose
            // bitmap starts at a bit offset) from the element index
            c.exclude("avro-child-array-offset");
            lay = Lay::plain();
        } else if ac.fields.iter().any(|f| f.ty.any(&|x| matches!(x, LType::Ree { .. }))) {
            // known finding: the Avro RunEncodedEncoder ignores the offset of a sliced RunArray
            c.exclude("avro-sliced-runend");
            lay.slice_chance = 0;
        }
    }
    let lay = &lay;
    let t = &mut c.tape;
    match catch(|| splits.iter().map(|(s, n)| realise_avro(t, ac, schema, *s, *n, lay)).collect::<Vec<_>>()) {
        Ok(b) => Some(b),
        Err(p) => {
            if std::env::var("C17_REPORT_PANIC").is_ok() {
                eprintln!("ENGINE-REALISE-PANIC {} {} fields={:?} splits={:?} lay={:?}", p.loc, p.msg, ac.fields, splits, lay);
            }
            c.class("skipped:engine-realise-panic");
            None
        }
    }
}

fn realise_avro(t: &mut Tape, ac: &AvroCase, schema: &SchemaRef, s: usize, n: usize, lay: &Lay) -> RecordBatch {
    let mut arrays: Vec<ArrayRef> = vec![];
    for ((f, sp), col) in ac.fields.iter().zip(&ac.specials).zip(&ac.cols) {
        let part = &col[s..s + n];
        match sp {
            Special::Enum(k) => {
                // dictionary must equal the declared symbol list (writer precondition)
                let keys: Int32Array = part
                    .iter()
                    .map(|v| match v {
                        LValue::Str(x) => Some(ENUM_SYMBOLS.iter().position(|y| y == x).unwrap() as i32),
                        _ => None,
                    })
                    .collect();
                let values = StringArray::from(ENUM_SYMBOLS[..*k].to_vec());
                arrays.push(Arc::new(DictionaryArray::try_new(keys, Arc::new(values)).unwrap()));
            }
            _ => arrays.push(realise(t, &f.ty, part, f.nullable, lay)),
        }
    }
    batch_with_rows(schema, arrays, n)
}

fn classes(c: &mut Case, ac: &AvroCase) {
    for (f, sp) in ac.fields.iter().zip(&ac.specials) {
        match sp {
            Special::Enum(_) => c.class("enum"),
            Special::Uuid => c.class("uuid"),
            Special::None => c.class(format!("family:{}", f.ty.family())),
        }
        if f.ty.any(&|x| matches!(x, LType::Map { .. })) {
            c.class("has:map");
        }
        if f.ty.any(&|x| matches!(x, LType::Decimal { .. })) {
            c.class("has:decimal");
        }
        if f.ty.any(&|x| matches!(x, LType::IntervalYM | LType::IntervalDT | LType::IntervalMDN)) {
            c.class("has:interval");
        }
        if f.ty.any(&|x| matches!(x, LType::Timestamp(..) | LType::Date64)) {
            c.class("has:timestamp");
        }
    }
    c.class(format!("depth:{}", ac.depth.min(3)));
    if ac.rows == 0 {
        c.class("rows:0");
    }
}

fn expected(ac: &AvroCase, utf8view: bool) -> (Vec<LField>, LBatch) {
    let fields: Vec<LField> = ac
        .fields
        .iter()
        .zip(&ac.specials)
        .map(|(f, sp)| match sp {
            Special::None => LField { name: f.name.clone(), ty: rb_type(&f.ty, utf8view), nullable: f.nullable },
            _ => f.clone(),
        })
        .collect();
    let cols = ac
        .fields
        .iter()
        .zip(&ac.specials)
        .zip(&ac.cols)
        .map(|((f, sp), col)| {
            col.iter()
                .map(|v| match (sp, v) {
                    // reader choice: with_utf8_view(true) a `string`/uuid column is read as its text form (Utf8View)
                    (Special::Uuid, LValue::Bytes(b)) if utf8view => LValue::Str(apache_avro::Uuid::from_slice(b).unwrap().hyphenated().to_string()),
                    _ => rb_value(&f.ty, v),
                })
                .collect()
        })
        .collect();
    (fields, cols)
}

/// writer schema: either the Arrow schema as is, or with a verbatim `avro.schema` entry whose nullable unions are
/// (partly) null-second
fn with_null_second(c: &mut Case, schema: &SchemaRef, arrow_ocf: bool) -> Result<(SchemaRef, String, usize), Fail> {
    let js = avro_schema_json(schema.as_ref()).map_err(|e| Fail::new("avro:schema:err", format!("Arrow schema inside the committed grid has no Avro schema: {}", e)))?;
    if c.tape.chance(150) {
        return Ok((schema.clone(), js, 0));
    }
    if arrow_ocf && !c.strict {
        // known finding: the OCF header does not advertise a user-supplied avro.schema (body and header disagree)
        c.exclude("avro-ocf-custom-schema-header");
        return Ok((schema.clone(), js, 0));
    }
    let mut v: serde_json::Value = serde_json::from_str(&js).map_err(|e| Fail::new("avro:schema:json", e.to_string()))?;
    let all = c.tape.bool();
    let n = swap_null_order(&mut c.tape, &mut v, all);
    let js2 = serde_json::to_string(&v).unwrap();
    let mut md = schema.metadata().clone();
    md.insert(arrow_avro::schema::SCHEMA_METADATA_KEY.to_string(), js2.clone());
    Ok((Arc::new(Schema::new_with_metadata(schema.fields().clone(), md)), js2, n))
}

fn gen_framing(t: &mut Tape) -> AvroFraming {
    match t.below(8) {
        0..=3 => AvroFraming::Ocf,
        4 | 5 => AvroFraming::SoeRabin,
        6 => AvroFraming::Confluent(*t.pick(&[7u32, 0, 1, u32::MAX, 0x01020304])),
        _ => AvroFraming::Apicurio(*t.pick(&[7u64, 0, u64::MAX, 0x0102030405060708])),
    }
}

fn gen_codec(t: &mut Tape) -> AvroCodec {
    // the compressing codecs set up a fresh encoder per block (xz/zstd/bzip2 are expensive): weighted towards the cheap ones
    *t.pick(&[AvroCodec::None, AvroCodec::None, AvroCodec::None, AvroCodec::Deflate, AvroCodec::Deflate, AvroCodec::Snappy, AvroCodec::Snappy, AvroCodec::Zstd, AvroCodec::Bzip2, AvroCodec::Xz])
}

fn check_types(got: &SchemaRef, want: &[LField], specials: &[Special], what: &str, utf8view: bool) -> CaseResult {
    ensure!(got.fields().len() == want.len(), format!("{}:columns", what), "reader returned {} columns, expected {}", got.fields().len(), want.len());
    for ((g, w), sp) in got.fields().iter().zip(want).zip(specials) {
        ensure!(g.name() == &w.name, format!("{}:name", what), "column name {:?} expected {:?}", g.name(), w.name);
        ensure!(g.is_nullable() == w.nullable, format!("{}:nullable", what), "column {} nullable={} expected {}", w.name, g.is_nullable(), w.nullable);
        match sp {
            Special::Enum(_) => ensure!(matches!(g.data_type(), DataType::Dictionary(..)), format!("{}:type", what), "enum column read as {}", g.data_type()),
            Special::Uuid if utf8view => ensure!(matches!(g.data_type(), DataType::Utf8View), format!("{}:type", what), "uuid column read as {} with with_utf8_view", g.data_type()),
            Special::Uuid => ensure!(matches!(g.data_type(), DataType::FixedSizeBinary(16)), format!("{}:type", what), "uuid column read as {}", g.data_type()),
            Special::None => {
                let gt = LType::from_arrow(g.data_type());
                ensure!(gt.as_ref() == Some(&w.ty), format!("{}:type", what), "column {} read as {} expected {}", w.name, g.data_type(), w.ty.arrow());
            }
        }
    }
    Ok(())
}

fn describe(c: &mut Case, ac: &AvroCase, o: &AvroOpts, extra: serde_json::Value) {
    c.describe(json!({"opts": o.json(), "fields": ac.fields.iter().zip(&ac.specials).map(|(f, sp)| format!("{}: {}{} {:?}", f.name, f.ty.arrow(), if f.nullable {"?"} else {""}, sp)).collect::<Vec<_>>(),
        "rows": ac.rows, "cols": ac.cols.iter().map(|x| short_vec(x)).collect::<Vec<_>>(), "extra": extra}));
}

pub fn sub_avro(c: &mut Case) -> CaseResult {
    if std::env::var("C17_NOSTRICT").is_ok() {
        c.strict = false; // debugging aid: replay a recorded case with the generator exclusions still active
    }
    let ac = gen_avro_case(c, false);
    let mut o = AvroOpts::default();
    o.framing = gen_framing(&mut c.tape);
    o.codec = if o.framing == AvroFraming::Ocf { gen_codec(&mut c.tape) } else { AvroCodec::None };
    o.utf8view = c.tape.chance(64);
    if o.utf8view && !c.strict && has_null_string(&ac) {
        c.exclude("avro-utf8view-null-string");
        o.utf8view = false;
    }
    o.capacity = *c.tape.pick(&[1024usize, 0, 1, 16]);
    let (wschema, avro_json, swapped) = with_null_second(c, &ac.schema, o.framing == AvroFraming::Ocf)?;
    o.strict = swapped == 0 && c.tape.chance(64);
    let use_encoder = o.framing != AvroFraming::Ocf && c.tape.bool();
    let splits = split_rows(&mut c.tape, ac.rows);
    let lay = if c.tape.bool() { Lay::fancy() } else { Lay::plain() };
    let Some(batches) = realise_all(c, &ac, &wschema, &splits, &lay) else { return Ok(()) };
    let bs = batch_size_for(&mut c.tape, ac.rows);
    // the push decoder is fed whole messages only (chunk boundaries inside a message belong to property C14)
    let group = if c.tape.bool() { 0 } else { 1 + c.tape.below(3) };
    let mut chunks: Vec<usize> = vec![];
    classes(c, &ac);
    c.class(format!("codec:{:?}", o.codec));
    c.class(match o.framing {
        AvroFraming::Ocf => "framing:ocf",
        AvroFraming::SoeRabin => "framing:soe",
        AvroFraming::Confluent(_) => "framing:confluent",
        AvroFraming::Apicurio(_) => "framing:apicurio",
    });
    if swapped > 0 {
        c.class("null-second");
    }
    if o.utf8view {
        c.class("utf8view");
    }
    if use_encoder {
        c.class("row-encoder");
    }
    let nullable_union = ac.fields.iter().any(|f| f.nullable || f.ty.any(&|x| matches!(x, LType::List(f, _) | LType::FixedList(f, _) if f.nullable)));
    describe(c, &ac, &o, json!({"splits": splits, "batch_size": bs, "messages_per_chunk": group, "null_second_sites": swapped, "row_encoder": use_encoder, "avro_schema": avro_json}));
    if ac.rows > 0 && (nullable_union || ac.depth > 0) && (o.framing != AvroFraming::Ocf || o.codec != AvroCodec::None || swapped > 0) {
        c.nontrivial();
    }
    let (want_fields, want) = expected(&ac, o.utf8view);
    let (rs, out) = if o.framing == AvroFraming::Ocf {
        let bytes = match no_panic("avro:write", || avro_write_ocf(wschema.as_ref(), &batches, &o))? {
            Ok(b) => b,
            Err(e) => fail!("avro:write:err", "OCF writer rejected a batch inside the committed grid: {}", e),
        };
        match no_panic("avro:read", || avro_read_ocf(&bytes, &o, bs))? {
            Ok(x) => x,
            Err(e) if e.starts_with(HANG) => fail!("avro:read:hang", "{} on the writer's output", e),
            Err(e) => fail!("avro:read:err", "OCF reader failed on the writer's output ({} bytes): {}", bytes.len(), e),
        }
    } else {
        let bytes = if use_encoder {
            match no_panic("avro:encode", || avro_encode_rows(wschema.as_ref(), &batches, &o))? {
                Ok(rows) => {
                    ensure!(rows.len() == ac.rows, "avro:encoder:rows", "row encoder produced {} messages for {} rows", rows.len(), ac.rows);
                    if group > 0 {
                        chunks = rows.chunks(group).map(|g| g.iter().map(|m| m.len()).sum()).collect();
                    }
                    rows.concat()
                }
                Err(e) => fail!("avro:write:err", "row encoder rejected a batch inside the committed grid: {}", e),
            }
        } else {
            match no_panic("avro:write", || avro_write_stream(wschema.as_ref(), &batches, &o))? {
                Ok(b) => b,
                Err(e) => fail!("avro:write:err", "stream writer rejected a batch inside the committed grid: {}", e),
            }
        };
        match no_panic("avro:decode", || avro_read_stream(&avro_json, &bytes, &o, bs, &chunks))? {
            Ok(x) => x,
            Err(e) => fail!("avro:read:err", "stream decoder failed on the writer's output ({} bytes): {}", bytes.len(), e),
        }
    };
    check_types(&rs, &want_fields, &ac.specials, "avro", o.utf8view)?;
    for b in &out {
        ensure!(b.num_rows() <= bs, "avro:batch-size", "batch of {} rows with batch_size {}", b.num_rows(), bs);
    }
    let (_, got) = collect(&rs, &out);
    if let Some(m) = first_mismatch(&want_fields, &got, &want) {
        fail!("avro:roundtrip", "{}", m);
    }
    c.evals(1);
    Ok(())
}

// ------------------------------------------------------------------------------------------------ (f) cross
fn apache_codec(c: AvroCodec) -> apache_avro::Codec {
    match c {
        AvroCodec::None => apache_avro::Codec::Null,
        AvroCodec::Deflate => apache_avro::Codec::Deflate(Default::default()),
        AvroCodec::Snappy => apache_avro::Codec::Snappy,
        AvroCodec::Zstd => apache_avro::Codec::Zstandard(Default::default()),
        AvroCodec::Bzip2 => apache_avro::Codec::Bzip2(Default::default()),
        AvroCodec::Xz => apache_avro::Codec::Xz(apache_avro::XzSettings::new(*[0u8, 1, 6].get(0).unwrap())),
    }
}

/// expected apache-avro record values for the (read-back form of the) logical batch
fn expected_apache(schema: &apache_avro::Schema, fields: &[LField], specials: &[Special], cols: &LBatch, rows: usize) -> Result<Vec<AV>, Fail> {
    let apache_avro::Schema::Record(r) = schema else { return Err(Fail::new("harness:apache-schema", "top-level Avro schema is not a record")) };
    if r.fields.len() != fields.len() {
        return Err(Fail::new("avro_cross:schema-fields", format!("Avro record has {} fields for {} columns", r.fields.len(), fields.len())));
    }
    let mut out = vec![];
    for i in 0..rows {
        let mut rec = vec![];
        for (((rf, f), sp), col) in r.fields.iter().zip(fields).zip(specials).zip(cols) {
            let v = to_apache(&rf.schema, &f.ty, &col[i], sp).map_err(|e| Fail::new("harness:to-apache", format!("column {} row {}: {}", f.name, i, e)))?;
            rec.push((rf.name.clone(), v));
        }
        out.push(AV::Record(rec));
    }
    Ok(out)
}

pub fn sub_avro_cross(c: &mut Case) -> CaseResult {
    if std::env::var("C17_NOSTRICT").is_ok() {
        c.strict = false;
    }
    let ac = gen_avro_case(c, true);
    let dir_a = c.tape.bool(); // true: arrow-avro writes, apache-avro reads
    let soe = c.tape.chance(80);
    let mut o = AvroOpts::default();
    o.codec = if soe { AvroCodec::None } else { gen_codec(&mut c.tape) };
    o.framing = if soe { AvroFraming::SoeRabin } else { AvroFraming::Ocf };
    classes(c, &ac);
    c.class(format!("codec:{:?}", o.codec));
    c.class(format!("{}:{}", if dir_a { "arrow->apache" } else { "apache->arrow" }, if soe { "soe" } else { "ocf" }));
    if dir_a {
        let (wschema, avro_json, swapped) = with_null_second(c, &ac.schema, !soe)?;
        if swapped > 0 {
            c.class("null-second");
        }
        // empty batches become OCF blocks with count 0, at which apache-avro stops reading: not generated here
        let splits: Vec<(usize, usize)> = split_rows(&mut c.tape, ac.rows).into_iter().filter(|x| x.1 > 0).collect();
        let lay = if c.tape.bool() { Lay::fancy() } else { Lay::plain() };
        let Some(batches) = realise_all(c, &ac, &wschema, &splits, &lay) else { return Ok(()) };
        describe(c, &ac, &o, json!({"direction": "arrow-avro -> apache-avro", "splits": splits, "avro_schema": avro_json}));
        if ac.rows > 0 {
            c.nontrivial();
        }
        let (want_fields, want_cols) = expected(&ac, false);
        let aschema = match apache_avro::Schema::parse_str(&avro_json) {
            Ok(s) => s,
            Err(e) => fail!("avro_cross:schema-rejected", "apache-avro rejects the writer schema produced by arrow-avro: {} ; schema {}", e, avro_json),
        };
        let want = expected_apache(&aschema, &want_fields, &ac.specials, &want_cols, ac.rows)?;
        let diag: String;
        let got: Vec<AV> = if soe {
            let msgs = match no_panic("avro:encode", || avro_encode_rows(wschema.as_ref(), &batches, &o))? {
                Ok(m) => m,
                Err(e) => fail!("avro:write:err", "row encoder rejected a batch inside the committed grid: {}", e),
            };
            // apache-avro 0.22 keeps `{"type":"int"}` un-collapsed in its canonical form when a logicalType was present, so its
            // Rabin fingerprint differs from the specification's (and arrow-avro's) for such schemas: the expected header is
            // given explicitly; agreement of the two fingerprints is checked for schemas without logical types
            let fp = arrow_rabin(&avro_json).map_err(|e| Fail::new("avro:fingerprint:err", e))?;
            if !avro_json.contains("logicalType") {
                let afp = u64::from_le_bytes(aschema.fingerprint::<apache_avro::rabin::Rabin>().bytes[..8].try_into().unwrap());
                ensure!(afp == fp, "avro_cross:fingerprint", "CRC-64-AVRO fingerprint of {} : arrow-avro {} apache-avro {}", avro_json, fp, afp);
                c.class("fingerprint-compared");
            }
            let mut header = vec![0xC3u8, 0x01];
            header.extend_from_slice(&fp.to_le_bytes());
            diag = match avro_read_stream(&avro_json, &msgs.concat(), &o, 1024, &[]) {
                Ok((rs, out)) => match first_mismatch(&want_fields, &collect(&rs, &out).1, &want_cols) {
                    None => "arrow-avro's decoder returns the written values".to_string(),
                    Some(m) => format!("arrow-avro's decoder also deviates: {}", m),
                },
                Err(e) => format!("arrow-avro's decoder fails: {}", e),
            };
            let rd = apache_avro::GenericSingleObjectReader::builder().schema(aschema.clone()).header(header).build().map_err(|e| Fail::new("harness:apache-soe-reader", e.to_string()))?;
            let mut v = vec![];
            for (i, m) in msgs.iter().enumerate() {
                match rd.read_value(&mut &m[..]) {
                    Ok(x) => v.push(x),
                    Err(e) => fail!("avro_cross:apache-read", "apache-avro cannot decode single-object message {} ({} bytes) written by arrow-avro: {}", i, m.len(), e),
                }
            }
            v
        } else {
            let bytes = match no_panic("avro:write", || avro_write_ocf(wschema.as_ref(), &batches, &o))? {
                Ok(b) => b,
                Err(e) => fail!("avro:write:err", "OCF writer rejected a batch inside the committed grid: {}", e),
            };
            // third opinion for the failure message: what arrow-avro's own reader makes of the same file
            diag = match avro_read_ocf(&bytes, &o, 1024) {
                Ok((rs, out)) => match first_mismatch(&want_fields, &collect(&rs, &out).1, &want_cols) {
                    None => "arrow-avro's reader returns the written values".to_string(),
                    Some(m) => format!("arrow-avro's reader also deviates: {}", m),
                },
                Err(e) => format!("arrow-avro's reader fails: {}", e),
            };
            let rd = match apache_avro::Reader::new(&bytes[..]) {
                Ok(r) => r,
                Err(e) => fail!("avro_cross:apache-open", "apache-avro cannot open the OCF file written by arrow-avro: {}", e),
            };
            let mut v = vec![];
            for x in rd {
                match x {
                    Ok(x) => v.push(x),
                    Err(e) => fail!("avro_cross:apache-read", "apache-avro fails on the OCF file written by arrow-avro after {} records: {}", v.len(), e),
                }
            }
            v
        };
        ensure!(got.len() == want.len(), "avro_cross:rows", "apache-avro read {} records, {} were written", got.len(), want.len());
        for (i, (g, w)) in got.iter().zip(&want).enumerate() {
            ensure!(avro_eq(g, w), "avro_cross:arrow->apache:value", "record {}: apache-avro decoded {:?} expected {:?} ; {}", i, g, w, diag);
        }
    } else {
        // canonical (read-back) schema, written by apache-avro from the Avro schema arrow-avro derives for it
        let (cf, ccols) = expected(&ac, false);
        let cfields: Vec<Field> = cf.iter().zip(ac.schema.fields()).map(|(f, orig)| f.arrow().with_metadata(orig.metadata().clone())).collect();
        let cschema: SchemaRef = Arc::new(Schema::new(cfields));
        let (_, avro_json, swapped) = with_null_second(c, &cschema, false)?;
        if swapped > 0 {
            c.class("null-second");
        }
        let bs = batch_size_for(&mut c.tape, ac.rows);
        let block = *c.tape.pick(&[16000usize, 1, 64, 300]);
        describe(c, &ac, &o, json!({"direction": "apache-avro -> arrow-avro", "batch_size": bs, "block_size": block, "avro_schema": avro_json}));
        if ac.rows > 0 {
            c.nontrivial();
        }
        let aschema = match apache_avro::Schema::parse_str(&avro_json) {
            Ok(s) => s,
            Err(e) => fail!("avro_cross:schema-rejected", "apache-avro rejects the schema produced by arrow-avro: {} ; schema {}", e, avro_json),
        };
        let vals = expected_apache(&aschema, &cf, &ac.specials, &ccols, ac.rows)?;
        o.utf8view = c.tape.chance(64);
        if o.utf8view && !c.strict && has_null_string(&ac) {
            c.exclude("avro-utf8view-null-string");
            o.utf8view = false;
        }
        if o.utf8view {
            c.class("utf8view");
        }
        let (want_fields, want_cols): (Vec<LField>, LBatch) = {
            let f: Vec<LField> = cf.iter().zip(&ac.specials).map(|(f, sp)| if *sp == Special::None { LField { name: f.name.clone(), ty: rb_type(&f.ty, o.utf8view), nullable: f.nullable } } else { f.clone() }).collect();
            (f, expected(&ac, o.utf8view).1.iter().map(|col| col.iter().map(sort_maps).collect()).collect())
        };
        let (rs, out) = if soe {
            let mut w = apache_avro::GenericSingleObjectWriter::new_with_capacity(&aschema, 64).map_err(|e| Fail::new("harness:apache-soe-writer", e.to_string()))?;
            let mut bytes = vec![];
            for v in &vals {
                w.write_value_ref(v, &mut bytes).map_err(|e| Fail::new("harness:apache-write", format!("apache-avro rejects generated value {:?}: {}", v, e)))?;
            }
            let afp = u64::from_le_bytes(aschema.fingerprint::<apache_avro::rabin::Rabin>().bytes[..8].try_into().unwrap());
            if !avro_json.contains("logicalType") {
                let fp = arrow_rabin(&avro_json).map_err(|e| Fail::new("avro:fingerprint:err", e))?;
                ensure!(afp == fp, "avro_cross:fingerprint", "CRC-64-AVRO fingerprint of {} : arrow-avro {} apache-avro {}", avro_json, fp, afp);
                c.class("fingerprint-compared");
            }
            match no_panic("avro:decode", || avro_read_stream_fp(&avro_json, &bytes, &o, bs, &[], Some(afp)))? {
                Ok(x) => x,
                Err(e) => fail!("avro_cross:arrow-read", "arrow-avro cannot decode single-object messages written by apache-avro ({} bytes): {}", bytes.len(), e),
            }
        } else {
            let mut w = apache_avro::Writer::builder().schema(&aschema).writer(Vec::<u8>::new()).codec(apache_codec(o.codec)).block_size(block).build().map_err(|e| Fail::new("harness:apache-writer", e.to_string()))?;
            for v in &vals {
                w.append_value_ref(v).map_err(|e| Fail::new("harness:apache-write", format!("apache-avro rejects generated value {:?}: {}", v, e)))?;
            }
            let bytes = w.into_inner().map_err(|e| Fail::new("harness:apache-write", e.to_string()))?;
            match no_panic("avro:read", || avro_read_ocf(&bytes, &o, bs))? {
                Ok(x) => x,
                Err(e) => fail!("avro_cross:arrow-read", "arrow-avro cannot read the OCF file written by apache-avro ({} bytes, codec {:?}): {}", bytes.len(), o.codec, e),
            }
        };
        check_types(&rs, &want_fields, &ac.specials, "avro_cross", o.utf8view)?;
        let (_, got) = collect(&rs, &out);
        let got: LBatch = got.iter().map(|col| col.iter().map(sort_maps).collect()).collect();
        if let Some(m) = first_mismatch(&want_fields, &got, &want_cols) {
            fail!("avro_cross:apache->arrow:value", "{}", m);
        }
    }
    c.evals(1);
    Ok(())
}
