//! C17 — CSV, JSON and Avro writers and readers round-trip; readers follow the RFCs; Avro agrees with apache-avro.
use arrow_array::{ArrayRef, RecordBatch, RecordBatchOptions};
use arrow_schema::{DataType, Field, Schema, SchemaRef};
use serde_json::json;
use std::collections::HashMap;
use std::sync::Arc;
use vp_engine::batch::*;
use vp_engine::model::*;
use vp_engine::r#gen::*;
use vp_engine::realise::*;
use vp_engine::runner::*;
use vp_engine::tape::Tape;
use vp_engine::{ensure, fail};

#[path = "../c17io.rs"]
mod io;
use io::*;
#[path = "../c17gen.rs"]
mod g;
use g::*;
#[path = "../c17grid.rs"]
mod grid;
#[path = "../c17avro.rs"]
mod avro;
#[path = "../c17rfc.rs"]
mod rfc;
#[path = "../c17hand.rs"]
mod hand;

// ------------------------------------------------------------------------------------------------ shared helpers
pub fn split_rows(t: &mut Tape, rows: usize) -> Vec<(usize, usize)> {
    // 1..3 consecutive chunks (start, len); an empty batch may appear
    let k = match t.below(4) {
        0 | 1 => 1,
        2 => 2,
        _ => 3,
    };
    let mut cuts: Vec<usize> = (0..k - 1).map(|_| t.below(rows + 1)).collect();
    cuts.sort();
    let mut out = vec![];
    let mut s = 0;
    for c in cuts {
        out.push((s, c - s));
        s = c;
    }
    out.push((s, rows - s));
    out
}

pub fn slice_cols(cols: &LBatch, s: usize, n: usize) -> LBatch {
    cols.iter().map(|c| c[s..s + n].to_vec()).collect()
}

pub fn gen_rows(t: &mut Tape) -> usize {
    match t.below(12) {
        0 => 0,
        1 => 1,
        2 => *t.pick(&[2usize, 3, 8, 9, 33, 64, 65]),
        3 => 20 + t.below(50),
        _ => 1 + t.below(16),
    }
}

pub fn batch_size_for(t: &mut Tape, rows: usize) -> usize {
    match t.below(5) {
        0 => 1024,
        1 => 1,
        2 => rows.max(1),
        3 => rows + 1,
        _ => 1 + t.below(rows + 2),
    }
}

pub fn first_mismatch(fields: &[LField], got: &LBatch, want: &LBatch) -> Option<String> {
    lbatch_diff(got, want).map(|(c, r)| {
        format!(
            "column {} ({}) row {}: read {} expected {} (rows read {}, expected {})",
            c,
            fields.get(c).map(|f| format!("{}", f.ty.arrow())).unwrap_or_default(),
            r,
            got.get(c).and_then(|x| x.get(r)).map(|v| v.short()).unwrap_or("<missing>".into()),
            want.get(c).and_then(|x| x.get(r)).map(|v| v.short()).unwrap_or("<missing>".into()),
            got.get(c).map(|x| x.len()).unwrap_or(0),
            want.get(c).map(|x| x.len()).unwrap_or(0)
        )
    })
}

pub fn text_preview(b: &[u8]) -> String {
    let s = String::from_utf8_lossy(b);
    let s: String = s.chars().take(400).collect();
    format!("{:?}", s)
}

pub fn batch_with_rows(schema: &SchemaRef, arrays: Vec<ArrayRef>, rows: usize) -> RecordBatch {
    RecordBatch::try_new_with_options(schema.clone(), arrays, &RecordBatchOptions::new().with_row_count(Some(rows))).unwrap()
}

// ------------------------------------------------------------------------------------------------ (a) csv_roundtrip
const SENTINELS: [&str; 7] = ["NULL", "\\N", "n/a", "-", "null", "(null)", "N,A"];

fn gen_csv_opts(t: &mut Tape) -> CsvOpts {
    let mut o = CsvOpts::default();
    if t.chance(40) {
        return o;
    }
    o.delimiter = *t.pick(&[b',', b';', b'\t', b'|']);
    o.quote = *t.pick(&[b'"', b'"', b'\'']);
    o.double_quote = !t.chance(80);
    o.escape = *t.pick(&[b'\\', b'~']);
    o.style = *t.pick(&[CsvQuoteStyle::Necessary, CsvQuoteStyle::Necessary, CsvQuoteStyle::Always, CsvQuoteStyle::NonNumeric, CsvQuoteStyle::Never]);
    o.header = !t.chance(80);
    o.validate_header = o.header && t.bool();
    o.term = match t.below(7) {
        0 | 1 | 2 => CsvTerm::Lf,
        3 => CsvTerm::Crlf,
        4 => CsvTerm::Cr,
        _ => CsvTerm::Any(b'$'),
    };
    o.reader_term_explicit = t.bool();
    o.null = match t.below(10) {
        0 | 1 => None,
        2 => Some(String::new()),
        k => Some(SENTINELS[k - 3].to_string()),
    };
    o.null_regex_explicit = t.bool();
    let dt = ["%Y-%m-%dT%H:%M:%S%.f", "%Y-%m-%d %H:%M:%S%.f"];
    if t.chance(64) {
        o.date_format = Some("%Y-%m-%d".into());
    }
    if t.chance(64) {
        o.datetime_format = Some(t.pick(&dt).to_string());
    }
    if t.chance(64) {
        o.timestamp_format = Some(t.pick(&dt).to_string());
    }
    if t.chance(64) {
        o.timestamp_tz_format = Some(t.pick(&["%Y-%m-%dT%H:%M:%S%.f%:z", "%Y-%m-%d %H:%M:%S%.f%:z", "%+"]).to_string());
    }
    if t.chance(64) {
        o.time_format = Some("%H:%M:%S%.f".into());
    }
    o
}

fn sub_csv(c: &mut Case) -> CaseResult {
    let mut o = gen_csv_opts(&mut c.tape);
    let ncols = 1 + c.tape.below(4);
    let never = o.style == CsvQuoteStyle::Never;
    if never {
        // unquoted output is only unambiguous for text without any special character
        if o.null.as_deref() == Some("N,A") {
            o.null = Some("NULL".into());
        }
        if ncols == 1 && o.null.as_deref().unwrap_or("").is_empty() {
            o.null = Some("NULL".into());
        }
    }
    let sentinel = o.null.clone().unwrap_or_default();
    if !o.double_quote && !c.strict && sentinel.as_bytes().contains(&o.escape) {
        // known finding (escape character written unescaped) also hits a sentinel containing the escape character
        c.exclude("csv-escape-char-in-data");
        o.escape = if o.escape == b'~' { b'\\' } else { b'~' };
    }
    let specials: Vec<String> = {
        let mut v = vec![(o.delimiter as char).to_string(), (o.quote as char).to_string(), (o.escape as char).to_string()];
        if !sentinel.is_empty() {
            v.push(sentinel.clone());
        }
        v
    };
    // schema
    let name_tails = ["", "", ",x", "\"q", " s ", "\nl", "é", "'"];
    let mut fields = vec![];
    for i in 0..ncols {
        let mut ty = gen_csv_type(&mut c.tape);
        if let LType::Decimal { s, .. } = &ty {
            if *s < 0 && !c.strict {
                c.exclude("csv-decimal-negative-scale");
                ty = LType::Int { bits: 32, signed: true };
            }
        }
        let nullable = matches!(ty, LType::Null) || !c.tape.chance(60);
        let tail = if never { "" } else { *c.tape.pick(&name_tails) };
        let tail = if tail == ",x" { format!("{}x", o.delimiter as char) } else { tail.to_string() };
        fields.push(LField { name: format!("c{}{}", i, tail), ty, nullable });
    }
    let rows = gen_rows(&mut c.tape);
    let long = c.tape.chance(80);
    if long {
        c.class("long-values");
    }
    let vcfg = ValCfg { nan: false, max_str: if long { 1100 } else { 40 }, ..ValCfg::default() };
    let mut needs_quote = false;
    let mut cols: LBatch = vec![];
    for f in &fields {
        let is_text = matches!(f.ty.denoted(), LType::Utf8(_));
        let pool: Vec<String> = if matches!(f.ty, LType::Dict { .. }) {
            (0..1 + c.tape.below(6)).map(|_| if never { plain_string(&mut c.tape) } else { nasty_string(&mut c.tape, &specials, 10) }).collect()
        } else {
            vec![]
        };
        let mut col = vec![];
        for _ in 0..rows {
            if matches!(f.ty, LType::Null) || (f.nullable && c.tape.chance(50)) {
                col.push(LValue::Null);
                continue;
            }
            if is_text {
                let mut s = if !pool.is_empty() {
                    c.tape.pick(&pool).clone()
                } else if never {
                    plain_string(&mut c.tape)
                } else {
                    nasty_string(&mut c.tape, &specials, 12)
                };
                // "unambiguous text": a valid value never spells the null sentinel (the empty string by default)
                if s == sentinel {
                    s.push('x');
                }
                // known finding: with double_quote=false the writer does not escape the escape character itself
                if !o.double_quote && !c.strict && s.as_bytes().contains(&o.escape) {
                    c.exclude("csv-escape-char-in-data");
                    s = s.replace(o.escape as char, "e");
                    if s == sentinel {
                        s.push('x');
                    }
                }
                if s.bytes().any(|b| b == o.delimiter || b == o.quote || b == b'\r' || b == b'\n' || (!o.double_quote && b == o.escape)) {
                    needs_quote = true;
                }
                col.push(LValue::Str(s));
            } else {
                col.push(gen_nonnull(&mut c.tape, &f.ty, &vcfg));
            }
        }
        cols.push(col);
    }
    // a UTF-8 byte order mark at the very start of the input is consumed by the CSV reader (csv-core): the first
    // field of a header-less file must not begin with U+FEFF
    if !o.header && rows > 0 {
        if let LValue::Str(s) = &mut cols[0][0] {
            if s.starts_with('\u{feff}') {
                s.insert(0, 'a');
            }
        }
    }
    let schema = schema_of(&fields, None);
    let splits = split_rows(&mut c.tape, rows);
    let lay = if c.tape.bool() { Lay::fancy() } else { Lay::plain() };
    let batches: Vec<RecordBatch> = splits.iter().map(|(s, n)| realise_batch(&mut c.tape, &schema, &fields, &slice_cols(&cols, *s, *n), *n, &lay)).collect();
    let bs = batch_size_for(&mut c.tape, rows);
    for f in &fields {
        c.class(format!("type:{}", grid::grid_key(&f.ty)));
    }
    c.class(format!("style:{:?}", o.style));
    c.class(format!("term:{:?}", o.term));
    c.class(if o.header { "header" } else { "no-header" });
    c.class(if o.double_quote { "double-quote" } else { "escape-char" });
    c.class(match o.null.as_deref() {
        None => "null:default",
        Some("") => "null:empty",
        _ => "null:sentinel",
    });
    if needs_quote {
        c.class("needs-quoting");
    }
    if rows == 0 {
        c.class("rows:0");
    }
    c.describe(json!({"opts": o.json(), "fields": fields.iter().map(|f| format!("{:?}: {}{}", f.name, f.ty.arrow(), if f.nullable {"?"} else {""})).collect::<Vec<_>>(),
        "rows": rows, "splits": splits, "batch_size": bs, "cols": cols.iter().map(|x| short_vec(x)).collect::<Vec<_>>()}));
    if needs_quote && !o.is_default() {
        c.nontrivial();
    }
    let bytes = match no_panic("csv:write", || csv_write(&batches, &o))? {
        Ok(b) => b,
        Err(e) => fail!("csv:write:err", "writer rejected a batch inside the committed grid: {}", e),
    };
    let out = match no_panic("csv:read", || csv_read(&bytes, schema.clone(), &o, bs))? {
        Ok(b) => b,
        Err(e) => fail!("csv:read:err", "reader failed on the writer's output: {} ; text {}", e, text_preview(&bytes)),
    };
    for b in &out {
        ensure!(b.schema().fields() == schema.fields(), "csv:schema", "reader returned schema {:?}", b.schema());
    }
    let (_, got) = collect(&schema, &out);
    if let Some(m) = first_mismatch(&fields, &got, &cols) {
        fail!("csv:roundtrip", "{} ; text {}", m, text_preview(&bytes));
    }
    c.evals(1);
    Ok(())
}

// ------------------------------------------------------------------------------------------------ (b) json_roundtrip
fn sub_json(c: &mut Case) -> CaseResult {
    let mut o = JsonOpts::default();
    if !c.tape.chance(30) {
        o.array = c.tape.bool();
        o.explicit_nulls = c.tape.bool();
        o.list_mode = c.tape.chance(80);
        o.strict = c.tape.bool();
        let dt = ["%Y-%m-%dT%H:%M:%S%.f", "%Y-%m-%d %H:%M:%S%.f"];
        if c.tape.chance(48) {
            o.date_format = Some("%Y-%m-%d".into());
        }
        if c.tape.chance(48) {
            o.datetime_format = Some(c.tape.pick(&dt).to_string());
        }
        if c.tape.chance(48) {
            o.timestamp_format = Some(c.tape.pick(&dt).to_string());
        }
        if c.tape.chance(48) {
            o.timestamp_tz_format = Some(c.tape.pick(&["%Y-%m-%dT%H:%M:%S%.f%:z", "%Y-%m-%d %H:%M:%S%.f%:z", "%+"]).to_string());
        }
        if c.tape.chance(48) {
            o.time_format = Some("%H:%M:%S%.f".into());
        }
    }
    let ncols = 1 + c.tape.below(4);
    let cfg = json_type_cfg();
    let strict = c.strict;
    // known finding: a null FixedSizeList row whose item type is a non-nullable nested type cannot be read back
    let fsl_nested = |ty: &LType| ty.any(&|x| matches!(x, LType::FixedList(f, _) if !f.nullable && (f.ty.is_nested() || matches!(f.ty, LType::Ree { .. }))));
    let fields = gen_fields(&mut c.tape, &cfg, ncols, &|ty| (json_type_ok(ty) && !fsl_nested(ty)) || (strict && !ty.any(&|x| matches!(x, LType::Union { .. } | LType::Dict { .. }))));
    let rows = gen_rows(&mut c.tape);
    // a share of the cases carries long strings / binary values (lengths next to 64, 128, 256, 1024: scratch-buffer and
    // block-size boundaries of the decoders)
    let long = c.tape.chance(80);
    if long {
        c.class("long-values");
    }
    let vcfg = ValCfg { nan: false, max_str: if long { 1100 } else { 16 }, max_list: 4, ..ValCfg::default() };
    let raw = gen_lbatch(&mut c.tape, &fields, rows, &vcfg);
    // finite floats only; a share of the strings replaced by text that needs escaping
    let mut escapes = false;
    let mut cols: LBatch = vec![];
    for (f, col) in fields.iter().zip(&raw) {
        let mut out = vec![];
        for v in col {
            let t = &mut c.tape;
            let small_dict = f.ty.any(&|x| matches!(x, LType::Dict { kbits: 8, .. }));
            out.push(transform(&f.ty, v, &mut |ty, x| match (ty, x) {
                (LType::Utf8(_), LValue::Str(_)) if !small_dict && t.chance(90) => {
                    let s = nasty_string(t, &[], 10);
                    LValue::Str(s)
                }
                _ => finite_leaf(ty, x),
            }));
        }
        cols.push(out);
    }
    let mut nested_null = false;
    let mut map_null = false;
    for (f, col) in fields.iter().zip(&cols) {
        for v in col {
            if any_value(&f.ty, v, &|ty, x| matches!((ty, x), (LType::Map { .. }, LValue::Map(es)) if es.iter().any(|e| e.1.is_null()))) {
                map_null = true;
            }
            if f.ty.is_nested() && !v.is_null() && any_value(&f.ty, v, &|_, x| match x {
                LValue::List(xs) | LValue::Struct(xs) => xs.iter().any(|y| y.is_null()),
                LValue::Map(es) => es.iter().any(|e| e.1.is_null()),
                _ => false,
            }) {
                nested_null = true;
            }
            if any_value(&f.ty, v, &|_, x| matches!(x, LValue::Str(s) if s.chars().any(|ch| (ch as u32) < 0x20 || ch == '"' || ch == '\\'))) {
                escapes = true;
            }
        }
    }
    if map_null {
        // omitting a null-valued key of a map would drop the entry: the statement requires explicit nulls here
        o.explicit_nulls = true;
        c.class("explicit-nulls-forced");
    }
    let schema = schema_of(&fields, None);
    let splits = split_rows(&mut c.tape, rows);
    let lay = if c.tape.bool() { Lay::fancy() } else { Lay::plain() };
    let batches: Vec<RecordBatch> = splits.iter().map(|(s, n)| realise_batch(&mut c.tape, &schema, &fields, &slice_cols(&cols, *s, *n), *n, &lay)).collect();
    let bs = batch_size_for(&mut c.tape, rows);
    for f in &fields {
        c.class(format!("family:{}", f.ty.family()));
        if f.ty.any(&|x| matches!(x, LType::Map { .. })) {
            c.class("has:map");
        }
        if f.ty.any(&|x| matches!(x, LType::Decimal { .. })) {
            c.class("has:decimal");
        }
        if f.ty.any(&|x| matches!(x, LType::Timestamp(_, Some(_)))) {
            c.class("has:timestamp-tz");
        }
        if f.ty.any(&|x| matches!(x, LType::Binary(_) | LType::FixedBinary(_))) {
            c.class("has:binary");
        }
    }
    c.class(if o.array { "format:array" } else { "format:line-delimited" });
    c.class(if o.list_mode { "struct:list-only" } else { "struct:object-only" });
    c.class(if o.explicit_nulls { "explicit-nulls" } else { "implicit-nulls" });
    if nested_null {
        c.class("nested-null");
    }
    if escapes {
        c.class("needs-escaping");
    }
    c.describe(json!({"opts": o.json(), "fields": fields.iter().map(|f| format!("{}: {}{}", f.name, f.ty.arrow(), if f.nullable {"?"} else {""})).collect::<Vec<_>>(),
        "rows": rows, "splits": splits, "batch_size": bs, "cols": cols.iter().map(|x| short_vec(x)).collect::<Vec<_>>()}));
    if (escapes || nested_null) && (o.array || o.list_mode || o.explicit_nulls) {
        c.nontrivial();
    }
    let bytes = match no_panic("json:write", || json_write(&batches, &o))? {
        Ok(b) => b,
        Err(e) => fail!("json:write:err", "writer rejected a batch inside the committed grid: {}", e),
    };
    let out = match no_panic("json:read", || json_read(&bytes, schema.clone(), &o, bs))? {
        Ok(b) => b,
        Err(e) => fail!("json:read:err", "reader failed on the writer's output: {} ; text {}", e, text_preview(&bytes)),
    };
    for b in &out {
        ensure!(b.schema().fields() == schema.fields(), "json:schema", "reader returned schema {:?}", b.schema());
    }
    let (_, got) = collect(&schema, &out);
    if let Some(m) = first_mismatch(&fields, &got, &cols) {
        fail!("json:roundtrip", "{} ; text {}", m, text_preview(&bytes));
    }
    // the writer's text must itself be RFC 8259 (independent acceptor), one value per line or one array
    let text = match std::str::from_utf8(&bytes) {
        Ok(s) => s,
        Err(_) => fail!("json:utf8", "writer produced non-UTF-8 output"),
    };
    let n_docs = if o.array {
        match serde_json::from_str::<serde_json::Value>(text) {
            Ok(serde_json::Value::Array(a)) => a.len(),
            Ok(_) => fail!("json:not-array", "ArrayWriter output is not a JSON array: {}", text_preview(&bytes)),
            Err(e) => fail!("json:rfc8259", "serde_json rejects the writer's output: {} ; text {}", e, text_preview(&bytes)),
        }
    } else {
        let mut n = 0;
        for v in serde_json::Deserializer::from_str(text).into_iter::<serde_json::Value>() {
            if let Err(e) = v {
                fail!("json:rfc8259", "serde_json rejects the writer's output: {} ; text {}", e, text_preview(&bytes));
            }
            n += 1;
        }
        n
    };
    ensure!(n_docs == rows, "json:row-count", "{} JSON rows written for {} batch rows", n_docs, rows);
    c.evals(2);
    Ok(())
}

fn main() {
    if std::env::var("C17_DUMP_GRID").is_ok() {
        grid::dump();
        return;
    }
    Check::new(
        "C17",
        "exploration",
        "cases = (schema over the committed per-format writer∩reader grid, values incl. text with delimiter/quote/escape/CR/LF/CRLF/control/non-BMP characters, 64-bit extremes, decimals, timestamps with and without zone; writer and reader options; batch splits and reader batch sizes; physical layouts). Round-trip sub-checks: non-trivial = at least one value that needs quoting/escaping or a nested null, together with a non-default option (CSV/JSON), resp. a nullable union or nested value with a non-default framing/codec (Avro). RFC sub-checks: non-trivial = document using non-minimal spellings (escapes, exponent numbers, optional quoting, whitespace). Cross-implementation: file decoded by the other Avro implementation with >=1 row. Distinct = distinct consumed entropy tape.",
    )
    .assume("type grids per format are committed data (c17grid.rs), determined on the unchanged tree and reviewed against the writer/reader sources: inside = both sides accept and values round-trip, outside = rejected cleanly by writer or reader")
    .assume("CSV: null sentinel differs from every valid value's text; with the default/empty sentinel no string value is empty; reader configured with the writer's delimiter/quote/escape(only when double_quote=false)/terminator/header/null regex ^sentinel$")
    .assume("CSV: a header-less file does not start with U+FEFF (csv-core consumes a leading UTF-8 byte order mark)")
    .assume("CSV: QuoteStyle::Never only with text free of delimiter/quote/line breaks and never an empty single-column record; whitespace-trimming writer options are lossy by design and not used")
    .assume("CSV/JSON: custom date/time formats restricted to the ISO-like forms arrow_cast::parse::string_to_datetime documents (T or space separator, optional fraction, numeric offset); timestamps with zone are written with their offset")
    .assume("CSV/JSON: floats exclude NaN (CSV additionally allows +-inf, which the writer prints as inf/-inf and the parser accepts); JSON floats finite (non-finite are written as null by design); float text compared bitwise after parse; Float16 goes through f32 text")
    .assume("CSV/JSON: dates/timestamps within years 0001..9999 (text form of chrono), Timestamp(ns) within i64; decimals within declared precision and scale >= 0 (negative scale: known finding)")
    .assume("JSON: explicit_nulls forced whenever a map holds a null value (the default writer drops null-valued keys); reader given the same schema, struct mode and with_flatten for ArrayWriter output; coerce_primitive off; Duration/Interval/Dictionary/Union and non-string or sorted maps are outside the grid")
    .assume("Avro: build with arrow-avro default features (no avro_custom_types/small_decimals): read-back types follow the documented mapping (Int8/16,UInt8/16->Int32; UInt32/UInt64->Int64 with values <= i64::MAX; Float16->Float32; Date64->Timestamp(ms); Time32(s)->Time32(ms); Time64(ns)->Time64(us) truncating; Timestamp(s)->Timestamp(ms); zone->+00:00; Duration->Int64; Interval(*)->Interval(MonthDayNano) for non-negative whole-millisecond values; Large/View->plain; list flavours->List; run-end->values; Utf8->Utf8View with with_utf8_view)")
    .assume("Avro: OCF sync marker is random, only decoded content is compared; enum = Dictionary(Int32,Utf8) whose dictionary equals the declared symbols; uuid = FixedSizeBinary(16) with logicalType metadata; both only as top-level columns; null-second unions via a verbatim avro.schema metadata entry, strict_mode only without them")
    .assume("Avro cross-check: apache-avro 0.22 is the independent implementation; map entries compared as sets (apache-avro keeps maps in a HashMap, duplicate keys excluded there); Null columns excluded (finding: [\"null\",\"null\"] union)")
    .assume("hand-made Avro leg: files come from this check's own encoder (validated against apache-avro on the files apache-avro can iterate); block splitting, negative block counts with byte size and empty file blocks are legal per the Avro 1.11 specification")
    .assume("RFC 8259 leg: serde_json is used as acceptor only; expected numbers come from std str::parse; integer columns only receive integral values (|v| <= 2^53 when spelled with fraction/exponent); duplicate object keys are not generated; invalid documents are limited to classes the decoder documents/implements as errors (surrogates, escapes, literals, truncation, non-UTF-8)")
    .assume("RFC 4180 leg: expected split known by construction; default reader (CRLF/LF/CR record ends, null regex ^$ unless configured); a single-column record consisting of one empty field is always quoted (a blank line is not a record)")
    .sub(Sub::new("grid", 0, 0, grid::sub_grid).enumerate(grid::grid_cases(), grid::grid_cases()))
    .sub(Sub::new("findings", 0, 0, grid::sub_findings).enumerate(grid::FINDINGS, grid::FINDINGS))
    .sub(Sub::new("csv_roundtrip", 4000, 250000, sub_csv).tape(256, 6000).require(&["needs-quoting", "style:Always", "style:Never", "term:Crlf", "escape-char", "null:sentinel", "no-header", "rows:0"]))
    .sub(Sub::new("json_roundtrip", 4000, 250000, sub_json).tape(256, 8000).require(&["format:array", "struct:list-only", "explicit-nulls-forced", "nested-null", "needs-escaping", "has:map", "has:decimal", "has:timestamp-tz", "has:binary", "family:runend", "family:fixedlist", "family:listview"]))
    .sub(Sub::new("avro_roundtrip", 2500, 100000, avro::sub_avro).tape(256, 8000).require(&["codec:Deflate", "codec:Snappy", "codec:Zstd", "codec:Bzip2", "codec:Xz", "codec:None", "framing:soe", "framing:confluent", "framing:apicurio", "null-second", "utf8view", "enum", "uuid", "depth:3", "has:map", "has:decimal", "has:interval"]))
    .sub(Sub::new("json_rfc8259", 6000, 400000, rfc::sub_json_rfc).tape(256, 8000).require(&["form:array", "form:stream", "surrogate-pair", "number:exponent", "invalid:lone-high-surrogate", "invalid:lone-low-surrogate", "deep-nesting"]))
    .sub(Sub::new("csv_rfc4180", 6000, 400000, rfc::sub_csv_rfc).tape(128, 4000).require(&["crlf", "lf", "no-final-break", "quoted-quote", "embedded-break", "empty-last-field"]))
    .sub(Sub::new("avro_cross", 2000, 80000, avro::sub_avro_cross).tape(256, 8000).require(&["arrow->apache:ocf", "arrow->apache:soe", "apache->arrow:ocf", "apache->arrow:soe", "codec:Snappy", "codec:Zstd", "codec:Bzip2", "codec:Xz", "codec:Deflate"]))
    .sub(Sub::new("avro_handmade", 3000, 120000, hand::sub_avro_handmade).tape(128, 6000).require(&["negative-block-count", "multi-block-collection", "multi-file-block", "empty-file-block", "header-map-blocked", "apache-confirmed"]))
    .run()
}
