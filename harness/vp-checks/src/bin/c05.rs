//! C05 — Parquet write then read returns the same Arrow types and values.
//!
//! Sub-checks
//! * `roundtrip`  generated schema (writer grid) x values x write()/flush() partition x WriterProperties x reader
//!                batch size; decoded schema and logical rows must equal the input; all arrays valid.
//! * `parallel`   the same data through `ArrowRowGroupWriterFactory` / `ArrowColumnWriter` on worker threads (leaves in
//!                generated chunkings, writers closed in a generated permutation by explicit hand-off); decoded content and
//!                row-group row counts must equal the serial writer's.
//! * `grid`       exhaustive (leaf type x wrapper x version x dictionary): acceptance must equal the committed grid;
//!                inside the grid the column round-trips, outside it the writer rejects the type.
//! * `repro`      minimal reproductions of the reported findings (keys `C05-*`, see grids/parquet_arrow_writer.json
//!                "known_defects"); judged only in replay / known-finding mode (`c.strict`), skipped otherwise.
//!
//! Shapes of reported findings are avoided by construction in generated runs (`c.exclude(key)`, counted in the
//! evidence) so that the search continues behind them; replaying a file (strict mode) switches the avoidance off.
#[path = "../pq_gen.rs"]
mod pq_gen;

use arrow_array::{Array, ArrayRef, RecordBatch};
use arrow_schema::SchemaRef;
use bytes::Bytes;
use parquet::arrow::arrow_writer::{compute_leaves, ArrowColumnChunk, ArrowColumnWriter, ArrowLeafColumn};
use parquet::arrow::ArrowWriter;
use parquet::basic::{Encoding, PageType};
use parquet::file::metadata::ParquetMetaData;
use parquet::file::properties::WriterProperties;
use pq_gen::*;
use serde_json::{json, Value};
use std::sync::mpsc;
use vp_engine::batch::*;
use vp_engine::model::*;
use vp_engine::r#gen::*;
use vp_engine::realise::*;
use vp_engine::runner::*;
use vp_engine::tape::Tape;
use vp_engine::validate::check_valid;
use vp_engine::{ensure, fail};

// ------------------------------------------------------------------------------------------------
// case generation

struct CaseData {
    fields: Vec<LField>,
    schema: SchemaRef,
    /// logical rows of every written batch
    lbatches: Vec<LBatch>,
    batches: Vec<RecordBatch>,
    flush_after: Vec<bool>,
    total: usize,
}

fn type_cfg(depth: u32) -> TypeCfg {
    let mut cfg = TypeCfg::all();
    cfg.union = false;
    // Parquet DECIMAL requires 0 <= scale <= precision (the schema converter rejects negative scales)
    cfg.neg_scale = false;
    cfg.depth = depth;
    cfg
}

fn gen_total_rows(t: &mut Tape) -> usize {
    match t.below(16) {
        0 => 0,
        1 => 1,
        2 | 3 => t.below(20),
        4 => *t.pick(&[128usize, 127, 129, 31, 32, 33, 64, 65, 256, 257]),
        5 => *t.pick(&[1024usize, 1023, 1025, 2048, 2049]),
        15 => 300 + t.below(2701),
        _ => t.below(300),
    }
}

/// replace one top-level string/binary value by a huge one (page-size / byte-budget paths)
fn inject_huge(t: &mut Tape, fields: &[LField], lb: &mut LBatch) -> bool {
    for (f, col) in fields.iter().zip(lb.iter_mut()) {
        if col.is_empty() {
            continue;
        }
        let i = t.below(col.len());
        if col[i].is_null() {
            continue;
        }
        let n = *t.pick(&[300usize, 1000, 5000, 70_000]);
        match &f.ty {
            LType::Utf8(_) => {
                col[i] = LValue::Str("é".repeat(n / 2));
                return true;
            }
            LType::Binary(_) => {
                col[i] = LValue::Bytes(vec![0xffu8; n]);
                return true;
            }
            _ => {}
        }
    }
    false
}

fn gen_case(c: &mut Case, max_cols: usize, allow_tail: bool) -> CaseData {
    let t = &mut c.tape;
    let mut total = gen_total_rows(t);
    if !allow_tail && total > 400 {
        total = 40 + total % 300;
    }
    let big = total > 400;
    let depth = if big { 2 } else { *t.pick(&[3u32, 2, 3, 4]) };
    let cfg = type_cfg(depth);
    let ncols = if big { 1 + t.below(2) } else { 1 + t.below(max_cols) };
    // shapes of reported findings are avoided by construction (counted) so the search continues behind them;
    // in replay mode (strict) the exclusion is off
    let strict = c.strict;
    let excluded = std::cell::RefCell::new(Vec::<&'static str>::new());
    let pred = |ty: &LType| -> bool {
        if !grid_supports(ty) {
            return false;
        }
        if !strict {
            if let Some(k) = known_defect(ty) {
                excluded.borrow_mut().push(k);
                return false;
            }
        }
        true
    };
    let mut fields = gen_fields(t, &cfg, ncols, &pred);
    let mut excluded = excluded.into_inner();
    if !strict {
        // finding C05-reader-unmasked-nulls: make the offending column nullable-free at the top (no null ancestor above
        // the non-nullable nested node) by construction: the shape needs a nullable ancestor, so such columns are
        // replaced by their simplest variant, a flat Int32
        for f in fields.iter_mut() {
            if unmasked_null_shape(f) {
                excluded.push("C05-reader-unmasked-nulls");
                f.ty = LType::Int { bits: 32, signed: true };
            }
        }
    }
    let schema = schema_of(&fields, None);
    let vcfg = ValCfg { max_list: if big { 3 } else { 5 }, ..ValCfg::default() };
    // partition of the rows into 1..=8 write() calls
    let nb = 1 + t.below(8);
    let mut cuts: Vec<usize> = (0..nb - 1).map(|_| t.below(total + 1)).collect();
    cuts.sort();
    let mut sizes = vec![];
    let mut prev = 0;
    for cu in cuts {
        sizes.push(cu - prev);
        prev = cu;
    }
    sizes.push(total - prev);
    let lay = Lay::fancy();
    let mut lbatches = vec![];
    let mut batches = vec![];
    let mut flush_after = vec![];
    let huge = !big && rare(t, 24);
    let mut huge_done = false;
    for n in sizes {
        let mut lb = gen_lbatch(t, &fields, n, &vcfg);
        if huge && !huge_done {
            huge_done = inject_huge(t, &fields, &mut lb);
        }
        let b = realise_batch(t, &schema, &fields, &lb, n, &lay);
        lbatches.push(lb);
        batches.push(b);
        flush_after.push(rare(t, 56));
    }
    if huge_done {
        c.class("huge_value");
    }
    for k in excluded {
        c.exclude(k);
    }
    CaseData { fields, schema, lbatches, batches, flush_after, total }
}

fn has_null_below_top(v: &LValue, top: bool) -> bool {
    match v {
        LValue::Null => !top,
        LValue::List(xs) => xs.iter().any(|x| has_null_below_top(x, false)),
        LValue::Struct(xs) => xs.iter().any(|x| has_null_below_top(x, false)),
        LValue::Map(es) => es.iter().any(|(_, x)| has_null_below_top(x, false)),
        _ => false,
    }
}

fn describe_case(d: &CaseData, props: &Value, read_bs: usize) -> Value {
    json!({
        "schema": d.fields.iter().map(|f| format!("{}: {}{}", f.name, f.ty.arrow(), if f.nullable { "" } else { " not null" })).collect::<Vec<_>>(),
        "rows": d.total,
        "batches": d.batches.iter().map(|b| b.num_rows()).collect::<Vec<_>>(),
        "flush_after": d.flush_after,
        "props": props,
        "read_batch_size": read_bs,
        "first_rows": d.lbatches.iter().find(|b| b.first().map(|c| !c.is_empty()).unwrap_or(false)).map(|b| b.iter().map(|c| short_vec(c)).collect::<Vec<_>>()),
    })
}

trait ItemField {
    fn arrow_item(&self) -> arrow_schema::Field;
}
impl ItemField for LType {
    fn arrow_item(&self) -> arrow_schema::Field {
        match self {
            LType::List(f, _) | LType::FixedList(f, _) => f.arrow(),
            _ => panic!("not a list type"),
        }
    }
}

fn leaves_of_fields(fields: &[LField]) -> Vec<LType> {
    let mut v = vec![];
    for f in fields {
        leaves_of(&f.ty, &mut v);
    }
    v
}

// ------------------------------------------------------------------------------------------------
// oracle

fn expected_rows(d: &CaseData) -> LBatch {
    let mut acc: LBatch = vec![vec![]; d.fields.len()];
    for lb in &d.lbatches {
        for (a, col) in acc.iter_mut().zip(lb) {
            a.extend(col.iter().cloned());
        }
    }
    acc
}

fn check_schema(fields: &[LField], got: &SchemaRef, what: &str) -> CaseResult {
    ensure!(got.fields().len() == fields.len(), format!("{}:schema", what), "decoded schema has {} fields, written {}", got.fields().len(), fields.len());
    for (f, g) in fields.iter().zip(got.fields()) {
        ensure!(g.name() == &f.name, format!("{}:schema", what), "field name {:?} came back as {:?}", f.name, g.name());
        ensure!(g.is_nullable() == f.nullable, format!("{}:schema", what), "field {} nullability {} came back as {}", f.name, f.nullable, g.is_nullable());
        let want = read_back_type(&f.ty);
        let have = LType::from_arrow(g.data_type());
        if have.as_ref() != Some(&want) {
            fail!(format!("{}:type", what), "field {}: written {} expected back {} got {}", f.name, f.ty.arrow(), want.arrow(), g.data_type());
        }
    }
    Ok(())
}

fn decoded_rows(fields: &[LField], rb: &ReadBack, what: &str) -> Result<LBatch, Fail> {
    let mut acc: LBatch = vec![vec![]; fields.len()];
    for (bi, b) in rb.batches.iter().enumerate() {
        ensure!(b.schema().fields() == rb.schema.fields(), format!("{}:batch_schema", what), "batch {} schema differs from the reader's schema", bi);
        for (ci, col) in b.columns().iter().enumerate() {
            check_valid(col.as_ref(), what)?;
            let vals = no_panic("extract", || vp_engine::extract::extract(col.as_ref()))?;
            acc[ci].extend(vals);
        }
    }
    Ok(acc)
}

fn compare_rows(fields: &[LField], want: &LBatch, got: &LBatch, what: &str) -> CaseResult {
    if let Some((ci, r)) = lbatch_diff(want, got) {
        let f = fields.get(ci);
        let fam = f.map(|f| f.ty.family()).unwrap_or("?");
        fail!(
            format!("{}:rows:{}", what, fam),
            "column {} ({}) row {}: written {:?} read {:?} (lengths {} / {})",
            ci,
            f.map(|f| f.ty.arrow().to_string()).unwrap_or_default(),
            r,
            want.get(ci).and_then(|c| c.get(r)).map(|v| v.short()),
            got.get(ci).and_then(|c| c.get(r)).map(|v| v.short()),
            want.get(ci).map(|c| c.len()).unwrap_or(0),
            got.get(ci).map(|c| c.len()).unwrap_or(0)
        );
    }
    Ok(())
}

struct FileFacts {
    row_groups: Vec<usize>,
    multi_page: bool,
    fallback: bool,
    dict_pages: bool,
}

fn file_facts(meta: &ParquetMetaData) -> FileFacts {
    let mut ff = FileFacts { row_groups: vec![], multi_page: false, fallback: false, dict_pages: false };
    for (rgi, rg) in meta.row_groups().iter().enumerate() {
        ff.row_groups.push(rg.num_rows() as usize);
        for (ci, col) in rg.columns().iter().enumerate() {
            if let Some(locs) = meta.page_index().and_then(|p| p.page_locations(rgi, ci)) {
                if locs.len() >= 2 {
                    ff.multi_page = true;
                }
            }
            // encodings of the data pages only (full statistics or the mask this crate distils them to)
            let data_encodings: Vec<Encoding> = if let Some(st) = col.page_encoding_stats() {
                st.iter().filter(|s| matches!(s.page_type, PageType::DATA_PAGE | PageType::DATA_PAGE_V2)).map(|s| s.encoding).collect()
            } else if let Some(m) = col.page_encoding_stats_mask() {
                m.encodings().collect()
            } else {
                vec![]
            };
            let dict = data_encodings.iter().any(|e| matches!(e, Encoding::RLE_DICTIONARY | Encoding::PLAIN_DICTIONARY));
            let other = data_encodings.iter().any(|e| !matches!(e, Encoding::RLE_DICTIONARY | Encoding::PLAIN_DICTIONARY));
            if dict {
                ff.dict_pages = true;
            }
            if dict && other {
                ff.fallback = true;
            }
        }
    }
    ff
}

fn check_row_groups(meta: &ParquetMetaData, total: usize, facts: &PropFacts, what: &str) -> CaseResult {
    let sum: i64 = meta.row_groups().iter().map(|r| r.num_rows()).sum();
    ensure!(sum as usize == total, format!("{}:rg_rows", what), "row groups hold {} rows, {} written", sum, total);
    ensure!(meta.file_metadata().num_rows() as usize == total, format!("{}:file_rows", what), "file metadata says {} rows, {} written", meta.file_metadata().num_rows(), total);
    if let Some(m) = facts.max_rg_rows {
        for (i, r) in meta.row_groups().iter().enumerate() {
            ensure!(r.num_rows() as usize <= m, format!("{}:rg_limit", what), "row group {} has {} rows, max_row_group_row_count {}", i, r.num_rows(), m);
            ensure!(r.num_rows() > 0, format!("{}:rg_empty", what), "row group {} is empty", i);
        }
    }
    Ok(())
}

fn label_case(c: &mut Case, d: &CaseData, facts: &PropFacts, ff: &FileFacts) {
    let mut nested = false;
    let mut encoded = false;
    for f in &d.fields {
        c.class(format!("family:{}", f.ty.family()));
        if f.ty.is_nested() {
            nested = true;
        }
        if f.ty.any(&|x| matches!(x, LType::Dict { .. })) {
            encoded = true;
            c.class("has:dictionary");
        }
        if f.ty.any(&|x| matches!(x, LType::Ree { .. })) {
            c.class("has:runend");
        }
        if f.ty.any(&|x| matches!(x, LType::Map { .. })) {
            c.class("has:map");
        }
        if f.ty.any(&|x| matches!(x, LType::List(_, ListEnc::V32 | ListEnc::V64))) {
            c.class("has:listview");
        }
        if f.ty.any(&|x| matches!(x, LType::FixedList(..))) {
            c.class("has:fixedlist");
        }
    }
    if nested {
        c.class("nested");
    }
    c.class(if facts.v2 { "version:2" } else { "version:1" });
    if facts.cdc {
        c.class("cdc");
    }
    if ff.row_groups.len() >= 2 {
        c.class("row_groups>=2");
    }
    if ff.multi_page {
        c.class("pages>=2");
    }
    if ff.fallback {
        c.class("dict_fallback");
    }
    if ff.dict_pages {
        c.class("dict_pages");
    }
    c.class(match d.total {
        0 => "rows:0",
        1..=40 => "rows:1-40",
        41..=400 => "rows:41-400",
        _ => "rows:tail",
    });
    let null_below = d.lbatches.iter().any(|lb| lb.iter().any(|col| col.iter().any(|v| has_null_below_top(v, true))));
    if null_below {
        c.class("null_below_top");
    }
    // NT: nested or dictionary/fallback column, >=2 pages in some chunk or >=2 row groups, >=1 null below the top
    // level or a non-default encoding
    if (nested || encoded || ff.fallback) && (ff.multi_page || ff.row_groups.len() >= 2) && (null_below || facts.non_default) {
        c.nontrivial();
    }
}

/// content-defined chunking over a list-view column hits the reported finding C05-cdc-listview
/// (`ArrayLevels::slice_for_chunk` assumes ascending non-null indices): CDC is kept off for such schemas unless replaying
fn prop_opts(c: &mut Case, d: &CaseData) -> PropOpts {
    let listview = d.fields.iter().any(|f| f.ty.any(&|x| matches!(x, LType::List(_, ListEnc::V32 | ListEnc::V64))));
    // ... and the explicit page break CDC inserts after a chunk can hit a Boolean column whose RLE value encoder has
    // not seen a value since the last page: `RleValueEncoder::flush_buffer` panics (finding C05-cdc-bool-rle-empty-page)
    let boolean = d.fields.iter().any(|f| f.ty.any(&|x| matches!(x, LType::Bool)));
    let no_cdc = (listview || boolean) && !c.strict;
    if listview && !c.strict {
        c.exclude("C05-cdc-listview");
    }
    if boolean && !c.strict {
        c.exclude("C05-cdc-bool-rle-empty-page");
    }
    PropOpts { stats_focus: false, rows: d.total, no_cdc }
}

fn gen_read_bs(t: &mut Tape, total: usize) -> usize {
    let bs = *t.pick(&[1024usize, 1, 3, 64, 0]);
    let bs = if bs == 0 { total + 5 } else { bs };
    if total > 500 && bs < 64 { 64 } else { bs }
}

fn sub_roundtrip(c: &mut Case) -> CaseResult {
    let d = gen_case(c, 4, true);
    let descr = parquet_schema(&d.schema)?;
    let leaves = leaves_of_fields(&d.fields);
    ensure!(leaves.len() == descr.num_columns(), "harness:leaves", "leaf walk {} != parquet columns {}", leaves.len(), descr.num_columns());
    let po = prop_opts(c, &d);
    let (props, facts, pdesc) = gen_props(&mut c.tape, &descr, &leaves, &po);
    let read_bs = gen_read_bs(&mut c.tape, d.total);
    c.describe(describe_case(&d, &pdesc, read_bs));

    let (bytes, meta) = write_serial(&d.schema, &d.batches, &d.flush_after, props)?;
    check_row_groups(&meta, d.total, &facts, "write")?;
    let rb = read_all(&bytes, read_bs)?;
    check_schema(&d.fields, &rb.schema, "read")?;
    for b in &rb.batches {
        ensure!(b.num_rows() <= read_bs && b.num_rows() > 0, "read:batch_size", "reader returned a batch of {} rows with batch size {}", b.num_rows(), read_bs);
    }
    let got = decoded_rows(&d.fields, &rb, "read")?;
    let want = expected_rows(&d);
    compare_rows(&d.fields, &want, &got, "read")?;
    check_row_groups(&rb.meta, d.total, &facts, "read")?;
    let ff = file_facts(&rb.meta);
    label_case(c, &d, &facts, &ff);
    c.evals(3);
    Ok(())
}

// ------------------------------------------------------------------------------------------------
// parallel column writers

enum Msg {
    Leaf(ArrowLeafColumn),
    Close,
}

/// Encode row groups of `rg_rows` rows with one worker thread per leaf column.
fn write_parallel(t: &mut Tape, schema: &SchemaRef, batches: &[RecordBatch], rg_rows: &[usize], props: WriterProperties) -> Result<(Bytes, ParquetMetaData, Value), Fail> {
    let mut buf: Vec<u8> = Vec::new();
    let mut sched = vec![];
    let meta = {
        let w = perr("ArrowWriter::try_new", no_panic("ArrowWriter::try_new", || ArrowWriter::try_new(&mut buf, schema.clone(), Some(props)))?)?;
        let (mut fw, factory) = perr("into_serialized_writer", no_panic("into_serialized_writer", || w.into_serialized_writer())?)?;
        let mut start = 0usize;
        for (k, &n) in rg_rows.iter().enumerate() {
            // per column: pieces covering rows [start, start+n), further split at generated points
            let mut cols = slice_rows(batches, start, n);
            start += n;
            for pieces in cols.iter_mut() {
                let mut out: Vec<ArrayRef> = vec![];
                for p in pieces.iter() {
                    if p.len() >= 2 && t.chance(128) {
                        let cut = 1 + t.below(p.len() - 1);
                        out.push(p.slice(0, cut));
                        out.push(p.slice(cut, p.len() - cut));
                    } else {
                        out.push(p.clone());
                    }
                }
                *pieces = out;
            }
            // leaves per (column, piece), computed on this thread
            let mut per_col_leaves: Vec<Vec<Vec<ArrowLeafColumn>>> = vec![];
            for (ci, pieces) in cols.iter().enumerate() {
                let f = schema.field(ci);
                let mut v = vec![];
                for p in pieces {
                    v.push(perr("compute_leaves", no_panic("compute_leaves", || compute_leaves(f, p))?)?);
                }
                per_col_leaves.push(v);
            }
            let writers: Vec<ArrowColumnWriter> = perr("create_column_writers", no_panic("create_column_writers", || factory.create_column_writers(k))?)?;
            let nleaves = writers.len();
            // leaf index base per column
            let mut base = vec![0usize; cols.len() + 1];
            for ci in 0..cols.len() {
                let nl = per_col_leaves[ci].first().map(|x| x.len()).unwrap_or(0);
                base[ci + 1] = base[ci] + nl;
            }
            if cols.iter().all(|p| !p.is_empty()) {
                ensure!(base[cols.len()] == nleaves, "parallel:leaf_count", "compute_leaves gives {} leaves, factory {} writers", base[cols.len()], nleaves);
            }
            // order in which (column, piece) units are handed to the workers: per column order kept, columns interleaved
            let mut cursor = vec![0usize; cols.len()];
            let mut order: Vec<(usize, usize)> = vec![];
            let total_units: usize = cols.iter().map(|p| p.len()).sum();
            while order.len() < total_units {
                let live: Vec<usize> = (0..cols.len()).filter(|ci| cursor[*ci] < cols[*ci].len()).collect();
                let ci = live[t.below(live.len())];
                order.push((ci, cursor[ci]));
                cursor[ci] += 1;
            }
            let close_perm = t.perm(nleaves);
            sched.push(json!({"rg": k, "rows": n, "pieces": cols.iter().map(|p| p.iter().map(|a| a.len()).collect::<Vec<_>>()).collect::<Vec<_>>(), "close_order": close_perm}));

            let mut slots: Vec<Option<Vec<ArrowLeafColumn>>> = vec![];
            let mut slot_of: Vec<Vec<usize>> = vec![];
            for v in per_col_leaves {
                let mut idx = vec![];
                for l in v {
                    idx.push(slots.len());
                    slots.push(Some(l));
                }
                slot_of.push(idx);
            }

            let chunks: Result<Vec<ArrowColumnChunk>, Fail> = std::thread::scope(|s| {
                let mut txs = vec![];
                let mut rxs = vec![];
                for mut wtr in writers {
                    let (tx, rx) = mpsc::channel::<Msg>();
                    let (rtx, rrx) = mpsc::channel::<Result<ArrowColumnChunk, String>>();
                    s.spawn(move || {
                        let r = catch(move || -> Result<ArrowColumnChunk, String> {
                            loop {
                                match rx.recv() {
                                    Ok(Msg::Leaf(l)) => wtr.write(&l).map_err(|e| format!("ArrowColumnWriter::write: {}", e))?,
                                    Ok(Msg::Close) | Err(_) => break,
                                }
                            }
                            wtr.close().map_err(|e| format!("ArrowColumnWriter::close: {}", e))
                        });
                        let _ = rtx.send(match r {
                            Ok(x) => x,
                            Err(p) => Err(format!("panic at {}: {}", p.loc, p.msg)),
                        });
                    });
                    txs.push(tx);
                    rxs.push(rrx);
                }
                for (ci, pi) in order {
                    let leaves = slots[slot_of[ci][pi]].take().unwrap();
                    for (j, l) in leaves.into_iter().enumerate() {
                        let _ = txs[base[ci] + j].send(Msg::Leaf(l));
                    }
                }
                let mut done: Vec<Option<ArrowColumnChunk>> = (0..nleaves).map(|_| None).collect();
                let mut first_err: Option<Fail> = None;
                for &i in &close_perm {
                    let _ = txs[i].send(Msg::Close);
                    match rxs[i].recv() {
                        Ok(Ok(ch)) => done[i] = Some(ch),
                        Ok(Err(e)) => {
                            if first_err.is_none() {
                                let sig = if e.starts_with("panic") { "parallel:worker_panic" } else { "parallel:worker_err" };
                                first_err = Some(Fail::new(sig, format!("column writer {}: {}", i, e)));
                            }
                        }
                        Err(_) => {
                            if first_err.is_none() {
                                first_err = Some(Fail::new("parallel:worker_lost", format!("column writer {} vanished", i)));
                            }
                        }
                    }
                }
                drop(txs);
                match first_err {
                    Some(e) => Err(e),
                    None => Ok(done.into_iter().map(|x| x.unwrap()).collect()),
                }
            });
            let chunks = chunks?;
            let mut rgw = perr("next_row_group", no_panic("next_row_group", || fw.next_row_group())?)?;
            for ch in chunks {
                perr("append_to_row_group", no_panic("append_to_row_group", || ch.append_to_row_group(&mut rgw))?)?;
            }
            perr("SerializedRowGroupWriter::close", no_panic("SerializedRowGroupWriter::close", || rgw.close())?)?;
        }
        perr("SerializedFileWriter::close", no_panic("SerializedFileWriter::close", || fw.close())?)?
    };
    Ok((Bytes::from(buf), meta, Value::Array(sched)))
}

fn sub_parallel(c: &mut Case) -> CaseResult {
    let d = gen_case(c, 3, false);
    let descr = parquet_schema(&d.schema)?;
    let leaves = leaves_of_fields(&d.fields);
    let po = prop_opts(c, &d);
    let (props, facts, pdesc) = gen_props(&mut c.tape, &descr, &leaves, &po);
    let read_bs = gen_read_bs(&mut c.tape, d.total);
    c.describe(describe_case(&d, &pdesc, read_bs));
    let (sbytes, smeta) = write_serial(&d.schema, &d.batches, &d.flush_after, props.clone())?;
    let rg_rows: Vec<usize> = smeta.row_groups().iter().map(|r| r.num_rows() as usize).collect();
    let (pbytes, pmeta, sched) = write_parallel(&mut c.tape, &d.schema, &d.batches, &rg_rows, props)?;
    let mut desc = describe_case(&d, &pdesc, read_bs);
    desc["parallel"] = sched;
    c.describe(desc);

    let prg: Vec<usize> = pmeta.row_groups().iter().map(|r| r.num_rows() as usize).collect();
    ensure!(prg == rg_rows, "parallel:rg_rows", "row-group row counts: serial {:?} parallel {:?}", rg_rows, prg);
    let srb = read_all(&sbytes, read_bs)?;
    let prb = read_all(&pbytes, read_bs)?;
    check_schema(&d.fields, &prb.schema, "parallel")?;
    ensure!(srb.schema.fields() == prb.schema.fields(), "parallel:schema", "decoded schemas differ: {:?} vs {:?}", srb.schema, prb.schema);
    let sgot = decoded_rows(&d.fields, &srb, "serial")?;
    let pgot = decoded_rows(&d.fields, &prb, "parallel")?;
    compare_rows(&d.fields, &sgot, &pgot, "parallel_vs_serial")?;
    let want = expected_rows(&d);
    compare_rows(&d.fields, &want, &pgot, "parallel")?;
    let prg2: Vec<usize> = prb.meta.row_groups().iter().map(|r| r.num_rows() as usize).collect();
    ensure!(prg2 == rg_rows, "parallel:rg_rows", "row-group row counts read back: serial {:?} parallel {:?}", rg_rows, prg2);
    let ff = file_facts(&prb.meta);
    label_case(c, &d, &facts, &ff);
    let nleaves = leaves.len();
    if nleaves >= 2 {
        c.class("leaves>=2");
    }
    if nleaves >= 2 && !rg_rows.is_empty() && d.total >= 2 {
        c.nontrivial();
    }
    c.evals(3);
    Ok(())
}

// ------------------------------------------------------------------------------------------------
// grid enumeration

fn all_leaves() -> Vec<LType> {
    use LType::*;
    let mut v = vec![Null, Bool];
    for bits in [8u8, 16, 32, 64] {
        v.push(Int { bits, signed: true });
        v.push(Int { bits, signed: false });
    }
    v.extend([F16, F32, F64]);
    for (width, ps) in [(32u16, vec![(9u8, 2i8), (4, 0), (1, 0)]), (64, vec![(18, 3), (9, 9), (10, 0)]), (128, vec![(38, 10), (9, 0), (18, 2), (19, 0), (1, 1), (5, -2)]), (256, vec![(76, 5), (9, 1), (18, 0), (39, 0), (30, 0)])] {
        for (p, s) in ps {
            v.push(Decimal { width, p, s });
        }
    }
    v.extend([Date32, Date64, Time32(Unit::S), Time32(Unit::Ms), Time64(Unit::Us), Time64(Unit::Ns)]);
    for u in [Unit::S, Unit::Ms, Unit::Us, Unit::Ns] {
        v.push(Timestamp(u.clone(), None));
        v.push(Timestamp(u.clone(), Some("+05:30".into())));
        v.push(Duration(u));
    }
    v.extend([IntervalYM, IntervalDT, IntervalMDN]);
    for e in [Enc::O32, Enc::O64, Enc::View] {
        v.push(Utf8(e));
        v.push(Binary(e));
    }
    v.extend([FixedBinary(4), FixedBinary(0), FixedBinary(16)]);
    v
}

const N_WRAPPERS: usize = 16;
fn wrap(leaf: &LType, w: usize) -> LType {
    use LType::*;
    let item = |ty: LType| Box::new(LField { name: "item".into(), ty, nullable: true });
    match w {
        0 => leaf.clone(),
        1 => Dict { kbits: 32, ksigned: true, value: Box::new(leaf.clone()) },
        2 => Dict { kbits: 8, ksigned: false, value: Box::new(leaf.clone()) },
        3 => Ree { rbits: 32, value: Box::new(LField { name: "values".into(), ty: leaf.clone(), nullable: true }) },
        4 => List(item(leaf.clone()), ListEnc::O32),
        5 => List(item(leaf.clone()), ListEnc::O64),
        6 => List(item(leaf.clone()), ListEnc::V32),
        7 => List(item(leaf.clone()), ListEnc::V64),
        8 => FixedList(item(leaf.clone()), 2),
        9 => FixedList(item(leaf.clone()), 0),
        10 => Struct(vec![LField { name: "a".into(), ty: leaf.clone(), nullable: true }, LField { name: "b".into(), ty: Int { bits: 32, signed: true }, nullable: false }]),
        11 => Map { key: Box::new(LField { name: "key".into(), ty: Utf8(Enc::O32), nullable: false }), val: Box::new(LField { name: "value".into(), ty: leaf.clone(), nullable: true }), sorted: false },
        12 => Map { key: Box::new(LField { name: "key".into(), ty: leaf.clone(), nullable: false }), val: Box::new(LField { name: "value".into(), ty: Int { bits: 32, signed: true }, nullable: true }), sorted: false },
        13 => List(item(Dict { kbits: 16, ksigned: true, value: Box::new(leaf.clone()) }), ListEnc::O32),
        14 => Struct(vec![LField { name: "r".into(), ty: Ree { rbits: 16, value: Box::new(LField { name: "values".into(), ty: leaf.clone(), nullable: true }) }, nullable: true }]),
        _ => Union { dense: false, fields: vec![(0, LField { name: "a".into(), ty: leaf.clone(), nullable: true })] },
    }
}

fn grid_cases() -> u64 {
    (all_leaves().len() * N_WRAPPERS * 4) as u64
}

fn sub_grid(c: &mut Case) -> CaseResult {
    let leaves = all_leaves();
    let i = c.index as usize;
    let leaf = &leaves[i % leaves.len()];
    let w = (i / leaves.len()) % N_WRAPPERS;
    let variant = i / (leaves.len() * N_WRAPPERS);
    let (v2, dict) = (variant & 1 == 1, variant & 2 == 2);
    // skip the first 8 tape bytes (the index)
    let _ = c.tape.u64();
    let ty = wrap(leaf, w);
    // map keys cannot be null typed / nested encodings the engine cannot realise are skipped, not judged
    if w == 12 && matches!(leaf, LType::Null) {
        c.class("skipped:null_map_key");
        return Ok(());
    }
    if unclaimed(&ty) {
        c.class("unclaimed");
        return Ok(());
    }
    let inside = grid_supports(&ty);
    let defect = known_defect(&ty);
    let nullable = true;
    let field = LField { name: "c0".into(), ty: ty.clone(), nullable };
    let fields = vec![field];
    let schema = schema_of(&fields, None);
    let rows = 12;
    let vcfg = ValCfg::default();
    let lay = Lay::fancy();
    let built = catch(|| {
        let lb = gen_lbatch(&mut c.tape, &fields, rows, &vcfg);
        let b = realise_batch(&mut c.tape, &schema, &fields, &lb, rows, &lay);
        (lb, b)
    });
    let (lb, batch) = match built {
        Ok(x) => x,
        Err(p) => {
            c.class("skipped:not_realisable");
            c.describe(json!({"type": ty.arrow().to_string(), "realise_panic": p.msg}));
            return Ok(());
        }
    };
    c.describe(json!({"type": ty.arrow().to_string(), "v2": v2, "dict": dict, "inside_grid": inside, "values": short_vec(&lb[0])}));
    let props = WriterProperties::builder()
        .set_writer_version(if v2 { parquet::file::properties::WriterVersion::PARQUET_2_0 } else { parquet::file::properties::WriterVersion::PARQUET_1_0 })
        .set_dictionary_enabled(dict)
        .set_data_page_row_count_limit(5)
        .set_write_batch_size(2)
        .build();
    if std::env::var("C05_GRID_PROBE").is_ok() {
        // development aid: report acceptance / round trip of every candidate instead of judging
        let d = CaseData { fields: fields.clone(), schema: schema.clone(), lbatches: vec![lb.clone()], batches: vec![batch.clone()], flush_after: vec![false], total: rows };
        let r = write_serial(&d.schema, &d.batches, &d.flush_after, props.clone()).and_then(|(bytes, _)| read_all(&bytes, 5)).and_then(|rb| {
            check_schema(&d.fields, &rb.schema, "grid")?;
            let got = decoded_rows(&d.fields, &rb, "grid")?;
            compare_rows(&d.fields, &expected_rows(&d), &got, "grid")
        });
        println!("PROBE\t{}\tw{}\tv2={}\tdict={}\tinside={} defect={:?}\t{}", ty.arrow(), w, v2, dict, inside, defect, match &r { Ok(()) => "OK".to_string(), Err(f) => format!("FAIL[{}] {}", f.sig, f.msg.chars().take(400).collect::<String>()) });
        return Ok(());
    }
    if !inside {
        c.class("outside_grid");
        // must be rejected with Err by try_new or write; never a panic, never silently accepted
        let mut buf: Vec<u8> = vec![];
        let r = catch(|| -> Result<(), parquet::errors::ParquetError> {
            let mut w = ArrowWriter::try_new(&mut buf, schema.clone(), Some(props))?;
            w.write(&batch)?;
            w.close()?;
            Ok(())
        });
        match r {
            // Union: the schema converter panics with unimplemented!() where the docs promise a failure; counted as rejection
            Err(_) => c.class("rejected:panic"),
            Ok(Err(_)) => c.class("rejected:err"),
            Ok(Ok(())) => fail!("grid:accepted_outside", "type {} is outside the committed grid but the writer accepted it (grid needs review)", ty.arrow()),
        }
        c.evals(1);
        return Ok(());
    }
    if let Some(k) = defect {
        if !c.strict {
            c.exclude(k);
            c.class("known_defect_shape");
            return Ok(());
        }
    }
    c.class("inside_grid");
    c.class(format!("wrapper:{}", w));
    let d = CaseData { fields, schema, lbatches: vec![lb], batches: vec![batch], flush_after: vec![false], total: rows };
    let run = || -> CaseResult {
        let (bytes, _meta) = write_serial(&d.schema, &d.batches, &d.flush_after, props)?;
        let rb = read_all(&bytes, 5)?;
        check_schema(&d.fields, &rb.schema, "grid")?;
        let got = decoded_rows(&d.fields, &rb, "grid")?;
        compare_rows(&d.fields, &expected_rows(&d), &got, "grid")
    };
    match (run(), defect) {
        (Ok(()), _) => {}
        // replay of a reported finding: narrow signature = finding key
        (Err(f), Some(k)) => return Err(Fail::new(k, format!("[{}] {}", f.sig, f.msg))),
        (Err(f), None) => return Err(f),
    }
    if ty.is_nested() || matches!(ty, LType::Dict { .. } | LType::Ree { .. }) {
        c.nontrivial();
    }
    c.evals(2);
    Ok(())
}

// ------------------------------------------------------------------------------------------------
// minimal reproductions of the reported findings (judged only in replay / known-finding mode)

const N_REPRO: u64 = 8;

fn sub_repro(c: &mut Case) -> CaseResult {
    use LType::*;
    let i = c.index;
    if !c.strict {
        c.class("repro:skipped(not replaying)");
        return Ok(());
    }
    let int = |v: i128| LValue::Int(v);
    let i32t = Int { bits: 32, signed: true };
    let b = WriterProperties::builder();
    let cdc = parquet::file::properties::CdcOptions { min_chunk_size: 16, max_chunk_size: 80, norm_level: 0 };
    let (key, field, rows, props, lay): (&str, LField, Vec<LValue>, WriterProperties, Lay) = match i {
        0 => ("C05-dict-flba-unreadable", LField::new("c0", Dict { kbits: 32, ksigned: true, value: Box::new(Decimal { width: 128, p: 38, s: 0 }) }, true), vec![int(1), LValue::Null, int(-2)], b.build(), Lay::plain()),
        1 => ("C05-dict-view-writer-panic", LField::new("c0", Dict { kbits: 32, ksigned: true, value: Box::new(Utf8(Enc::View)) }, true), vec![LValue::Str("a".into()), LValue::Null], b.build(), Lay::plain()),
        2 => ("C05-dict-fsb-unreadable", LField::new("c0", Dict { kbits: 32, ksigned: true, value: Box::new(FixedBinary(4)) }, true), vec![LValue::Bytes(vec![1, 2, 3, 4]), LValue::Null, LValue::Bytes(vec![5, 6, 7, 8])], b.set_dictionary_enabled(false).build(), Lay::plain()),
        3 => (
            "C05-nested-ree-type-lost",
            LField::new("c0", Struct(vec![LField::new("r", Ree { rbits: 32, value: Box::new(LField::new("values", Duration(Unit::S), true)) }, true)]), true),
            vec![LValue::Struct(vec![int(5)]), LValue::Struct(vec![int(5)]), LValue::Struct(vec![int(7)])],
            b.build(),
            Lay::plain(),
        ),
        4 => ("C05-decimal32-precision1", LField::new("c0", Decimal { width: 32, p: 1, s: 0 }, true), vec![int(7), LValue::Null, int(-9)], b.build(), Lay::plain()),
        5 => {
            // list view with descending child ranges, CDC on (the batch is built by hand below)
            let rows: Vec<LValue> = (0..40).map(|k| LValue::List(vec![int((39 - k) * 2), int((39 - k) * 2 + 1)])).collect();
            ("C05-cdc-listview", LField::new("c0", List(Box::new(LField::new("item", i32t.clone(), true)), ListEnc::V32), true), rows, b.set_content_defined_chunking(Some(cdc)).build(), Lay::fancy())
        }
        6 => {
            let rows: Vec<LValue> = (0..400).map(|k| LValue::Bool(k % 3 == 0)).collect();
            (
                "C05-cdc-bool-rle-empty-page",
                LField::new("c0", Bool, false),
                rows,
                b.set_writer_version(parquet::file::properties::WriterVersion::PARQUET_2_0).set_content_defined_chunking(Some(cdc)).set_data_page_row_count_limit(1).set_write_batch_size(1).build(),
                Lay::plain(),
            )
        }
        _ => (
            "C05-reader-unmasked-nulls",
            LField::new("c0", Struct(vec![LField::new("a", FixedList(Box::new(LField::new("item", i32t.clone(), false)), 2), false)]), true),
            vec![LValue::Struct(vec![LValue::List(vec![int(1), int(2)])]), LValue::Null, LValue::Struct(vec![LValue::List(vec![int(3), int(4)])])],
            b.build(),
            Lay::plain(),
        ),
    };
    let fields = vec![field];
    let schema = schema_of(&fields, None);
    let n = rows.len();
    let lb: LBatch = vec![rows];
    // the list-view reproduction needs a permuted child: try a few layouts from the (fixed) tape
    let _ = c.tape.u64();
    let attempts = 1;
    c.describe(json!({"finding": key, "type": fields[0].ty.arrow().to_string(), "rows": n}));
    for _ in 0..attempts {
        let batch = if i == 5 {
            let child: ArrayRef = std::sync::Arc::new(arrow_array::Int32Array::from_iter_values(0..80));
            let offs: Vec<i32> = (0..40).map(|k| (39 - k) * 2).collect();
            let lv = arrow_array::ListViewArray::try_new(std::sync::Arc::new(fields[0].ty.arrow_item()), offs.into(), vec![2i32; 40].into(), child, None).unwrap();
            RecordBatch::try_new(schema.clone(), vec![std::sync::Arc::new(lv) as ArrayRef]).unwrap()
        } else {
            realise_batch(&mut c.tape, &schema, &fields, &lb, n, &lay)
        };
        let d = CaseData { fields: fields.clone(), schema: schema.clone(), lbatches: vec![lb.clone()], batches: vec![batch], flush_after: vec![false], total: n };
        let r = (|| -> CaseResult {
            let (bytes, _) = write_serial(&d.schema, &d.batches, &d.flush_after, props.clone())?;
            let rb = read_all(&bytes, 1024)?;
            check_schema(&d.fields, &rb.schema, "read")?;
            let got = decoded_rows(&d.fields, &rb, "read")?;
            compare_rows(&d.fields, &expected_rows(&d), &got, "read")
        })();
        if let Err(f) = r {
            return Err(Fail::new(key, format!("[{}] {}", f.sig, f.msg)));
        }
    }
    c.class("repro:not_reproduced");
    Ok(())
}

fn main() {
    let n = grid_cases();
    Check::new(
        "C05",
        "exploration",
        "case = (schema from the writer grid, values, write()/flush() partition, WriterProperties, reader batch size[, parallel schedule]); non-trivial = nested or dictionary/fallback column AND (>=2 pages in a chunk or >=2 row groups) AND (null below the top level or non-default encoding/version); parallel: >=2 leaf writers closed in a generated order",
    )
    .assume("coerce_types=false only; Union and Interval(MonthDayNano) are outside the committed grid (expected Err)")
    .assume("decimal values within the declared precision; dictionary arrays without null dictionary values (Lay::fancy)")
    .assume("explicit encodings only from the per-physical-type legal set of grids/parquet_arrow_writer.json; setters documenting a panic on 0 get >= 1; CDC options satisfy the documented panics and the mask-width constraint")
    .assume("run-end encoded columns are documented to come back as their value type; everything else must come back with the identical Arrow type")
    .sub(Sub::new("roundtrip", 3000, 60000, sub_roundtrip).tape(256, 12000).require(&["nested", "has:dictionary", "has:runend", "row_groups>=2", "pages>=2", "dict_fallback", "version:2", "cdc", "rows:tail", "rows:0", "null_below_top"]))
    .sub(Sub::new("parallel", 500, 8000, sub_parallel).tape(256, 6000).require(&["leaves>=2", "row_groups>=2"]))
    .sub(Sub::new("grid", 0, 0, sub_grid).enumerate(n, n).require(&["inside_grid", "outside_grid"]))
    .sub(Sub::new("repro", 0, 0, sub_repro).enumerate(N_REPRO, N_REPRO))
    .run()
}
