//! C12 — arithmetic, aggregation and boolean kernels are exact or report overflow.
//!
//! Reference: exact integer arithmetic (i128 for <=64-bit operands, num-bigint for 128/256-bit), IEEE scalar
//! operations for floats, Vec<Option<bool>> three-valued logic, sequential folds for aggregates, an own proleptic
//! Gregorian calendar for date/timestamp +- interval.
//!
//! Sub-checks
//!   int8_grid / int16_grid  every operand pair of the 8-bit (quick) and 16-bit (thorough; quick = boundary right operands)
//!                           integer types x add/sub/mul (checked+wrapping)/div/rem/neg x array-array / array-scalar /
//!                           scalar-array; failing pairs sit under null slots, then are unmasked one at a time
//!   int_sampled             all 8 integer types, boundary-dense operands, all Datum shapes, layouts, Ok and Err outcomes
//!   i256                    checked/wrapping/overflowing ops, pow, cmp, conversions, strings, bits, shifts vs num-bigint
//!   decimal                 Decimal32/64/128/256 add/sub/mul/div/rem/neg: result type and exact value per `decimal_op`
//!   float                   Float16/32/64 ops bitwise equal to the IEEE scalar operation
//!   agg_grid                sum/sum_checked/product(_checked)/min/max/bit_*/bool_* (+ *_array) on lengths 0..=300 x 10 null patterns
//!   agg_bytes, agg_encoded  min/max of strings/binaries; sum/min/max through dictionary and run-end accessors
//!   bool_grid, is_null      and/or/not/and_not/and_kleene/or_kleene/is_null/is_not_null on packed three-valued inputs
//!   bitwise                 element-wise bitwise kernels
//!   temporal, temporal_neg  timestamp/date/duration/interval arithmetic listed in `arithmetic_op`
//!   repro_*                 reproductions of recorded findings (targets of known_findings.json, no generated cases)
#![allow(clippy::too_many_arguments, clippy::type_complexity, clippy::needless_range_loop)]

use arrow_arith::{aggregate as agg, bitwise as bw, boolean as bk, numeric as num};
use arrow_array::cast::AsArray;
use arrow_array::types::*;
use arrow_array::*;
use arrow_buffer::{i256, ArrowNativeType, BooleanBuffer, Buffer, IntervalDayTime, IntervalMonthDayNano, NullBuffer, ScalarBuffer};
use arrow_schema::{ArrowError, DataType, IntervalUnit, TimeUnit};
use num_bigint::{BigInt, Sign};
use serde_json::json;
use std::sync::Arc;
use vp_engine::runner::*;
use vp_engine::tape::Tape;
use vp_engine::{ensure, fail};

/// Generators avoid the shapes of recorded findings (counted with `c.exclude`) unless replaying (`c.strict`).
const AVOID_KNOWN: bool = true;

// =================================================================================================
// small deterministic hash (bulk decisions inside exhaustive grids; seeded from the case tape)
fn mix(z: u64) -> u64 {
    let mut z = z.wrapping_add(0x9E37_79B9_7F4A_7C15);
    z = (z ^ (z >> 30)).wrapping_mul(0xBF58_476D_1CE4_E5B9);
    z = (z ^ (z >> 27)).wrapping_mul(0x94D0_49BB_1331_11EB);
    z ^ (z >> 31)
}
fn h(seed: u64, i: u64) -> u64 {
    mix(seed ^ mix(i))
}

// =================================================================================================
// native integer types
trait NatI: ArrowNativeTypeOp + std::fmt::Debug {
    const BITS: u32;
    const SIGNED: bool;
    /// truncating conversion (two's complement)
    fn from_i(v: i128) -> Self;
    fn to_i(self) -> i128;
}
macro_rules! nat_i {
    ($($t:ty, $b:expr, $s:expr);*) => { $(impl NatI for $t {
        const BITS: u32 = $b; const SIGNED: bool = $s;
        fn from_i(v: i128) -> Self { v as $t }
        fn to_i(self) -> i128 { self as i128 }
    })* };
}
nat_i!(i8, 8, true; i16, 16, true; i32, 32, true; i64, 64, true; u8, 8, false; u16, 16, false; u32, 32, false; u64, 64, false; i128, 128, true);

fn int_range(bits: u32, signed: bool) -> (i128, i128) {
    if bits == 128 {
        (i128::MIN, i128::MAX)
    } else if signed {
        (-(1i128 << (bits - 1)), (1i128 << (bits - 1)) - 1)
    } else {
        (0, (1i128 << bits) - 1)
    }
}
/// reduce modulo 2^bits into the type's range
fn trunc(v: i128, bits: u32, signed: bool) -> i128 {
    if bits == 128 {
        return v;
    }
    let u = v & ((1i128 << bits) - 1);
    if signed && (u >> (bits - 1)) & 1 == 1 { u - (1i128 << bits) } else { u }
}
fn fits(v: i128, bits: u32, signed: bool) -> bool {
    let (lo, hi) = int_range(bits, signed);
    v >= lo && v <= hi
}

#[derive(Clone, Copy, Debug, PartialEq, Eq)]
enum Op {
    Add,
    AddW,
    Sub,
    SubW,
    Mul,
    MulW,
    Div,
    Rem,
}
const BINOPS: [Op; 8] = [Op::Add, Op::AddW, Op::Sub, Op::SubW, Op::Mul, Op::MulW, Op::Div, Op::Rem];
impl Op {
    fn name(self) -> &'static str {
        match self {
            Op::Add => "add",
            Op::AddW => "add_wrapping",
            Op::Sub => "sub",
            Op::SubW => "sub_wrapping",
            Op::Mul => "mul",
            Op::MulW => "mul_wrapping",
            Op::Div => "div",
            Op::Rem => "rem",
        }
    }
    fn kernel(self) -> fn(&dyn Datum, &dyn Datum) -> Result<ArrayRef, ArrowError> {
        match self {
            Op::Add => num::add,
            Op::AddW => num::add_wrapping,
            Op::Sub => num::sub,
            Op::SubW => num::sub_wrapping,
            Op::Mul => num::mul,
            Op::MulW => num::mul_wrapping,
            Op::Div => num::div,
            Op::Rem => num::rem,
        }
    }
    /// the checked flavour of the same mathematical operation
    fn base(self) -> Op {
        match self {
            Op::AddW => Op::Add,
            Op::SubW => Op::Sub,
            Op::MulW => Op::Mul,
            o => o,
        }
    }
}

/// what one row must produce
#[derive(Clone, Copy, Debug, PartialEq, Eq)]
enum Want {
    Val(i128),
    Overflow,
    DivZero,
}
impl Want {
    fn is_err(&self) -> bool {
        !matches!(self, Want::Val(_))
    }
}

/// exact integer semantics of the kernels on a `bits`-wide type (operands are in range)
fn want_int(op: Op, a: i128, b: i128, bits: u32, signed: bool) -> Want {
    let chk = |v: Option<i128>| match v {
        Some(v) if fits(v, bits, signed) => Want::Val(v),
        _ => Want::Overflow,
    };
    match op {
        Op::Add => chk(a.checked_add(b)),
        Op::Sub => chk(a.checked_sub(b)),
        Op::Mul => chk(a.checked_mul(b)),
        Op::AddW => Want::Val(trunc(a.wrapping_add(b), bits, signed)),
        Op::SubW => Want::Val(trunc(a.wrapping_sub(b), bits, signed)),
        Op::MulW => Want::Val(trunc(a.wrapping_mul(b), bits, signed)),
        Op::Div => {
            if b == 0 {
                Want::DivZero
            } else {
                chk(a.checked_div(b))
            }
        }
        // documented: MIN % -1 = 0, no error
        Op::Rem => {
            if b == 0 {
                Want::DivZero
            } else {
                Want::Val(a.checked_rem(b).unwrap_or(0))
            }
        }
    }
}
fn want_neg(a: i128, wrapping: bool, bits: u32, signed: bool) -> Want {
    if wrapping {
        Want::Val(trunc(a.wrapping_neg(), bits, signed))
    } else {
        match a.checked_neg() {
            Some(v) if fits(v, bits, signed) => Want::Val(v),
            _ => Want::Overflow,
        }
    }
}

#[derive(Clone, Copy, Debug, PartialEq, Eq)]
enum Shape {
    AA,
    AS,
    SA,
    SS,
}
impl Shape {
    fn name(self) -> &'static str {
        match self {
            Shape::AA => "array-array",
            Shape::AS => "array-scalar",
            Shape::SA => "scalar-array",
            Shape::SS => "scalar-scalar",
        }
    }
}
fn call(k: fn(&dyn Datum, &dyn Datum) -> Result<ArrayRef, ArrowError>, shape: Shape, l: &ArrayRef, r: &ArrayRef) -> Result<ArrayRef, ArrowError> {
    match shape {
        Shape::AA => k(l, r),
        Shape::AS => k(l, &Scalar::new(r.clone())),
        Shape::SA => k(&Scalar::new(l.clone()), r),
        Shape::SS => k(&Scalar::new(l.clone()), &Scalar::new(r.clone())),
    }
}

// =================================================================================================
// physical layout of a primitive column
#[derive(Clone, Debug)]
struct PLay {
    pre: usize,
    post: usize,
    /// build a validity buffer even if no slot is null
    force_validity: bool,
    seed: u64,
}
impl PLay {
    fn from_tape(t: &mut Tape) -> Self {
        if !t.bool() {
            return PLay { pre: 0, post: 0, force_validity: t.chance(48), seed: 0 };
        }
        PLay { pre: *t.pick(&[1usize, 3, 7, 8, 9, 63, 64, 65, 2, 5]), post: t.below(3), force_validity: t.chance(64), seed: t.u64() }
    }
    fn from_hash(x: u64) -> Self {
        PLay { pre: [0usize, 0, 1, 5, 64, 67][(x % 6) as usize], post: ((x >> 8) % 2) as usize, force_validity: (x >> 16) % 4 == 0, seed: x }
    }
}

/// Build a primitive array from native values (garbage under null slots is whatever `vals` holds there),
/// padded with garbage rows and sliced according to `lay`.
fn mk_native<T: ArrowPrimitiveType>(vals: &[T::Native], valid: &[bool], lay: &PLay, dt: &DataType, garbage: &[T::Native]) -> ArrayRef {
    let n = vals.len();
    assert_eq!(valid.len(), n);
    let has_null = valid.iter().any(|v| !*v);
    let g = |i: usize| -> T::Native { if garbage.is_empty() { T::Native::default() } else { garbage[(h(lay.seed, i as u64) % garbage.len() as u64) as usize] } };
    let mut full: Vec<T::Native> = Vec::with_capacity(lay.pre + n + lay.post);
    for i in 0..lay.pre {
        full.push(g(i));
    }
    full.extend_from_slice(vals);
    for i in 0..lay.post {
        full.push(g(1000 + i));
    }
    let nulls = if has_null || lay.force_validity {
        let mut bits: Vec<bool> = Vec::with_capacity(full.len());
        for i in 0..lay.pre {
            bits.push(h(lay.seed ^ 0x55, i as u64) & 1 == 1);
        }
        bits.extend_from_slice(valid);
        for i in 0..lay.post {
            bits.push(h(lay.seed ^ 0x77, i as u64) & 1 == 1);
        }
        Some(NullBuffer::new(BooleanBuffer::from(bits)))
    } else {
        None
    };
    let arr = PrimitiveArray::<T>::try_new(ScalarBuffer::from(full), nulls).unwrap().with_data_type(dt.clone());
    if lay.pre == 0 && lay.post == 0 { Arc::new(arr) } else { Arc::new(arr.slice(lay.pre, n)) }
}

fn mk_int<T: ArrowPrimitiveType>(vals: &[i128], valid: &[bool], lay: &PLay, dt: &DataType) -> ArrayRef
where
    T::Native: NatI,
{
    let v: Vec<T::Native> = vals.iter().map(|x| T::Native::from_i(*x)).collect();
    let (lo, hi) = int_range(T::Native::BITS, T::Native::SIGNED);
    let garbage = [T::Native::from_i(0), T::Native::from_i(lo), T::Native::from_i(hi), T::Native::from_i(-1), T::Native::from_i(1)];
    mk_native::<T>(&v, valid, lay, dt, &garbage)
}

/// compare a kernel result with per-row expectations (None = null)
fn cmp_int<T: ArrowPrimitiveType>(what_full: &str, out: &ArrayRef, want: &[Option<i128>], dt: &DataType) -> CaseResult
where
    T::Native: NatI,
{
    let what = sig_of(what_full);
    ensure!(out.data_type() == dt, format!("{}:type", what), "{}: result type {} expected {}", what, out.data_type(), dt);
    ensure!(out.len() == want.len(), format!("{}:len", what), "{}: result length {} expected {}", what, out.len(), want.len());
    let Some(a) = out.as_primitive_opt::<T>() else {
        fail!(format!("{}:type", what), "{}: result is not a PrimitiveArray of the expected native type", what);
    };
    let mut nn = 0;
    for (i, w) in want.iter().enumerate() {
        match w {
            None => {
                nn += 1;
                ensure!(a.is_null(i), format!("{}:null", what), "{}: row {} is valid ({:?}) but an input is null", what, i, a.value(i));
            }
            Some(w) => {
                ensure!(a.is_valid(i), format!("{}:null", what), "{}: row {} is null but both inputs are valid (expected {})", what, i, w);
                let g = a.value(i).to_i();
                ensure!(g == *w, format!("{}:value", what), "{}: row {} is {} expected {}", what, i, g, w);
            }
        }
    }
    ensure!(a.null_count() == nn, format!("{}:null_count", what), "{}: null_count {} expected {}", what, a.null_count(), nn);
    Ok(())
}

/// Judge the outcome of a fallible kernel against per-row expectations `rows` = (valid, want).
/// Returns Ok(Some(values)) when the result must be compared.
/// signature part of a kernel label: without the Datum shape
fn sig_of(what: &str) -> &str {
    what.split('[').next().unwrap_or(what)
}

fn judge(what_full: &str, res: &Result<ArrayRef, ArrowError>, rows: &[(bool, Want)]) -> Result<Option<Vec<Option<i128>>>, Fail> {
    let what = sig_of(what_full);
    let errs: Vec<(usize, Want)> = rows.iter().enumerate().filter(|(_, r)| r.0 && r.1.is_err()).map(|(i, r)| (i, r.1)).collect();
    match res {
        Ok(_) => {
            if let Some((i, w)) = errs.first() {
                return Err(Fail::new(format!("{}:err-missing", what), format!("{}: returned Ok but valid row {} must fail with {:?}", what, i, w)));
            }
            Ok(Some(rows.iter().map(|r| if r.0 { if let Want::Val(v) = r.1 { Some(v) } else { None } } else { None }).collect()))
        }
        Err(e) => {
            if errs.is_empty() {
                return Err(Fail::new(format!("{}:err-spurious", what), format!("{}: returned Err({}) but no valid row can fail", what, e)));
            }
            let all_dz = errs.iter().all(|e| e.1 == Want::DivZero);
            let all_of = errs.iter().all(|e| e.1 == Want::Overflow);
            let is_dz = matches!(e, ArrowError::DivideByZero);
            let is_of = matches!(e, ArrowError::ArithmeticOverflow(_));
            if all_dz && !is_dz {
                return Err(Fail::new(format!("{}:err-kind", what), format!("{}: division by zero reported as {:?}", what, e)));
            }
            if all_of && !is_of {
                return Err(Fail::new(format!("{}:err-kind", what), format!("{}: overflow reported as {:?}", what, e)));
            }
            if !is_dz && !is_of {
                return Err(Fail::new(format!("{}:err-kind", what), format!("{}: unexpected error kind {:?}", what, e)));
            }
            Ok(None)
        }
    }
}

fn row_index(shape: Shape, i: usize) -> (usize, usize) {
    match shape {
        Shape::AA => (i, i),
        Shape::AS => (i, 0),
        Shape::SA => (0, i),
        Shape::SS => (0, 0),
    }
}
fn out_len(shape: Shape, ln: usize, rn: usize) -> usize {
    match shape {
        Shape::AA | Shape::AS => ln,
        Shape::SA => rn,
        Shape::SS => 1,
    }
}

// =================================================================================================
// integer types dispatch
macro_rules! with_int {
    ($ti:expr, $m:ident) => {
        match $ti {
            0 => $m!(Int8Type),
            1 => $m!(UInt8Type),
            2 => $m!(Int16Type),
            3 => $m!(UInt16Type),
            4 => $m!(Int32Type),
            5 => $m!(UInt32Type),
            6 => $m!(Int64Type),
            _ => $m!(UInt64Type),
        }
    };
}

/// native-level operations (ArrowNativeTypeOp) against the exact reference
fn native_check_w<N: NatI>(op: Op, a: i128, b: i128, want: Want) -> CaseResult {
    let (x, y) = (N::from_i(a), N::from_i(b));
    let judge_res = |what: &str, r: Result<N, ArrowError>| -> CaseResult {
        match (r, want) {
            (Ok(v), Want::Val(w)) => {
                ensure!(v.to_i() == w, format!("native.{}:value", what), "{:?}.{}({:?}) = {:?} expected {}", x, what, y, v, w);
            }
            (Ok(v), w) => fail!(format!("native.{}:err-missing", what), "{:?}.{}({:?}) = Ok({:?}) expected {:?}", x, what, y, v, w),
            (Err(e), Want::Val(w)) => fail!(format!("native.{}:err-spurious", what), "{:?}.{}({:?}) = Err({}) expected {}", x, what, y, e, w),
            (Err(e), Want::DivZero) => {
                ensure!(matches!(e, ArrowError::DivideByZero), format!("native.{}:err-kind", what), "{:?}.{}({:?}) = Err({}) expected DivideByZero", x, what, y, e);
            }
            (Err(e), Want::Overflow) => {
                ensure!(matches!(e, ArrowError::ArithmeticOverflow(_)), format!("native.{}:err-kind", what), "{:?}.{}({:?}) = Err({}) expected overflow", x, what, y, e);
            }
        }
        Ok(())
    };
    match op {
        Op::Add => judge_res("add_checked", x.add_checked(y)),
        Op::Sub => judge_res("sub_checked", x.sub_checked(y)),
        Op::Mul => judge_res("mul_checked", x.mul_checked(y)),
        Op::Div => {
            judge_res("div_checked", x.div_checked(y))?;
            if b != 0 {
                // documented: wrapping division only panics for a zero divisor
                let w = trunc(a.wrapping_div(b), N::BITS, N::SIGNED);
                let g = x.div_wrapping(y).to_i();
                ensure!(g == w, "native.div_wrapping:value", "{:?}.div_wrapping({:?}) = {} expected {}", x, y, g, w);
            }
            Ok(())
        }
        Op::Rem => {
            if b != 0 {
                let Want::Val(w) = want else { unreachable!() };
                let g = x.mod_wrapping(y).to_i();
                ensure!(g == w, "native.mod_wrapping:value", "{:?}.mod_wrapping({:?}) = {} expected {}", x, y, g, w);
            }
            // mod_checked(MIN, -1): the exact result 0 is representable; std's checked_rem reports None there and the
            // trait does not document which one is meant -> both accepted
            let min_neg1 = N::SIGNED && a == int_range(N::BITS, true).0 && b == -1;
            match x.mod_checked(y) {
                Err(_) if min_neg1 => Ok(()),
                r => judge_res("mod_checked", r),
            }
        }
        Op::AddW => {
            let Want::Val(w) = want else { unreachable!() };
            let g = x.add_wrapping(y).to_i();
            ensure!(g == w, "native.add_wrapping:value", "{:?}.add_wrapping({:?}) = {} expected {}", x, y, g, w);
            Ok(())
        }
        Op::SubW => {
            let Want::Val(w) = want else { unreachable!() };
            let g = x.sub_wrapping(y).to_i();
            ensure!(g == w, "native.sub_wrapping:value", "{:?}.sub_wrapping({:?}) = {} expected {}", x, y, g, w);
            Ok(())
        }
        Op::MulW => {
            let Want::Val(w) = want else { unreachable!() };
            let g = x.mul_wrapping(y).to_i();
            ensure!(g == w, "native.mul_wrapping:value", "{:?}.mul_wrapping({:?}) = {} expected {}", x, y, g, w);
            Ok(())
        }
    }
}

// =================================================================================================
// sub-checks 1/2: exhaustive operand grids for 8-bit and 16-bit integers
//
// unit of work: one right operand b against *every* value a of the type, as three kernel shapes
//   array(a_i) op array(b,b,..) ; array(a_i) op scalar(b) ; scalar(b) op array(a_i)
// Rows whose exact result is an error are put under null slots (on a hash-chosen side) keeping the error-inducing
// operands as garbage: the call must be Ok, exact on every valid row, null exactly on the masked rows. Then error
// rows are unmasked one at a time (all of them for 8-bit, first/last/two hashed ones for 16-bit): must be Err.
// The element operations themselves (ArrowNativeTypeOp) are checked on every pair including the failing ones.
struct GridStats {
    evals: u64,
    err_rows: u64,
    boundary: bool,
}

/// per-case context of the grids: every value of the type, once as i128 and once as a padded native buffer
struct GridCtx<T: ArrowPrimitiveType> {
    avals: Vec<i128>,
    a_buf: ScalarBuffer<T::Native>,
}
const GRID_PRE: usize = 3;
impl<T: ArrowPrimitiveType> GridCtx<T>
where
    T::Native: NatI,
{
    fn new() -> Self {
        let (lo, hi) = int_range(T::Native::BITS, T::Native::SIGNED);
        let avals: Vec<i128> = (lo..=hi).collect();
        let mut v: Vec<T::Native> = vec![T::Native::from_i(hi), T::Native::from_i(0), T::Native::from_i(lo)];
        v.extend(avals.iter().map(|a| T::Native::from_i(*a)));
        v.push(T::Native::from_i(-1));
        GridCtx { avals, a_buf: ScalarBuffer::from(v) }
    }
}
const W_OVER: i64 = i64::MIN;
const W_DZ: i64 = i64::MIN + 1;
fn code_of(w: Want) -> i64 {
    match w {
        Want::Val(v) => v as i64,
        Want::Overflow => W_OVER,
        Want::DivZero => W_DZ,
    }
}
/// array over a (shared) padded value buffer; `valid` = None means no validity buffer
fn grid_array<T: ArrowPrimitiveType>(buf: &ScalarBuffer<T::Native>, pre: usize, n: usize, valid: Option<&[bool]>, seed: u64) -> ArrayRef {
    let total = buf.len();
    let nulls = valid.map(|v| NullBuffer::new(BooleanBuffer::collect_bool(total, |i| if i >= pre && i < pre + n { v[i - pre] } else { h(seed, i as u64) & 1 == 1 })));
    let arr = PrimitiveArray::<T>::new(buf.clone(), nulls);
    if pre == 0 && total == n { Arc::new(arr) } else { Arc::new(arr.slice(pre, n)) }
}

fn grid_unit<T: ArrowPrimitiveType>(ctx: &GridCtx<T>, op: Op, b: i128, seed: u64, all_errs: bool, st: &mut GridStats) -> CaseResult
where
    T::Native: NatI,
{
    let (bits, signed) = (T::Native::BITS, T::Native::SIGNED);
    let n = ctx.avals.len();
    let avals = &ctx.avals;
    let dt = T::DATA_TYPE;
    // element operations on every pair (the mirrored pair (b, a) is visited by the unit whose right operand is a)
    let wants_ab: Vec<Want> = avals.iter().map(|a| want_int(op, *a, b, bits, signed)).collect();
    for (i, &a) in avals.iter().enumerate() {
        native_check_w::<T::Native>(op, a, b, wants_ab[i])?;
    }
    st.evals += n as u64;
    let k = op.kernel();
    let bn = T::Native::from_i(b);
    let b_pre = (h(seed, b as u64 ^ 0x99) % 3) as usize;
    for (si, shape) in [Shape::AA, Shape::AS, Shape::SA].into_iter().enumerate() {
        let what = format!("{}[{}]", op.name(), shape.name());
        let sig = op.name();
        let sseed = h(seed, (b as u64) ^ ((si as u64) << 40));
        // a quarter of the units have no nulls besides the masked error rows
        let extra_nulls = sseed % 4 != 0;
        let mut codes: Vec<i64> = Vec::with_capacity(n);
        // validity of the array side(s): bit0 = left valid, bit1 = right valid
        let mut vbits: Vec<u8> = Vec::with_capacity(n);
        let mut errs: Vec<u32> = vec![];
        for i in 0..n {
            let w = match shape {
                Shape::SA => want_int(op, b, avals[i], bits, signed),
                _ => wants_ab[i],
            };
            codes.push(code_of(w));
            let x = h(sseed, i as u64);
            let err = w.is_err();
            if err {
                errs.push(i as u32);
            }
            let m: u8 = match shape {
                Shape::AA => {
                    if err {
                        [2u8, 1, 0][(x % 3) as usize]
                    } else if extra_nulls && x % 16 == 0 {
                        2
                    } else if extra_nulls && x % 16 == 1 {
                        1
                    } else {
                        3
                    }
                }
                Shape::AS => {
                    if err || (extra_nulls && x % 16 == 0) {
                        2
                    } else {
                        3
                    }
                }
                _ => {
                    if err || (extra_nulls && x % 16 == 0) {
                        1
                    } else {
                        3
                    }
                }
            };
            vbits.push(m);
        }
        let build = |vb: &[u8]| -> (ArrayRef, ArrayRef) {
            let lvalid: Vec<bool> = vb.iter().map(|m| m & 1 != 0).collect();
            let rvalid: Vec<bool> = vb.iter().map(|m| m & 2 != 0).collect();
            let any_l = lvalid.iter().any(|v| !*v) || sseed % 5 == 0;
            let any_r = rvalid.iter().any(|v| !*v) || sseed % 7 == 0;
            let scalar = |seed: u64| -> ArrayRef {
                let pre = (seed % 3) as usize;
                let v: Vec<T::Native> = (0..pre + 1 + (seed % 2) as usize).map(|j| if j == pre { bn } else { T::Native::from_i(0) }).collect();
                let valid = [true];
                grid_array::<T>(&ScalarBuffer::from(v), pre, 1, if seed % 4 == 0 { Some(&valid) } else { None }, seed)
            };
            match shape {
                Shape::AA => {
                    let mut bv: Vec<T::Native> = vec![T::Native::from_i(0); b_pre];
                    bv.resize(b_pre + n, bn);
                    (
                        grid_array::<T>(&ctx.a_buf, GRID_PRE, n, if any_l { Some(&lvalid) } else { None }, sseed),
                        grid_array::<T>(&ScalarBuffer::from(bv), b_pre, n, if any_r { Some(&rvalid) } else { None }, sseed ^ 1),
                    )
                }
                Shape::AS => (grid_array::<T>(&ctx.a_buf, GRID_PRE, n, if any_l { Some(&lvalid) } else { None }, sseed), scalar(sseed >> 7)),
                _ => (scalar(sseed >> 7), grid_array::<T>(&ctx.a_buf, GRID_PRE, n, if any_r { Some(&rvalid) } else { None }, sseed)),
            }
        };
        let (la, ra) = build(&vbits);
        let res = no_panic(&what, || call(k, shape, &la, &ra))?;
        let out = match res {
            Ok(o) => o,
            Err(e) => fail!(format!("{}:err-spurious", sig), "{}: Err({}) but no valid row can fail: every failing operand pair is under a null slot (b = {})", what, e, b),
        };
        ensure!(out.data_type() == &dt && out.len() == n, format!("{}:type", sig), "{}: result type {} len {}", what, out.data_type(), out.len());
        let o = out.as_primitive::<T>();
        let ov = o.values();
        let mut nn = 0;
        for i in 0..n {
            if vbits[i] != 3 {
                nn += 1;
                ensure!(o.is_null(i), format!("{}:null", sig), "{}: row {} is valid but an input is null (a = {}, b = {})", what, i, avals[i], b);
            } else {
                ensure!(o.is_valid(i), format!("{}:null", sig), "{}: row {} is null but both inputs are valid (a = {}, b = {})", what, i, avals[i], b);
                let g = ov[i].to_i() as i64;
                ensure!(g == codes[i], format!("{}:value", sig), "{}: row {}: a = {}, b = {} gives {} expected {}", what, i, avals[i], b, g, codes[i]);
            }
        }
        ensure!(o.null_count() == nn, format!("{}:null_count", sig), "{}: null_count {} expected {}", what, o.null_count(), nn);
        st.evals += n as u64;
        st.err_rows += errs.len() as u64;
        if !errs.is_empty() {
            st.boundary = true;
        }
        // unmask error rows one at a time: the error must now surface (and be of the right kind)
        let picks: Vec<u32> = if all_errs || errs.len() <= 4 {
            errs.clone()
        } else {
            let m = errs.len() as u64;
            vec![errs[0], errs[errs.len() - 1], errs[(h(sseed, 7) % m) as usize], errs[(h(sseed, 8) % m) as usize]]
        };
        for e in picks {
            let e = e as usize;
            let mut vb2 = vbits.clone();
            vb2[e] = 3;
            let (la2, ra2) = build(&vb2);
            let res = no_panic(&what, || call(k, shape, &la2, &ra2))?;
            match res {
                Ok(_) => fail!(format!("{}:err-missing", sig), "{}: Ok although valid row {} (a = {}, b = {}) must fail", what, e, avals[e], b),
                Err(err) => {
                    let okk = if codes[e] == W_DZ { matches!(err, ArrowError::DivideByZero) } else { matches!(err, ArrowError::ArithmeticOverflow(_)) };
                    ensure!(okk, format!("{}:err-kind", sig), "{}: row {} (a = {}, b = {}) failed with {:?}", what, e, avals[e], b, err);
                }
            }
            st.evals += 1;
        }
    }
    Ok(())
}

fn grid_unary<T: ArrowPrimitiveType>(wrapping: bool, seed: u64, st: &mut GridStats) -> CaseResult
where
    T::Native: NatI,
{
    let (bits, signed) = (T::Native::BITS, T::Native::SIGNED);
    let (lo, hi) = int_range(bits, signed);
    let n = (hi - lo + 1) as usize;
    let avals: Vec<i128> = (lo..=hi).collect();
    let dt = T::DATA_TYPE;
    let what = if wrapping { "neg_wrapping" } else { "neg" };
    // native level
    for &a in &avals {
        let x = T::Native::from_i(a);
        let g = x.neg_wrapping().to_i();
        let w = trunc(a.wrapping_neg(), bits, signed);
        ensure!(g == w, "native.neg_wrapping:value", "{:?}.neg_wrapping() = {} expected {}", x, g, w);
        match (x.neg_checked(), want_neg(a, false, bits, signed)) {
            (Ok(v), Want::Val(w)) => ensure!(v.to_i() == w, "native.neg_checked:value", "{:?}.neg_checked() = {:?} expected {}", x, v, w),
            (Err(_), Want::Overflow) => {}
            (r, w) => fail!("native.neg_checked:outcome", "{:?}.neg_checked() = {:?} expected {:?}", x, r.map(|v| v.to_i()), w),
        }
    }
    st.evals += n as u64;
    let wants: Vec<Want> = avals.iter().map(|a| want_neg(*a, wrapping, bits, signed)).collect();
    let mut valid: Vec<bool> = (0..n).map(|i| h(seed, i as u64) % 16 != 0).collect();
    let k: fn(&dyn Array) -> Result<ArrayRef, ArrowError> = if wrapping { num::neg_wrapping } else { num::neg };
    if !signed && !wrapping {
        // documented: negation of unsigned arrays is not supported and returns an error
        let a = mk_int::<T>(&avals, &valid, &PLay::from_hash(seed), &dt);
        let res = no_panic(what, || k(a.as_ref()))?;
        ensure!(matches!(res, Err(ArrowError::InvalidArgumentError(_))), "neg:unsigned", "neg on {} must be an InvalidArgumentError, got {:?}", dt, res.map(|a| a.len()));
        st.evals += 1;
        return Ok(());
    }
    let errs: Vec<usize> = (0..n).filter(|i| wants[*i].is_err()).collect();
    for e in &errs {
        valid[*e] = false;
    }
    let a = mk_int::<T>(&avals, &valid, &PLay::from_hash(seed), &dt);
    let res = no_panic(what, || k(a.as_ref()))?;
    let rows: Vec<(bool, Want)> = (0..n).map(|i| (valid[i], wants[i])).collect();
    if let Some(w) = judge(what, &res, &rows)? {
        cmp_int::<T>(what, res.as_ref().unwrap(), &w, &dt)?;
    } else {
        fail!(format!("{}:err-spurious", what), "{}: Err although every failing value is under a null slot", what);
    }
    st.evals += n as u64;
    for e in errs {
        let mut v2 = valid.clone();
        v2[e] = true;
        let a2 = mk_int::<T>(&avals, &v2, &PLay::from_hash(seed), &dt);
        let res = no_panic(what, || k(a2.as_ref()))?;
        ensure!(matches!(res, Err(ArrowError::ArithmeticOverflow(_))), format!("{}:err-missing", what), "{}: {} valid must overflow", what, avals[e]);
        st.err_rows += 1;
        st.boundary = true;
    }
    Ok(())
}

/// boundary-dense right operands of a 16-bit type (quick tier)
fn boundary16(signed: bool) -> Vec<i128> {
    let (lo, hi) = int_range(16, signed);
    let mut v = vec![lo, lo + 1, lo + 2, hi, hi - 1, hi - 2, 0, 1, 2, 3, 10, 100, 127, 128, 129, 181, 182, 255, 256, 257, 1000, 10000, hi / 2, hi / 2 + 1, hi / 3];
    if signed {
        v.extend([-1, -2, -3, -10, -128, -129, -181, -182, -255, -256, -257, lo / 2, lo / 2 - 1, lo / 2 + 1, -10000]);
    } else {
        v.extend([32767, 32768, 32769, 65280, 4096, 4095]);
    }
    v.sort();
    v.dedup();
    v
}

/// index layout of the 8-bit grid: type(2) x [8 binary ops x 8 blocks of 32 right operands | 2 unary]
fn sub_int8_grid(c: &mut Case) -> CaseResult {
    let idx = c.tape.u64();
    let seed = c.tape.u64();
    let ti = (idx % 2) as usize; // 0 = Int8, 1 = UInt8
    let r = idx / 2;
    let mut st = GridStats { evals: 0, err_rows: 0, boundary: false };
    let signed = ti == 0;
    let (lo, _) = int_range(8, signed);
    if r >= 64 {
        let wrapping = r - 64 == 1;
        c.class(if wrapping { "op:neg_wrapping" } else { "op:neg" });
        c.describe(json!({"type": if signed {"Int8"} else {"UInt8"}, "op": if wrapping {"neg_wrapping"} else {"neg"}, "operands": "all 256 values"}));
        macro_rules! m {
            ($T:ty) => {
                grid_unary::<$T>(wrapping, seed, &mut st)?
            };
        }
        with_int!(ti, m);
    } else {
        let op = BINOPS[(r % 8) as usize];
        let block = (r / 8) as i128;
        c.class(format!("op:{}", op.name()));
        c.describe(json!({"type": if signed {"Int8"} else {"UInt8"}, "op": op.name(), "right operands": format!("{}..{}", lo + block * 32, lo + block * 32 + 31), "left operands": "all 256 values", "shapes": "AA, AS, SA"}));
        macro_rules! m {
            ($T:ty) => {{
                let ctx = GridCtx::<$T>::new();
                for b in (lo + block * 32)..(lo + block * 32 + 32) {
                    grid_unit::<$T>(&ctx, op, b, seed, true, &mut st)?;
                }
            }};
        }
        with_int!(ti, m);
    }
    c.class(if signed { "type:signed" } else { "type:unsigned" });
    if st.boundary {
        c.class("has-overflowing-pairs");
        c.nontrivial();
    }
    c.evals(st.evals);
    Ok(())
}

/// index layout of the 16-bit grid: idx < 20: boundary right operands (quick); then type(2) x 8 ops x 1024 blocks of 64
fn sub_int16_grid(c: &mut Case) -> CaseResult {
    let idx = c.tape.u64();
    let seed = c.tape.u64();
    let mut st = GridStats { evals: 0, err_rows: 0, boundary: false };
    let (ti, signed, opname);
    if idx < 20 {
        ti = 2 + (idx % 2) as usize;
        signed = ti == 2;
        let r = idx / 2;
        if r >= 8 {
            let wrapping = r == 9;
            opname = if wrapping { "neg_wrapping" } else { "neg" };
            c.describe(json!({"type": if signed {"Int16"} else {"UInt16"}, "op": opname, "operands": "all 65536 values"}));
            macro_rules! m {
                ($T:ty) => {
                    grid_unary::<$T>(wrapping, seed, &mut st)?
                };
            }
            with_int!(ti, m);
        } else {
            let op = BINOPS[r as usize];
            opname = op.name();
            let bs = boundary16(signed);
            c.describe(json!({"type": if signed {"Int16"} else {"UInt16"}, "op": opname, "right operands": format!("{} boundary values", bs.len()), "left operands": "all 65536 values", "shapes": "AA, AS, SA"}));
            macro_rules! m {
                ($T:ty) => {{
                    let ctx = GridCtx::<$T>::new();
                    for b in bs {
                        grid_unit::<$T>(&ctx, op, b, seed, false, &mut st)?;
                    }
                }};
            }
            with_int!(ti, m);
            c.class("right-operands:boundary-set");
        }
    } else {
        let j = idx - 20;
        ti = 2 + (j % 2) as usize;
        signed = ti == 2;
        let r = j / 2;
        let op = BINOPS[(r % 8) as usize];
        opname = op.name();
        let block = (r / 8) as i128;
        let (lo, _) = int_range(16, signed);
        c.describe(json!({"type": if signed {"Int16"} else {"UInt16"}, "op": opname, "right operands": format!("{}..{}", lo + block * 64, lo + block * 64 + 63), "left operands": "all 65536 values", "shapes": "AA, AS, SA"}));
        macro_rules! m {
            ($T:ty) => {{
                let ctx = GridCtx::<$T>::new();
                for b in (lo + block * 64)..(lo + block * 64 + 64) {
                    grid_unit::<$T>(&ctx, op, b, seed, false, &mut st)?;
                }
            }};
        }
        with_int!(ti, m);
        c.class("right-operands:full-block");
    }
    c.class(format!("op:{}", opname));
    c.class(if signed { "type:signed" } else { "type:unsigned" });
    if st.boundary {
        c.class("has-overflowing-pairs");
        c.nontrivial();
    }
    c.evals(st.evals);
    Ok(())
}

// =================================================================================================
// sub-check 3: sampled integer arithmetic, all 8 types, boundary-dense operands, layouts, all Datum shapes

fn pow10(k: u32) -> i128 {
    10i128.pow(k)
}

/// boundary-dense value of an integer type
fn gen_int(t: &mut Tape, bits: u32, signed: bool) -> i128 {
    let (lo, hi) = int_range(bits, signed);
    let d = |t: &mut Tape| t.below(3) as i128 - 1;
    let v = match t.below(18) {
        0 => 0,
        1 => 1,
        2 => -1,
        3 => lo,
        4 => hi,
        5 => lo + 1,
        6 => hi - 1,
        7 | 8 => t.below(12) as i128,
        9 => -(t.below(12) as i128),
        10 => (1i128 << t.below(bits as usize)) + d(t),
        11 => -(1i128 << t.below(bits as usize)) + d(t),
        12 => {
            let k = t.below(20) as u32;
            pow10(k) + d(t)
        }
        13 => hi / 2 + d(t),
        14 => (1i128 << (bits / 2)) + d(t) * (1 + t.below(3) as i128),
        15 => lo / 2 + d(t),
        _ => t.u64() as i128 | ((t.u64() as i128) << 64),
    };
    if v < lo || v > hi { trunc(v, bits, signed) } else { v }
}

/// a right operand that puts `a op b` at the edge of the representable range
fn gen_partner(t: &mut Tape, op: Op, a: i128, bits: u32, signed: bool) -> i128 {
    let (lo, hi) = int_range(bits, signed);
    let d = t.below(3) as i128 - 1;
    let top = t.bool();
    let lim = if top { hi } else { lo };
    let v = match op.base() {
        Op::Add => lim.saturating_sub(a).saturating_add(d),
        Op::Sub => a.saturating_sub(lim).saturating_add(d),
        Op::Mul => {
            if a == 0 {
                hi
            } else {
                (lim / a).saturating_add(d)
            }
        }
        _ => *t.pick(&[0i128, -1, 1, a, 2, -2, lo, hi]),
    };
    if bits == 128 {
        return v;
    }
    v.clamp(lo, hi)
}

fn gen_case_len(t: &mut Tape) -> usize {
    match t.below(10) {
        0 => 0,
        1 => 1,
        2 => *t.pick(&[63usize, 64, 65, 127, 128, 129, 2, 3, 8, 9, 31, 33]),
        3 => 40 + t.below(160),
        _ => 1 + t.below(24),
    }
}

fn result_near_boundary(w: &Want, bits: u32, signed: bool) -> bool {
    let (lo, hi) = int_range(bits, signed);
    match w {
        Want::Val(v) => *v >= hi - 1 || *v <= lo.saturating_add(1),
        _ => true,
    }
}

struct IntCase {
    lv: Vec<i128>,
    lvalid: Vec<bool>,
    rv: Vec<i128>,
    rvalid: Vec<bool>,
    shape: Shape,
    n: usize,
    garbage_would_err: bool,
    near_boundary: bool,
}

/// generate operand columns for a binary integer-like operation given the per-row semantics `sem`
fn gen_int_case(t: &mut Tape, op: Op, bits: u32, signed: bool, rbits: u32, rsigned: bool, sem: &dyn Fn(i128, i128) -> Want) -> IntCase {
    let shape = match t.below(8) {
        0 | 1 => Shape::AS,
        2 | 3 => Shape::SA,
        4 => Shape::SS,
        _ => Shape::AA,
    };
    let n0 = gen_case_len(t);
    let (ln, rn) = match shape {
        Shape::AA => (n0, n0),
        Shape::AS => (n0, 1),
        Shape::SA => (1, n0),
        Shape::SS => (1, 1),
    };
    let n = out_len(shape, ln, rn);
    let want_err = t.chance(64);
    let null_p = *t.pick(&[0u32, 24, 64, 128, 230]);
    let mut lv: Vec<i128> = (0..ln).map(|_| gen_int(t, bits, signed)).collect();
    let mut rv: Vec<i128> = (0..rn).map(|_| gen_int(t, rbits, rsigned)).collect();
    // tie operands together so that results land on the edge of the range
    if bits == rbits && signed == rsigned {
        for i in 0..n {
            if t.chance(100) {
                let (il, ir) = row_index(shape, i);
                if rn > 1 || ln == 1 {
                    rv[ir] = gen_partner(t, op, lv[il], bits, signed);
                } else {
                    // scalar on the right: move the array operand instead (a = f(b) for commutative ops only)
                    if matches!(op.base(), Op::Add | Op::Mul) {
                        lv[il] = gen_partner(t, op, rv[ir], bits, signed);
                    }
                }
            }
        }
    }
    let mut lvalid: Vec<bool> = (0..ln).map(|_| !t.chance(null_p)).collect();
    let mut rvalid: Vec<bool> = (0..rn).map(|_| !t.chance(null_p)).collect();
    // scalars are valid most of the time
    if ln == 1 && n0 != 1 && !t.chance(24) {
        lvalid[0] = true;
    }
    if rn == 1 && n0 != 1 && !t.chance(24) {
        rvalid[0] = true;
    }
    let mut garbage_would_err = false;
    let mut near = false;
    for i in 0..n {
        let (il, ir) = row_index(shape, i);
        let w = sem(lv[il], rv[ir]);
        let valid = lvalid[il] && rvalid[ir];
        if w.is_err() && valid && !want_err {
            // put the failing operands under a null slot on an array side
            match shape {
                Shape::AA => {
                    if t.bool() {
                        lvalid[il] = false
                    } else {
                        rvalid[ir] = false
                    }
                }
                Shape::AS => lvalid[il] = false,
                Shape::SA => rvalid[ir] = false,
                Shape::SS => {
                    if t.bool() {
                        lvalid[0] = false
                    } else {
                        rvalid[0] = false
                    }
                }
            }
        }
    }
    for i in 0..n {
        let (il, ir) = row_index(shape, i);
        let w = sem(lv[il], rv[ir]);
        let valid = lvalid[il] && rvalid[ir];
        if w.is_err() && !valid {
            garbage_would_err = true;
        }
        if valid && result_near_boundary(&w, bits, signed) {
            near = true;
        }
    }
    IntCase { lv, lvalid, rv, rvalid, shape, n, garbage_would_err, near_boundary: near }
}

fn short_rows(ic: &IntCase) -> serde_json::Value {
    let f = |v: &[i128], ok: &[bool]| -> Vec<String> { v.iter().zip(ok).take(10).map(|(x, o)| if *o { format!("{}", x) } else { format!("null({})", x) }).collect() };
    json!({"left": f(&ic.lv, &ic.lvalid), "right": f(&ic.rv, &ic.rvalid), "len": ic.n})
}

fn classes_of(c: &mut Case, ic: &IntCase, errs: usize) {
    c.class(format!("shape:{}", ic.shape.name()));
    c.class(match ic.n {
        0 => "len:0",
        1 => "len:1",
        2..=63 => "len:2-63",
        64..=65 => "len:64-65",
        _ => "len:>65",
    });
    if ic.garbage_would_err {
        c.class("null-slot-garbage-would-fail");
    }
    if ic.near_boundary {
        c.class("result-at-type-boundary");
    }
    c.class(if errs > 0 { "outcome:must-err" } else { "outcome:must-succeed" });
    if ic.lvalid.iter().all(|v| *v) && ic.rvalid.iter().all(|v| *v) {
        c.class("nulls:none");
    } else {
        c.class("nulls:some");
    }
    if ic.garbage_would_err || ic.near_boundary {
        c.nontrivial();
    }
}

fn run_int_sampled<T: ArrowPrimitiveType>(c: &mut Case, op_idx: usize) -> CaseResult
where
    T::Native: NatI,
{
    let (bits, signed) = (T::Native::BITS, T::Native::SIGNED);
    let dt = T::DATA_TYPE;
    if op_idx >= 8 {
        // unary negation
        let wrapping = op_idx == 9;
        let what = if wrapping { "neg_wrapping" } else { "neg" };
        let n = gen_case_len(&mut c.tape);
        let want_err = c.tape.chance(64);
        let null_p = *c.tape.pick(&[0u32, 24, 64, 128]);
        let (lo, _) = int_range(bits, signed);
        let vals: Vec<i128> = (0..n).map(|_| if c.tape.chance(40) { lo } else { gen_int(&mut c.tape, bits, signed) }).collect();
        let mut valid: Vec<bool> = (0..n).map(|_| !c.tape.chance(null_p)).collect();
        let wants: Vec<Want> = vals.iter().map(|a| want_neg(*a, wrapping, bits, signed)).collect();
        let mut garbage = false;
        for i in 0..n {
            if wants[i].is_err() && valid[i] && !want_err {
                valid[i] = false;
            }
            if wants[i].is_err() && !valid[i] {
                garbage = true;
            }
        }
        let lay = PLay::from_tape(&mut c.tape);
        let a = mk_int::<T>(&vals, &valid, &lay, &dt);
        c.class(format!("op:{}", what));
        c.describe(json!({"type": format!("{}", dt), "op": what, "values": vals.iter().zip(&valid).take(10).map(|(x, o)| if *o { format!("{}", x) } else { format!("null({})", x) }).collect::<Vec<_>>(), "len": n}));
        let k: fn(&dyn Array) -> Result<ArrayRef, ArrowError> = if wrapping { num::neg_wrapping } else { num::neg };
        let res = no_panic(what, || k(a.as_ref()))?;
        if !signed && !wrapping {
            ensure!(matches!(res, Err(ArrowError::InvalidArgumentError(_))), "neg:unsigned", "neg on {} must be an InvalidArgumentError", dt);
            c.class("neg-unsigned-rejected");
            c.evals(1);
            return Ok(());
        }
        let rows: Vec<(bool, Want)> = (0..n).map(|i| (valid[i], wants[i])).collect();
        let nerr = rows.iter().filter(|r| r.0 && r.1.is_err()).count();
        if let Some(w) = judge(what, &res, &rows)? {
            cmp_int::<T>(what, res.as_ref().unwrap(), &w, &dt)?;
        }
        if garbage {
            c.class("null-slot-garbage-would-fail");
            c.nontrivial();
        }
        c.class(if nerr > 0 { "outcome:must-err" } else { "outcome:must-succeed" });
        if nerr > 0 {
            c.nontrivial();
        }
        c.evals(n as u64 + 1);
        return Ok(());
    }
    let op = BINOPS[op_idx];
    let sem = move |a: i128, b: i128| want_int(op, a, b, bits, signed);
    let ic = gen_int_case(&mut c.tape, op, bits, signed, bits, signed, &sem);
    let llay = PLay::from_tape(&mut c.tape);
    let rlay = PLay::from_tape(&mut c.tape);
    let la = mk_int::<T>(&ic.lv, &ic.lvalid, &llay, &dt);
    let ra = mk_int::<T>(&ic.rv, &ic.rvalid, &rlay, &dt);
    let what = format!("{}[{}]", op.name(), ic.shape.name());
    c.class(format!("op:{}", op.name()));
    let mut d = short_rows(&ic);
    d["type"] = json!(format!("{}", dt));
    d["op"] = json!(op.name());
    d["shape"] = json!(ic.shape.name());
    c.describe(d);
    let rows: Vec<(bool, Want)> = (0..ic.n)
        .map(|i| {
            let (il, ir) = row_index(ic.shape, i);
            (ic.lvalid[il] && ic.rvalid[ir], sem(ic.lv[il], ic.rv[ir]))
        })
        .collect();
    let nerr = rows.iter().filter(|r| r.0 && r.1.is_err()).count();
    classes_of(c, &ic, nerr);
    let res = no_panic(&what, || call(op.kernel(), ic.shape, &la, &ra))?;
    if let Some(w) = judge(&what, &res, &rows)? {
        cmp_int::<T>(&what, res.as_ref().unwrap(), &w, &dt)?;
        vp_engine::validate::check_valid(res.as_ref().unwrap().as_ref(), "kernel-result")?;
    }
    c.evals(ic.n as u64 + 1);
    Ok(())
}

fn sub_int_sampled(c: &mut Case) -> CaseResult {
    let ti = *c.tape.pick(&[6usize, 7, 4, 5, 6, 7, 4, 5, 0, 1, 2, 3]);
    let op_idx = c.tape.below(10);
    c.class(format!("type:{}", ["Int8", "UInt8", "Int16", "UInt16", "Int32", "UInt32", "Int64", "UInt64"][ti]));
    macro_rules! m {
        ($T:ty) => {
            run_int_sampled::<$T>(c, op_idx)
        };
    }
    with_int!(ti, m)
}

// =================================================================================================
// big integers (128/256-bit natives) against num-bigint
fn pow2(k: u32) -> BigInt {
    BigInt::from(1) << k
}
fn big0() -> BigInt {
    BigInt::from(0)
}
fn pow10_big(k: u32) -> BigInt {
    BigInt::from(10).pow(k)
}
/// reduce modulo 2^bits into the signed range
fn wrap_big(v: &BigInt, bits: u32) -> BigInt {
    let m = pow2(bits);
    let mut r = v % &m;
    if r.sign() == Sign::Minus {
        r += &m;
    }
    if r >= pow2(bits - 1) {
        r -= &m;
    }
    r
}
fn fits_big(v: &BigInt, bits: u32) -> bool {
    *v >= -pow2(bits - 1) && *v < pow2(bits - 1)
}
fn big_of_parts(low: u128, high: i128) -> BigInt {
    (BigInt::from(high) << 128u32) + BigInt::from(low)
}
/// (low, high) limbs of a value in the i256 range
fn parts_of_big(v: &BigInt) -> (u128, i128) {
    let high: BigInt = v >> 128u32; // floor
    let low = v - (&high << 128u32);
    (u128::try_from(&low).expect("low limb"), i128::try_from(&high).expect("high limb"))
}
fn i256_of_big(v: &BigInt) -> i256 {
    let (l, hh) = parts_of_big(v);
    i256::from_parts(l, hh)
}
fn big_of_i256(v: i256) -> BigInt {
    let (l, hh) = v.to_parts();
    big_of_parts(l, hh)
}

trait NatB: ArrowNativeTypeOp + std::fmt::Debug {
    const BITS: u32;
    /// wrapping conversion
    fn from_big(v: &BigInt) -> Self;
    fn to_big(self) -> BigInt;
}
macro_rules! nat_b {
    ($($t:ty, $b:expr);*) => { $(impl NatB for $t {
        const BITS: u32 = $b;
        fn from_big(v: &BigInt) -> Self { i128::try_from(&wrap_big(v, $b)).unwrap() as $t }
        fn to_big(self) -> BigInt { BigInt::from(self) }
    })* };
}
nat_b!(i32, 32; i64, 64; i128, 128);
impl NatB for i256 {
    const BITS: u32 = 256;
    fn from_big(v: &BigInt) -> Self {
        i256_of_big(&wrap_big(v, 256))
    }
    fn to_big(self) -> BigInt {
        big_of_i256(self)
    }
}

/// boundary-dense signed value of `bits` bits (64-bit limb patterns, powers of two and ten, extremes)
fn gen_big(t: &mut Tape, bits: u32) -> BigInt {
    let min: BigInt = -pow2(bits - 1);
    let max: BigInt = pow2(bits - 1) - 1;
    let d = |t: &mut Tape| BigInt::from(t.below(3) as i64 - 1);
    let sign = |t: &mut Tape, v: BigInt| if t.bool() { -v } else { v };
    let v = match t.below(18) {
        0 => big0(),
        1 => BigInt::from(1),
        2 => BigInt::from(-1),
        3 => min.clone(),
        4 => max.clone(),
        5 => &min + 1,
        6 => &max - 1,
        7 => BigInt::from(t.below(12) as i64),
        8 => -BigInt::from(t.below(12) as i64),
        9 | 10 => {
            let k = t.below(bits as usize) as u32;
            let v = pow2(k) + d(t);
            sign(t, v)
        }
        11 => {
            let k = t.below((bits as usize * 30103) / 100000 + 1) as u32;
            let v = pow10_big(k) + d(t);
            sign(t, v)
        }
        12 => {
            // limb patterns
            let mut v = big0();
            for i in 0..(bits / 64) {
                let limb: u64 = match t.below(6) {
                    0 => 0,
                    1 => u64::MAX,
                    2 => 1,
                    3 => 1 << 63,
                    4 => u32::MAX as u64,
                    _ => t.u64(),
                };
                v += BigInt::from(limb) << (64 * i);
            }
            wrap_big(&v, bits)
        }
        13 => {
            let v = pow2(bits / 2) + d(t) * BigInt::from(1 + t.below(3) as i64);
            sign(t, v)
        }
        14 => BigInt::from(t.u64() as i64),
        15 => {
            let v = pow2(bits / 2 - 1) + d(t);
            sign(t, v)
        }
        _ => {
            let mut v = big0();
            for i in 0..(bits / 64).max(1) {
                v += BigInt::from(t.u64()) << (64 * i);
            }
            wrap_big(&v, bits)
        }
    };
    if fits_big(&v, bits) { v } else { wrap_big(&v, bits) }
}
/// right operand placing `a op b` at the edge of the `bits` range
fn gen_big_partner(t: &mut Tape, op: Op, a: &BigInt, bits: u32) -> BigInt {
    let min: BigInt = -pow2(bits - 1);
    let max: BigInt = pow2(bits - 1) - 1;
    let d = BigInt::from(t.below(3) as i64 - 1);
    let lim = if t.bool() { max.clone() } else { min.clone() };
    let v = match op.base() {
        Op::Add => &lim - a + d,
        Op::Sub => a - &lim + d,
        Op::Mul => {
            if a.sign() == Sign::NoSign {
                max.clone()
            } else {
                &lim / a + d
            }
        }
        _ => t.pick(&[big0(), BigInt::from(-1), BigInt::from(1), a.clone(), BigInt::from(2), min.clone(), max.clone(), pow2(64), pow2(128) + 1]).clone(),
    };
    if v < min {
        min
    } else if v > max {
        max
    } else {
        v
    }
}

// =================================================================================================
// sub-check 4: i256 scalar operations
fn sub_i256(c: &mut Case) -> CaseResult {
    use num_traits::ToPrimitive;
    let t = &mut c.tape;
    let op_hint = BINOPS[t.below(8)];
    let a = gen_big(t, 256);
    let b = if t.chance(110) { gen_big_partner(t, op_hint, &a, 256) } else { gen_big(t, 256) };
    let (x, y) = (i256_of_big(&a), i256_of_big(&b));
    let min = -pow2(255);
    let sa = a.to_string();
    c.describe(json!({"a": sa, "b": b.to_string()}));
    let eq = |what: &str, got: i256, want: &BigInt| -> CaseResult {
        let g = big_of_i256(got);
        ensure!(g == *want, format!("i256.{}:value", what), "i256 {}({}, {}) = {} expected {}", what, a, b, g, want);
        Ok(())
    };
    let opt = |what: &str, got: Option<i256>, want: Option<&BigInt>| -> CaseResult {
        match (got, want) {
            (Some(g), Some(w)) => eq(what, g, w),
            (None, None) => Ok(()),
            (Some(g), None) => Err(Fail::new(format!("i256.{}:overflow-missed", what), format!("i256 {}({}, {}) = Some({}) but the exact result is not representable", what, a, b, g))),
            (None, Some(w)) => Err(Fail::new(format!("i256.{}:spurious-none", what), format!("i256 {}({}, {}) = None expected {}", what, a, b, w))),
        }
    };
    let mut boundary = false;
    no_panic("i256-ops", || -> CaseResult {
        for (name, exact, chk, wr) in [
            ("add", &a + &b, x.checked_add(y), x.wrapping_add(y)),
            ("sub", &a - &b, x.checked_sub(y), x.wrapping_sub(y)),
            ("mul", &a * &b, x.checked_mul(y), x.wrapping_mul(y)),
        ] {
            let f = fits_big(&exact, 256);
            if !f || fits_big(&(&exact + 1), 256) != fits_big(&(&exact - 1), 256) {
                boundary = true;
            }
            opt(&format!("checked_{}", name), chk, if f { Some(&exact) } else { None })?;
            eq(&format!("wrapping_{}", name), wr, &wrap_big(&exact, 256))?;
        }
        let (s, o) = x.overflowing_add(y);
        eq("overflowing_add", s, &wrap_big(&(&a + &b), 256))?;
        ensure!(o == !fits_big(&(&a + &b), 256), "i256.overflowing_add:flag", "overflowing_add({}, {}) flag {}", a, b, o);
        let (s, o) = x.overflowing_sub(y);
        eq("overflowing_sub", s, &wrap_big(&(&a - &b), 256))?;
        ensure!(o == !fits_big(&(&a - &b), 256), "i256.overflowing_sub:flag", "overflowing_sub({}, {}) flag {}", a, b, o);
        // division
        if b.sign() == Sign::NoSign {
            opt("checked_div", x.checked_div(y), None)?;
            opt("checked_rem", x.checked_rem(y), None)?;
        } else {
            let q = &a / &b;
            let r = &a % &b;
            let min_neg1 = a == min && b == BigInt::from(-1);
            if min_neg1 {
                boundary = true;
            }
            opt("checked_div", x.checked_div(y), if fits_big(&q, 256) { Some(&q) } else { None })?;
            eq("wrapping_div", x.wrapping_div(y), &wrap_big(&q, 256))?;
            eq("wrapping_rem", x.wrapping_rem(y), &r)?;
            match x.checked_rem(y) {
                None if min_neg1 => {} // like std: MIN % -1 reports overflow although 0 is representable
                g => opt("checked_rem", g, Some(&r))?,
            }
        }
        // unary
        let n = -&a;
        opt("checked_neg", x.checked_neg(), if fits_big(&n, 256) { Some(&n) } else { None })?;
        eq("wrapping_neg", x.wrapping_neg(), &wrap_big(&n, 256))?;
        let ab = if a.sign() == Sign::Minus { -&a } else { a.clone() };
        opt("checked_abs", x.checked_abs(), if fits_big(&ab, 256) { Some(&ab) } else { None })?;
        eq("wrapping_abs", x.wrapping_abs(), &wrap_big(&ab, 256))?;
        Ok(())
    })??;
    // powers
    let e = match c.tape.below(6) {
        0 => 0,
        1 => 1,
        2 => 2,
        3 => 3 + c.tape.below(6) as u32,
        4 => 250 + c.tape.below(10) as u32,
        _ => c.tape.below(130) as u32,
    };
    let base_small = c.tape.chance(160);
    let (pa, px) = if base_small {
        let v = BigInt::from(c.tape.range(-12, 12));
        (v.clone(), i256_of_big(&v))
    } else {
        (a.clone(), x)
    };
    no_panic("i256-pow", || -> CaseResult {
        let p = pa.pow(e);
        let f = fits_big(&p, 256);
        match (px.checked_pow(e), f) {
            (Some(g), true) => ensure!(big_of_i256(g) == p, "i256.checked_pow:value", "{}^{} = {} expected {}", pa, e, big_of_i256(g), p),
            (None, false) => {}
            (g, _) => fail!("i256.checked_pow:outcome", "{}^{} = {:?} but exact result fits = {}", pa, e, g, f),
        }
        let g = big_of_i256(px.wrapping_pow(e));
        ensure!(g == wrap_big(&p, 256), "i256.wrapping_pow:value", "{}.wrapping_pow({}) = {} expected {}", pa, e, g, wrap_big(&p, 256));
        Ok(())
    })??;
    // comparisons, conversions, bits
    let sh = c.tape.u8();
    no_panic("i256-misc", || -> CaseResult {
        ensure!(x.cmp(&y) == a.cmp(&b) && x.partial_cmp(&y) == Some(a.cmp(&b)), "i256.cmp", "cmp({}, {}) = {:?}", a, b, x.cmp(&y));
        ensure!((x == y) == (a == b), "i256.eq", "eq({}, {})", a, b);
        ensure!(x.is_negative() == (a.sign() == Sign::Minus) && x.is_positive() == (a.sign() == Sign::Plus), "i256.sign", "sign predicates of {}", a);
        let sg = match a.sign() {
            Sign::Minus => -1,
            Sign::NoSign => 0,
            Sign::Plus => 1,
        };
        ensure!(big_of_i256(x.signum()) == BigInt::from(sg), "i256.signum", "signum({})", a);
        let f128 = fits_big(&a, 128);
        ensure!(x.to_i128().map(BigInt::from) == if f128 { Some(a.clone()) } else { None }, "i256.to_i128", "to_i128({}) = {:?}", a, x.to_i128());
        ensure!(BigInt::from(x.as_i128()) == wrap_big(&a, 128), "i256.as_i128", "as_i128({}) = {}", a, x.as_i128());
        if f128 {
            let v = i128::try_from(&a).unwrap();
            ensure!(i256::from_i128(v) == x && i256::from(v) == x, "i256.from_i128", "from_i128({})", v);
        }
        // bytes
        let mut le = a.to_signed_bytes_le();
        let fill = if a.sign() == Sign::Minus { 0xffu8 } else { 0 };
        le.resize(32, fill);
        let le: [u8; 32] = le.try_into().unwrap();
        let mut be = le;
        be.reverse();
        ensure!(x.to_le_bytes() == le && x.to_be_bytes() == be, "i256.to_bytes", "to_le/be_bytes({})", a);
        ensure!(i256::from_le_bytes(le) == x && i256::from_be_bytes(be) == x, "i256.from_bytes", "from_le/be_bytes({})", a);
        // strings
        ensure!(x.to_string() == sa, "i256.to_string", "to_string gives {} expected {}", x, sa);
        ensure!(i256::from_string(&sa) == Some(x), "i256.from_string", "from_string({}) = {:?}", sa, i256::from_string(&sa));
        ensure!(sa.parse::<i256>().ok() == Some(x), "i256.from_str", "parse({})", sa);
        if a.sign() != Sign::Minus {
            let plus = format!("+{}", sa);
            ensure!(i256::from_string(&plus) == Some(x), "i256.from_string", "from_string({}) = {:?}", plus, i256::from_string(&plus));
            let z = format!("000{}", sa);
            ensure!(i256::from_string(&z) == Some(x), "i256.from_string", "from_string({}) = {:?}", z, i256::from_string(&z));
        } else {
            let z = format!("-00{}", &sa[1..]);
            ensure!(i256::from_string(&z) == Some(x), "i256.from_string", "from_string({}) = {:?}", z, i256::from_string(&z));
        }
        // numbers just outside the range and far outside must be rejected
        for out in [pow2(255), -pow2(255) - 1, &a * pow10_big(40) + pow2(255) * if a.sign() == Sign::Minus { -1 } else { 1 }] {
            let so = out.to_string();
            ensure!(i256::from_string(&so).is_none(), "i256.from_string:out-of-range", "from_string({}) = {:?} but the number is not representable", so, i256::from_string(&so));
        }
        // bit operations
        let m256 = pow2(256);
        let ua = if a.sign() == Sign::Minus { &a + &m256 } else { a.clone() };
        ensure!(x.leading_zeros() as u64 == 256 - ua.bits(), "i256.leading_zeros", "leading_zeros({}) = {}", a, x.leading_zeros());
        let tz = if a.sign() == Sign::NoSign { 256 } else { ua.trailing_zeros().unwrap() };
        ensure!(x.trailing_zeros() as u64 == tz, "i256.trailing_zeros", "trailing_zeros({}) = {}", a, x.trailing_zeros());
        ensure!(big_of_i256(x & y) == (&a & &b) && big_of_i256(x | y) == (&a | &b) && big_of_i256(x ^ y) == (&a ^ &b), "i256.bitops", "and/or/xor({}, {})", a, b);
        ensure!(big_of_i256(!x) == -&a - 1, "i256.not", "not({})", a);
        let shl = wrap_big(&(&a << sh as u32), 256);
        ensure!(big_of_i256(x << sh) == shl, "i256.shl", "{} << {} = {} expected {}", a, sh, big_of_i256(x << sh), shl);
        let shr: BigInt = &a >> sh as u32;
        ensure!(big_of_i256(x >> sh) == shr, "i256.shr", "{} >> {} = {} expected {}", a, sh, big_of_i256(x >> sh), shr);
        // ArrowNativeTypeOp view of the same operations
        let s = &a + &b;
        match x.add_checked(y) {
            Ok(g) => ensure!(fits_big(&s, 256) && big_of_i256(g) == s, "i256.add_checked", "add_checked({}, {}) = {}", a, b, g),
            Err(_) => ensure!(!fits_big(&s, 256), "i256.add_checked", "add_checked({}, {}) = Err", a, b),
        }
        let p = &a * &b;
        match x.mul_checked(y) {
            Ok(g) => ensure!(fits_big(&p, 256) && big_of_i256(g) == p, "i256.mul_checked", "mul_checked({}, {}) = {}", a, b, g),
            Err(_) => ensure!(!fits_big(&p, 256), "i256.mul_checked", "mul_checked({}, {}) = Err", a, b),
        }
        match x.div_checked(y) {
            Ok(g) => ensure!(b.sign() != Sign::NoSign && big_of_i256(g) == &a / &b, "i256.div_checked", "div_checked({}, {}) = {}", a, b, g),
            Err(e) => ensure!(b.sign() == Sign::NoSign && matches!(e, ArrowError::DivideByZero) || (a == min && b == BigInt::from(-1)), "i256.div_checked", "div_checked({}, {}) = Err({})", a, b, e),
        }
        Ok(())
    })??;
    // ToPrimitive narrowing conversions (used by casts): Some exactly when the value is representable
    // (fixed finding i256-ToPrimitive-to_i64-truncates: no longer excluded)
    let known_to_i64 = false;
    if known_to_i64 {
        c.exclude("i256-ToPrimitive-to_i64-truncates");
    } else {
        let want = if fits_big(&a, 64) { Some(i64::try_from(&a).unwrap()) } else { None };
        let got = ToPrimitive::to_i64(&x);
        // the recorded finding lives exactly in "fits i128 but not i64"
        let sig = if x.to_i128().is_some() && !fits_big(&a, 64) { "i256.ToPrimitive::to_i64:fits-i128-not-i64" } else { "i256.ToPrimitive::to_i64" };
        ensure!(got == want, sig, "ToPrimitive::to_i64({}) = {:?} expected {:?}", a, got, want);
    }
    let want = u64::try_from(&a).ok();
    let got = ToPrimitive::to_u64(&x);
    ensure!(got == want, "i256.ToPrimitive::to_u64", "ToPrimitive::to_u64({}) = {:?} expected {:?}", a, got, want);
    ensure!(ArrowNativeType::to_i64(x) == if fits_big(&a, 64) { Some(i64::try_from(&a).unwrap()) } else { None }, "i256.ArrowNativeType::to_i64", "ArrowNativeType::to_i64({})", a);
    c.class(if fits_big(&a, 128) { "a:fits-128" } else { "a:needs-high-limb" });
    c.class(if fits_big(&b, 128) { "b:fits-128" } else { "b:needs-high-limb" });
    if boundary {
        c.class("result-at-type-boundary");
        c.nontrivial();
    }
    c.evals(40);
    Ok(())
}

// =================================================================================================
// sub-check 5: decimal arithmetic (Decimal32/64/128/256), result type and exact value per `decimal_op`
#[derive(Clone, Copy, Debug, PartialEq, Eq)]
enum DOp {
    Add,
    Sub,
    Mul,
    Div,
    Rem,
}
impl DOp {
    fn name(self) -> &'static str {
        match self {
            DOp::Add => "dec.add",
            DOp::Sub => "dec.sub",
            DOp::Mul => "dec.mul",
            DOp::Div => "dec.div",
            DOp::Rem => "dec.rem",
        }
    }
    fn kernel(self) -> fn(&dyn Datum, &dyn Datum) -> Result<ArrayRef, ArrowError> {
        match self {
            DOp::Add => num::add,
            DOp::Sub => num::sub,
            DOp::Mul => num::mul,
            DOp::Div => num::div,
            DOp::Rem => num::rem,
        }
    }
}
/// per-row decimal expectation
#[derive(Clone, Debug)]
struct DRow {
    /// exact result at the result scale (None: division by zero)
    exact: Option<BigInt>,
    /// exact result not representable in the native width, or division by zero: the call must fail
    strict_err: bool,
    /// a documented intermediate (operand rescale) overflows although the result would fit: Err accepted
    lenient: bool,
    /// an operand rescale overflows (whatever the final result)
    inter: bool,
}
struct DecPlan {
    rp: i32,
    rs: i32,
    /// result type fails decimal type validation, or 10^k of a rescale does not fit: the call may fail as a whole
    global_lenient: bool,
    /// the call must fail whatever the values (mul: result scale beyond the maximum)
    global_err: bool,
    /// the documented result-type formula yields a valid decimal type
    type_ok: bool,
    lmul: BigInt,
    rmul: BigInt,
}
fn dec_plan(op: DOp, p1: i32, s1: i32, p2: i32, s2: i32, maxp: i32, bits: u32) -> DecPlan {
    let max_scale = maxp;
    let (rp, rs, k1, k2, global_err) = match op {
        DOp::Add | DOp::Sub => {
            let rs = s1.max(s2);
            (rs + (p1 - s1).max(p2 - s2) + 1, rs, rs - s1, rs - s2, false)
        }
        DOp::Mul => (p1 + p2 + 1, s1 + s2, 0, 0, s1 + s2 > max_scale),
        DOp::Div => {
            let rs = (s1 + 4).min(max_scale);
            let mp = rs - s1 + s2;
            (mp + p1, rs, mp.max(0), (-mp).max(0), false)
        }
        DOp::Rem => {
            let rs = s1.max(s2);
            (rs + (p1 - s1).min(p2 - s2), rs, rs - s1, rs - s2, false)
        }
    };
    let rp_c = rp.min(maxp);
    let type_ok = rp_c >= 1 && rs <= max_scale && !(rs > 0 && rs > rp_c);
    let lmul = pow10_big(k1 as u32);
    let rmul = pow10_big(k2 as u32);
    // Rem uses pow_wrapping: no error from the power itself
    let pow_over = op != DOp::Rem && (!fits_big(&lmul, bits) || !fits_big(&rmul, bits));
    DecPlan { rp: rp_c, rs, global_lenient: !type_ok || pow_over, global_err, type_ok, lmul, rmul }
}
fn dec_row(op: DOp, plan: &DecPlan, l: &BigInt, r: &BigInt, bits: u32) -> DRow {
    let lm = l * &plan.lmul;
    let rm = r * &plan.rmul;
    let inter = !fits_big(&lm, bits) || !fits_big(&rm, bits);
    let exact = match op {
        DOp::Add => Some(&lm + &rm),
        DOp::Sub => Some(&lm - &rm),
        DOp::Mul => Some(l * r),
        DOp::Div => {
            if r.sign() == Sign::NoSign {
                None
            } else {
                Some(&lm / &rm)
            }
        }
        DOp::Rem => {
            if r.sign() == Sign::NoSign {
                None
            } else {
                Some(&lm % &rm)
            }
        }
    };
    let strict_err = match &exact {
        None => true,
        Some(e) => !fits_big(e, bits),
    };
    // decimal rem(MIN, -1): mod_checked follows std's checked_rem (None) although 0 is representable; the kernel doc
    // promises 0 only for signed integers -> accepted either way
    let rem_min = op == DOp::Rem && lm == -pow2(bits - 1) && rm == BigInt::from(-1);
    DRow { exact, strict_err, lenient: !strict_err && (inter || rem_min), inter }
}

fn gen_dec_type(t: &mut Tape, maxp: i32) -> (i32, i32) {
    let p = match t.below(4) {
        0 => maxp,
        1 => 1 + t.below(maxp as usize) as i32,
        _ => (1 + t.below(10) as i32).min(maxp),
    };
    let s = match t.below(7) {
        0 => 0,
        1 => p,
        2 => -(1 + t.below(4) as i32),
        3 => (p - 1).max(0),
        _ => t.below(p as usize + 1) as i32,
    };
    (p, s)
}
fn gen_dec_value(t: &mut Tape, p: i32, bits: u32) -> BigInt {
    let lim: BigInt = pow10_big(p as u32) - 1;
    let v = match t.below(12) {
        0 => big0(),
        1 => BigInt::from(1),
        2 => BigInt::from(-1),
        3 => lim.clone(),
        4 => -lim.clone(),
        5 => {
            let k = t.below(p as usize + 1) as u32;
            let v = pow10_big(k) + BigInt::from(t.below(3) as i64 - 1);
            if t.bool() { -v } else { v }
        }
        6 => BigInt::from(t.range(-1000, 1000)),
        8 => BigInt::from(t.range(-3, 3)),
        // beyond the declared precision, up to the native limits (arrays do not enforce precision)
        7 => {
            if t.chance(80) {
                gen_big(t, bits)
            } else {
                &lim - BigInt::from(t.below(3) as i64)
            }
        }
        _ => {
            let raw = gen_big(t, bits);
            let m = &lim + 1;
            raw % m
        }
    };
    if fits_big(&v, bits) { v } else { wrap_big(&v, bits) }
}

fn run_decimal<T: DecimalType>(c: &mut Case, make_dt: fn(u8, i8) -> DataType) -> CaseResult
where
    T::Native: NatB,
{
    let bits = T::Native::BITS;
    let maxp = T::MAX_PRECISION as i32;
    let t = &mut c.tape;
    let op = *t.pick(&[DOp::Add, DOp::Sub, DOp::Mul, DOp::Div, DOp::Rem, DOp::Add, DOp::Div]);
    let (p1, s1) = gen_dec_type(t, maxp);
    let (mut p2, mut s2) = gen_dec_type(t, maxp);
    let (mut p1, mut s1) = (p1, s1);
    if t.chance(70) {
        // same scale: the fast path without rescaling
        s2 = s1;
        p2 = p2.max(s2).max(1);
    } else if t.chance(if op == DOp::Rem { 48 } else { 5 }) {
        // widest possible scale gap: 10^(s_max - s_min) does not fit the native type
        let neg = -(1 + t.below(4) as i32);
        if t.bool() {
            s1 = neg;
            p2 = maxp;
            s2 = maxp;
        } else {
            s2 = neg;
            p1 = maxp;
            s1 = maxp;
        }
    }
    let mut excluded = false;
    if AVOID_KNOWN && !c.strict && op == DOp::Rem {
        // known finding: rem rescales with pow_wrapping, a 10^k that does not fit the native type silently wraps
        let rs = s1.max(s2);
        if !fits_big(&pow10_big((rs - s1) as u32), bits) || !fits_big(&pow10_big((rs - s2) as u32), bits) {
            excluded = true;
            s2 = s1;
            p2 = p2.max(s2).max(1);
        }
    }
    let plan = dec_plan(op, p1, s1, p2, s2, maxp, bits);
    let ldt = make_dt(p1 as u8, s1 as i8);
    let rdt = make_dt(p2 as u8, s2 as i8);
    let shape = match t.below(8) {
        0 | 1 => Shape::AS,
        2 | 3 => Shape::SA,
        4 => Shape::SS,
        _ => Shape::AA,
    };
    let n0 = match t.below(8) {
        0 => 0,
        1 => 1,
        2 => *t.pick(&[63usize, 64, 65, 9]),
        _ => 1 + t.below(12),
    };
    let (ln, rn) = match shape {
        Shape::AA => (n0, n0),
        Shape::AS => (n0, 1),
        Shape::SA => (1, n0),
        Shape::SS => (1, 1),
    };
    let n = out_len(shape, ln, rn);
    let want_err = t.chance(56);
    let null_p = *t.pick(&[0u32, 32, 96, 200]);
    let lv: Vec<BigInt> = (0..ln).map(|_| gen_dec_value(t, p1, bits)).collect();
    let mut rv: Vec<BigInt> = (0..rn).map(|_| gen_dec_value(t, p2, bits)).collect();
    if rn == n {
        for i in 0..n {
            if t.chance(48) {
                let (il, _) = row_index(shape, i);
                // aim at the native limit after rescaling
                let base = match op {
                    DOp::Add => Op::Add,
                    DOp::Sub => Op::Sub,
                    DOp::Mul => Op::Mul,
                    _ => Op::Div,
                };
                let lm = if op == DOp::Mul { lv[il].clone() } else { &lv[il] * &plan.lmul };
                let target = gen_big_partner(t, base, &wrap_big(&lm, bits), bits);
                rv[i] = if op == DOp::Mul || plan.rmul == BigInt::from(1) { target } else { &target / &plan.rmul };
            }
        }
    }
    let mut lvalid: Vec<bool> = (0..ln).map(|_| !t.chance(null_p)).collect();
    let mut rvalid: Vec<bool> = (0..rn).map(|_| !t.chance(null_p)).collect();
    if ln == 1 && n0 != 1 && !t.chance(24) {
        lvalid[0] = true;
    }
    if rn == 1 && n0 != 1 && !t.chance(24) {
        rvalid[0] = true;
    }
    let rows: Vec<DRow> = (0..n)
        .map(|i| {
            let (il, ir) = row_index(shape, i);
            dec_row(op, &plan, &lv[il], &rv[ir], bits)
        })
        .collect();
    if !want_err {
        for i in 0..n {
            let (il, ir) = row_index(shape, i);
            if (rows[i].strict_err || rows[i].lenient) && lvalid[il] && rvalid[ir] {
                match shape {
                    Shape::AS => lvalid[il] = false,
                    Shape::SA => rvalid[ir] = false,
                    _ => {
                        if t.bool() {
                            lvalid[il] = false
                        } else {
                            rvalid[ir] = false
                        }
                    }
                }
            }
        }
    }
    let llay = PLay::from_tape(t);
    let rlay = PLay::from_tape(t);
    let garbage = [T::Native::from_big(&big0()), T::Native::from_big(&(pow2(bits - 1) - 1)), T::Native::from_big(&-pow2(bits - 1)), T::Native::from_big(&BigInt::from(-1))];
    let ln_v: Vec<T::Native> = lv.iter().map(T::Native::from_big).collect();
    let rn_v: Vec<T::Native> = rv.iter().map(T::Native::from_big).collect();
    let la = mk_native::<T>(&ln_v, &lvalid, &llay, &ldt, &garbage);
    let ra = mk_native::<T>(&rn_v, &rvalid, &rlay, &rdt, &garbage);
    if excluded {
        c.exclude("decimal-rem-pow-wrapping");
    }
    let what_full = format!("{}[{}]", op.name(), shape.name());
    let what = op.name();
    let f = |v: &[BigInt], ok: &[bool]| -> Vec<String> { v.iter().zip(ok).take(8).map(|(x, o)| if *o { format!("{}", x) } else { format!("null({})", x) }).collect() };
    c.describe(json!({"op": op.name(), "left type": format!("{}", ldt), "right type": format!("{}", rdt), "shape": shape.name(), "len": n, "left": f(&lv, &lvalid), "right": f(&rv, &rvalid)}));
    c.class(format!("op:{}", op.name()));
    c.class(format!("width:{}", bits));
    c.class(format!("shape:{}", shape.name()));
    c.class(if s1 == s2 { "scales:equal" } else { "scales:differ" });
    if s1 < 0 || s2 < 0 {
        c.class("scale:negative");
    }
    if p1 == maxp || p2 == maxp {
        c.class("precision:max");
    }
    let res = no_panic(what, || call(op.kernel(), shape, &la, &ra))?;
    let _ = &what_full;
    let valid_at = |i: usize| {
        let (il, ir) = row_index(shape, i);
        lvalid[il] && rvalid[ir]
    };
    let strict: Vec<usize> = (0..n).filter(|i| valid_at(*i) && rows[*i].strict_err).collect();
    let lenient: Vec<usize> = (0..n).filter(|i| valid_at(*i) && rows[*i].lenient).collect();
    let garbage_would_err = (0..n).any(|i| !valid_at(i) && (rows[i].strict_err || rows[i].lenient));
    let near = (0..n).any(|i| valid_at(i) && (rows[i].strict_err || rows[i].exact.as_ref().map(|e| !fits_big(&(e + 1), bits) || !fits_big(&(e - 1), bits)).unwrap_or(false)));
    if garbage_would_err {
        c.class("null-slot-garbage-would-fail");
        c.nontrivial();
    }
    if near {
        c.class("result-at-type-boundary");
        c.nontrivial();
    }
    if plan.global_err {
        c.class("mul-scale-exceeds-max");
        ensure!(res.is_err(), format!("{}:scale-overflow-accepted", what), "{}: result scale {} exceeds the maximum but the call succeeded", what, plan.rs);
        c.evals(1);
        return Ok(());
    }
    match &res {
        Err(e) => {
            if strict.is_empty() {
                if plan.global_lenient {
                    c.class("lenient-error:result-type-or-pow10");
                } else if !lenient.is_empty() {
                    c.class("lenient-error:rescale-overflow");
                } else {
                    fail!(format!("{}:err-spurious", what), "{}: Err({}) but every valid row has a representable result and no rescale overflows", what, e);
                }
            } else {
                c.class("outcome:must-err");
                let all_dz = strict.iter().all(|i| rows[*i].exact.is_none() && !rows[*i].inter) && lenient.is_empty() && !plan.global_lenient;
                if all_dz {
                    ensure!(matches!(e, ArrowError::DivideByZero), format!("{}:err-kind", what), "{}: division by zero reported as {:?}", what, e);
                }
            }
        }
        Ok(out) => {
            if let Some(i) = strict.first() {
                let (il, ir) = row_index(shape, *i);
                fail!(format!("{}:err-missing", what), "{}: Ok but valid row {} ({} , {}) has no representable result (exact = {:?})", what, i, lv[il], rv[ir], rows[*i].exact);
            }
            c.class("outcome:ok");
            if !lenient.is_empty() {
                c.class("lenient-row-succeeded");
            }
            if plan.type_ok {
                let want_dt = make_dt(plan.rp as u8, plan.rs as i8);
                ensure!(out.data_type() == &want_dt, format!("{}:type", what), "{}: result type {} expected {} ({} , {})", what, out.data_type(), want_dt, ldt, rdt);
            } else {
                c.class("result-type-formula-out-of-domain");
            }
            ensure!(out.len() == n, format!("{}:len", what), "{}: len {} expected {}", what, out.len(), n);
            let a = out.as_primitive::<T>();
            for i in 0..n {
                if !valid_at(i) {
                    ensure!(a.is_null(i), format!("{}:null", what), "{}: row {} valid but an input is null", what, i);
                } else {
                    ensure!(a.is_valid(i), format!("{}:null", what), "{}: row {} null but inputs are valid", what, i);
                    let g = a.value(i).to_big();
                    let w = rows[i].exact.as_ref().unwrap();
                    let (il, ir) = row_index(shape, i);
                    // the recorded finding lives exactly where rem's 10^k multiplier does not fit the native type
                    let sig = if op == DOp::Rem && (!fits_big(&plan.lmul, bits) || !fits_big(&plan.rmul, bits)) { "dec.rem:value-with-wrapped-pow10".to_string() } else { format!("{}:value", what) };
                    ensure!(g == *w, sig, "{}: row {}: {} ({}) , {} ({}) = {} expected {} at scale {}", what, i, lv[il], ldt, rv[ir], rdt, g, w, plan.rs);
                }
            }
        }
    }
    c.evals(n as u64 + 1);
    Ok(())
}

fn run_decimal_neg<T: DecimalType>(c: &mut Case, make_dt: fn(u8, i8) -> DataType) -> CaseResult
where
    T::Native: NatB,
{
    let bits = T::Native::BITS;
    let t = &mut c.tape;
    let (p, s) = gen_dec_type(t, T::MAX_PRECISION as i32);
    let dt = make_dt(p as u8, s as i8);
    let n = 1 + t.below(70);
    let want_err = t.chance(64);
    let min: BigInt = -pow2(bits - 1);
    let vals: Vec<BigInt> = (0..n).map(|_| if t.chance(30) { min.clone() } else { gen_dec_value(t, p, bits) }).collect();
    let mut valid: Vec<bool> = (0..n).map(|_| !t.chance(48)).collect();
    for i in 0..n {
        if vals[i] == min && !want_err {
            valid[i] = false;
        }
    }
    let lay = PLay::from_tape(t);
    let nv: Vec<T::Native> = vals.iter().map(T::Native::from_big).collect();
    let a = mk_native::<T>(&nv, &valid, &lay, &dt, &[T::Native::from_big(&min)]);
    c.describe(json!({"op": "dec.neg", "type": format!("{}", dt), "len": n}));
    c.class("op:dec.neg");
    let res = no_panic("dec.neg", || num::neg(a.as_ref()))?;
    let must_err = (0..n).any(|i| valid[i] && vals[i] == min);
    if (0..n).any(|i| !valid[i] && vals[i] == min) {
        c.class("null-slot-garbage-would-fail");
        c.nontrivial();
    }
    match res {
        Err(e) => ensure!(must_err && matches!(e, ArrowError::ArithmeticOverflow(_)), "dec.neg:err-spurious", "neg: Err({}) but no valid MIN", e),
        Ok(out) => {
            ensure!(!must_err, "dec.neg:err-missing", "neg: Ok although a valid slot holds the native minimum");
            ensure!(out.data_type() == &dt && out.len() == n, "dec.neg:type", "neg: type {} len {}", out.data_type(), out.len());
            let o = out.as_primitive::<T>();
            for i in 0..n {
                ensure!(o.is_null(i) == !valid[i], "dec.neg:null", "neg: row {} nullness", i);
                if valid[i] {
                    ensure!(o.value(i).to_big() == -&vals[i], "dec.neg:value", "neg({}) = {:?}", vals[i], o.value(i));
                }
            }
        }
    }
    c.evals(n as u64);
    Ok(())
}

fn sub_decimal(c: &mut Case) -> CaseResult {
    let w = *c.tape.pick(&[128u32, 256, 128, 256, 32, 64]);
    let neg = c.tape.chance(16);
    macro_rules! go {
        ($T:ty, $mk:expr) => {
            if neg { run_decimal_neg::<$T>(c, $mk) } else { run_decimal::<$T>(c, $mk) }
        };
    }
    match w {
        32 => go!(Decimal32Type, DataType::Decimal32),
        64 => go!(Decimal64Type, DataType::Decimal64),
        128 => go!(Decimal128Type, DataType::Decimal128),
        _ => go!(Decimal256Type, DataType::Decimal256),
    }
}

// =================================================================================================
// sub-check 6: float arithmetic follows IEEE-754 (bitwise equal to the scalar operation; any NaN for NaN)
trait NatF: ArrowNativeTypeOp + std::fmt::Debug {
    const FBITS: u32;
    fn of_bits(b: u64) -> Self;
    fn bits(self) -> u64;
    fn nan(self) -> bool;
    /// reference: the IEEE operation on the scalar
    fn ieee(op: Op, a: Self, b: Self) -> Self;
    fn ieee_neg(a: Self) -> Self;
}
impl NatF for f64 {
    const FBITS: u32 = 64;
    fn of_bits(b: u64) -> Self {
        f64::from_bits(b)
    }
    fn bits(self) -> u64 {
        self.to_bits()
    }
    fn nan(self) -> bool {
        self.is_nan()
    }
    fn ieee(op: Op, a: f64, b: f64) -> f64 {
        match op.base() {
            Op::Add => a + b,
            Op::Sub => a - b,
            Op::Mul => a * b,
            Op::Div => a / b,
            _ => a % b,
        }
    }
    fn ieee_neg(a: f64) -> f64 {
        -a
    }
}
impl NatF for f32 {
    const FBITS: u32 = 32;
    fn of_bits(b: u64) -> Self {
        f32::from_bits(b as u32)
    }
    fn bits(self) -> u64 {
        self.to_bits() as u64
    }
    fn nan(self) -> bool {
        self.is_nan()
    }
    fn ieee(op: Op, a: f32, b: f32) -> f32 {
        match op.base() {
            Op::Add => a + b,
            Op::Sub => a - b,
            Op::Mul => a * b,
            Op::Div => a / b,
            _ => a % b,
        }
    }
    fn ieee_neg(a: f32) -> f32 {
        -a
    }
}
impl NatF for half::f16 {
    const FBITS: u32 = 16;
    fn of_bits(b: u64) -> Self {
        half::f16::from_bits(b as u16)
    }
    fn bits(self) -> u64 {
        self.to_bits() as u64
    }
    fn nan(self) -> bool {
        self.is_nan()
    }
    /// binary16 operands are exact in binary64 and 53 >= 2*11+2, so rounding the binary64 result once more to binary16 is
    /// the correctly rounded binary16 result (fmod is exact)
    fn ieee(op: Op, a: Self, b: Self) -> Self {
        let (x, y) = (a.to_f64(), b.to_f64());
        half::f16::from_f64(match op.base() {
            Op::Add => x + y,
            Op::Sub => x - y,
            Op::Mul => x * y,
            Op::Div => x / y,
            _ => x % y,
        })
    }
    fn ieee_neg(a: Self) -> Self {
        half::f16::from_bits(a.to_bits() ^ 0x8000)
    }
}

fn gen_fbits(t: &mut Tape, fbits: u32) -> u64 {
    use vp_engine::r#gen::{gen_f16_bits, gen_f32_bits, gen_f64_bits};
    match fbits {
        16 => gen_f16_bits(t, true) as u64,
        32 => gen_f32_bits(t, true) as u64,
        _ => gen_f64_bits(t, true),
    }
}

fn run_float<T: ArrowPrimitiveType>(c: &mut Case) -> CaseResult
where
    T::Native: NatF,
{
    let fb = T::Native::FBITS;
    let t = &mut c.tape;
    let dt = T::DATA_TYPE;
    let op_idx = t.below(10);
    let n0 = gen_case_len(t);
    let null_p = *t.pick(&[0u32, 32, 128]);
    if op_idx >= 8 {
        let wrapping = op_idx == 9;
        let vals: Vec<T::Native> = (0..n0).map(|_| T::Native::of_bits(gen_fbits(t, fb))).collect();
        let valid: Vec<bool> = (0..n0).map(|_| !t.chance(null_p)).collect();
        let a = mk_native::<T>(&vals, &valid, &PLay::from_tape(t), &dt, &[T::Native::of_bits(0)]);
        let what = if wrapping { "float.neg_wrapping" } else { "float.neg" };
        let res = no_panic(what, || if wrapping { num::neg_wrapping(a.as_ref()) } else { num::neg(a.as_ref()) })?;
        let Ok(out) = res else { fail!(format!("{}:err", what), "{}: float negation returned Err", what) };
        let o = out.as_primitive::<T>();
        ensure!(out.len() == n0 && out.data_type() == &dt, format!("{}:type", what), "len/type");
        for i in 0..n0 {
            ensure!(o.is_null(i) == !valid[i], format!("{}:null", what), "row {} nullness", i);
            if valid[i] {
                let w = T::Native::ieee_neg(vals[i]);
                ensure!(o.value(i).bits() == w.bits(), format!("{}:value", what), "-({:?}) = {:?}", vals[i], o.value(i));
            }
        }
        c.class("op:neg");
        c.evals(n0 as u64);
        return Ok(());
    }
    let op = BINOPS[op_idx];
    let shape = match t.below(8) {
        0 | 1 => Shape::AS,
        2 | 3 => Shape::SA,
        4 => Shape::SS,
        _ => Shape::AA,
    };
    let (ln, rn) = match shape {
        Shape::AA => (n0, n0),
        Shape::AS => (n0, 1),
        Shape::SA => (1, n0),
        Shape::SS => (1, 1),
    };
    let n = out_len(shape, ln, rn);
    let lv: Vec<T::Native> = (0..ln).map(|_| T::Native::of_bits(gen_fbits(t, fb))).collect();
    let rv: Vec<T::Native> = (0..rn).map(|_| T::Native::of_bits(gen_fbits(t, fb))).collect();
    let mut lvalid: Vec<bool> = (0..ln).map(|_| !t.chance(null_p)).collect();
    let mut rvalid: Vec<bool> = (0..rn).map(|_| !t.chance(null_p)).collect();
    if ln == 1 && !t.chance(24) {
        lvalid[0] = true;
    }
    if rn == 1 && !t.chance(24) {
        rvalid[0] = true;
    }
    let la = mk_native::<T>(&lv, &lvalid, &PLay::from_tape(t), &dt, &[T::Native::of_bits(0)]);
    let ra = mk_native::<T>(&rv, &rvalid, &PLay::from_tape(t), &dt, &[T::Native::of_bits(0)]);
    let what = format!("float.{}[{}]", op.name(), shape.name());
    c.describe(json!({"type": format!("{}", dt), "op": op.name(), "shape": shape.name(), "len": n,
        "left": lv.iter().take(8).map(|x| format!("{:?}", x)).collect::<Vec<_>>(), "right": rv.iter().take(8).map(|x| format!("{:?}", x)).collect::<Vec<_>>()}));
    c.class(format!("op:{}", op.name()));
    c.class(format!("shape:{}", shape.name()));
    let res = no_panic(&what, || call(op.kernel(), shape, &la, &ra))?;
    let out = match res {
        Ok(o) => o,
        Err(e) => fail!(format!("float.{}:err", op.name()), "{}: floats follow IEEE-754 and never fail, got Err({})", what, e),
    };
    ensure!(out.len() == n && out.data_type() == &dt, format!("float.{}:type", op.name()), "{}: len {} type {}", what, out.len(), out.data_type());
    let o = out.as_primitive::<T>();
    let mut special = false;
    for i in 0..n {
        let (il, ir) = row_index(shape, i);
        let valid = lvalid[il] && rvalid[ir];
        ensure!(o.is_null(i) == !valid, format!("float.{}:null", op.name()), "{}: row {} nullness", what, i);
        if valid {
            let w = T::Native::ieee(op, lv[il], rv[ir]);
            let g = o.value(i);
            let okv = if w.nan() { g.nan() } else { g.bits() == w.bits() };
            ensure!(okv, format!("float.{}:value", op.name()), "{}: row {}: {:?} , {:?} = {:?} (bits {:#x}) expected {:?} (bits {:#x})", what, i, lv[il], rv[ir], g, g.bits(), w, w.bits());
            let exp_mask = match fb {
                16 => 0x7c00u64,
                32 => 0x7f80_0000,
                _ => 0x7ff0_0000_0000_0000,
            };
            if w.nan() || w.bits() & exp_mask == exp_mask || w.bits() & exp_mask == 0 {
                special = true;
            }
        }
    }
    if special {
        c.class("result:nan-inf-zero-or-subnormal");
        c.nontrivial();
    }
    c.evals(n as u64);
    Ok(())
}
fn sub_float(c: &mut Case) -> CaseResult {
    match c.tape.below(3) {
        0 => {
            c.class("type:Float64");
            run_float::<Float64Type>(c)
        }
        1 => {
            c.class("type:Float32");
            run_float::<Float32Type>(c)
        }
        _ => {
            c.class("type:Float16");
            run_float::<Float16Type>(c)
        }
    }
}

// =================================================================================================
// sub-check 7: aggregates over lengths 0..=300 x null patterns (grid), every numeric type
const N_PATTERNS: u64 = 10;
fn null_pattern(pat: u64, n: usize, seed: u64) -> (Vec<bool>, bool, &'static str) {
    let hv = |i: usize| h(seed ^ 0xABCD, i as u64);
    match pat {
        0 => (vec![true; n], false, "no-validity-buffer"),
        1 => (vec![true; n], true, "validity-buffer-all-valid"),
        2 => (vec![false; n], false, "all-null"),
        3 => {
            let k = if n == 0 { 0 } else { (hv(0) % n as u64) as usize };
            let k = match hv(1) % 3 {
                0 => 0,
                1 => n.saturating_sub(1),
                _ => k,
            };
            ((0..n).map(|i| i == k).collect(), false, "single-valid")
        }
        4 => {
            let k = if n == 0 { 0 } else { (hv(0) % n as u64) as usize };
            let k = match hv(1) % 3 {
                0 => 0,
                1 => n.saturating_sub(1),
                _ => k,
            };
            ((0..n).map(|i| i != k).collect(), false, "single-null")
        }
        5 => ((0..n).map(|i| hv(i) % 2 == 0).collect(), false, "half-null"),
        6 => ((0..n).map(|i| hv(i) % 16 == 0).collect(), false, "sparse-valid"),
        7 => ((0..n).map(|i| hv(i) % 16 != 0).collect(), false, "dense-valid"),
        8 => {
            // a whole 64-slot chunk of nulls inside
            let start = if n > 128 { 64 * (1 + (hv(0) % ((n / 64 - 1) as u64)) as usize) } else { 0 };
            ((0..n).map(|i| !(i >= start && i < start + 64) && hv(i) % 8 != 0).collect(), false, "all-null-chunk-inside")
        }
        _ => ((0..n).map(|i| i % 3 != (hv(0) % 3) as usize).collect(), false, "periodic"),
    }
}

/// outcome rule of the checked sequential reductions: `prefixes_fit` = every partial result in slot order fits,
/// `total` = exact total if it fits
fn judge_checked<V: PartialEq + std::fmt::Debug>(what: &str, got: Result<Option<V>, ArrowError>, any_valid: bool, total: Option<V>, prefixes_fit: bool) -> Result<&'static str, Fail> {
    match got {
        Ok(None) => {
            ensure!(!any_valid, format!("{}:none", what), "{}: Ok(None) although valid values exist", what);
            Ok("none")
        }
        Ok(Some(g)) => {
            ensure!(any_valid, format!("{}:none", what), "{}: Ok(Some({:?})) for an array without valid values", what, g);
            match total {
                None => Err(Fail::new(format!("{}:overflow-missed", what), format!("{}: Ok({:?}) but the exact total is not representable", what, g))),
                Some(t) => {
                    ensure!(g == t, format!("{}:value", what), "{}: Ok({:?}) expected {:?}", what, g, t);
                    Ok(if prefixes_fit { "ok" } else { "ok-despite-prefix-overflow" })
                }
            }
        }
        Err(e) => {
            ensure!(any_valid && (total.is_none() || !prefixes_fit), format!("{}:err-spurious", what), "{}: Err({}) but every partial result is representable (total {:?})", what, e, total);
            Ok(if total.is_none() { "err" } else { "lenient-err-prefix-overflow" })
        }
    }
}

fn agg_int<T: ArrowPrimitiveType>(c: &mut Case, n: usize, valid: &[bool], force_validity: bool, seed: u64) -> CaseResult
where
    T::Native: NatI + std::ops::BitAnd<Output = T::Native> + std::ops::BitOr<Output = T::Native> + std::ops::BitXor<Output = T::Native>,
{
    let (bits, signed) = (T::Native::BITS, T::Native::SIGNED);
    let (lo, hi) = int_range(bits, signed);
    let mode = h(seed, 1) % 3;
    let vals: Vec<i128> = (0..n)
        .map(|i| {
            let x = h(seed ^ 0x11, i as u64);
            if !valid[i] {
                // garbage under nulls: extremes that would flip min/max and overflow checked sums
                return [lo, hi, -1, hi - 1, (x >> 8) as i128][(x % 5) as usize].clamp(lo, hi);
            }
            match mode {
                0 => trunc((x % 200) as i128 - if signed { 100 } else { 0 }, bits, signed),
                1 => [lo, hi, lo + 1, hi - 1, 0, 1, if signed { -1 } else { 2 }, trunc((x >> 8) as i128, bits, signed)][(x % 8) as usize],
                _ => {
                    let d = (n.max(1)) as i128;
                    (hi / d + (x % 5) as i128 - 2).clamp(lo, hi)
                }
            }
        })
        .collect();
    let mut lay = PLay::from_hash(h(seed, 2));
    lay.force_validity = force_validity;
    let arr_ref = mk_int::<T>(&vals, valid, &lay, &T::DATA_TYPE);
    let arr = arr_ref.as_primitive::<T>().clone();
    let vs: Vec<i128> = (0..n).filter(|i| valid[*i]).map(|i| vals[i]).collect();
    let any = !vs.is_empty();
    let tn = std::any::type_name::<T::Native>();
    // sum
    let mut acc: i128 = 0;
    let mut prefix_ok = true;
    for v in &vs {
        acc += v;
        if !fits(acc, bits, signed) {
            prefix_ok = false;
        }
    }
    let total = if fits(acc, bits, signed) { Some(acc) } else { None };
    let want_sum = if any { Some(trunc(acc, bits, signed)) } else { None };
    let g = no_panic("sum", || agg::sum(&arr))?.map(|v| v.to_i());
    ensure!(g == want_sum, "sum:value", "sum::<{}> = {:?} expected {:?} (len {}, {} valid)", tn, g, want_sum, n, vs.len());
    let g = no_panic("sum_array", || agg::sum_array::<T, _>(&arr))?.map(|v| v.to_i());
    ensure!(g == want_sum, "sum_array:value", "sum_array::<{}> = {:?} expected {:?}", tn, g, want_sum);
    let r = no_panic("sum_checked", || agg::sum_checked(&arr))?.map(|o| o.map(|v| v.to_i()));
    let cls = judge_checked("sum_checked", r, any, total, prefix_ok)?;
    c.class(format!("sum_checked:{}", cls));
    let r = no_panic("sum_array_checked", || agg::sum_array_checked::<T, _>(&arr))?.map(|o| o.map(|v| v.to_i()));
    judge_checked("sum_array_checked", r, any, total, prefix_ok)?;
    // min / max
    let want_min = vs.iter().min().copied();
    let want_max = vs.iter().max().copied();
    let g = no_panic("min", || agg::min(&arr))?.map(|v| v.to_i());
    ensure!(g == want_min, "min:value", "min::<{}> = {:?} expected {:?} (len {}, {} valid)", tn, g, want_min, n, vs.len());
    let g = no_panic("max", || agg::max(&arr))?.map(|v| v.to_i());
    ensure!(g == want_max, "max:value", "max::<{}> = {:?} expected {:?} (len {}, {} valid)", tn, g, want_max, n, vs.len());
    let g = no_panic("min_array", || agg::min_array::<T, _>(&arr))?.map(|v| v.to_i());
    ensure!(g == want_min, "min_array:value", "min_array::<{}> = {:?} expected {:?}", tn, g, want_min);
    let g = no_panic("max_array", || agg::max_array::<T, _>(&arr))?.map(|v| v.to_i());
    ensure!(g == want_max, "max_array:value", "max_array::<{}> = {:?} expected {:?}", tn, g, want_max);
    // bit reductions
    let (mut ba, mut bo, mut bx) = (-1i128, 0i128, 0i128);
    for v in &vs {
        ba &= v;
        bo |= v;
        bx ^= v;
    }
    let w = |v: i128| if any { Some(trunc(v, bits, signed)) } else { None };
    let g = no_panic("bit_and", || agg::bit_and(&arr))?.map(|v| v.to_i());
    ensure!(g == w(ba), "bit_and:value", "bit_and::<{}> = {:?} expected {:?}", tn, g, w(ba));
    let g = no_panic("bit_or", || agg::bit_or(&arr))?.map(|v| v.to_i());
    ensure!(g == w(bo), "bit_or:value", "bit_or::<{}> = {:?} expected {:?}", tn, g, w(bo));
    let g = no_panic("bit_xor", || agg::bit_xor(&arr))?.map(|v| v.to_i());
    ensure!(g == w(bx), "bit_xor:value", "bit_xor::<{}> = {:?} expected {:?}", tn, g, w(bx));
    // product
    let mut pw: i128 = 1;
    let mut pe: Option<i128> = Some(1);
    let mut pprefix_ok = true;
    for v in &vs {
        pw = trunc(pw.wrapping_mul(*v), bits, signed);
        pe = pe.and_then(|p| p.checked_mul(*v)).filter(|p| p.unsigned_abs() < (1u128 << 100));
        match pe {
            Some(p) if fits(p, bits, signed) => {}
            _ => pprefix_ok = false,
        }
    }
    // exact product tracked only while small; once a prefix left the range a zero factor may still bring it back
    let ptotal_known = pprefix_ok || vs.iter().any(|v| *v == 0);
    let ptotal = if pprefix_ok { pe } else if vs.iter().any(|v| *v == 0) { Some(0) } else { None };
    let g = no_panic("product", || agg::product(&arr))?.map(|v| v.to_i());
    ensure!(g == if any { Some(pw) } else { None }, "product:value", "product::<{}> = {:?} expected {:?}", tn, g, pw);
    let r = no_panic("product_checked", || agg::product_checked(&arr))?.map(|o| o.map(|v| v.to_i()));
    if ptotal_known {
        judge_checked("product_checked", r, any, ptotal, pprefix_ok)?;
    } else if let Ok(Some(g)) = r {
        // prefix left the range and no zero factor: |product| only grows (no factor 0; factors +-1 keep it out of range)
        fail!("product_checked:overflow-missed", "product_checked::<{}> = Ok({}) but a partial product is out of range and there is no zero factor", tn, g);
    }
    c.evals(14);
    Ok(())
}

fn agg_big<T: ArrowPrimitiveType>(c: &mut Case, n: usize, valid: &[bool], force_validity: bool, seed: u64, dt: &DataType) -> CaseResult
where
    T::Native: NatB,
{
    let bits = T::Native::BITS;
    let max: BigInt = pow2(bits - 1) - 1;
    let min: BigInt = -pow2(bits - 1);
    let mode = h(seed, 1) % 3;
    let vals: Vec<BigInt> = (0..n)
        .map(|i| {
            let x = h(seed ^ 0x21, i as u64);
            if !valid[i] {
                return [min.clone(), max.clone(), BigInt::from(-1)][(x % 3) as usize].clone();
            }
            match mode {
                0 => BigInt::from((x % 2000) as i64 - 1000),
                1 => [min.clone(), max.clone(), &min + 1, &max - 1, big0(), BigInt::from(1), BigInt::from(-1), BigInt::from(x as i64) << ((x % (bits as u64 - 64)) as u32)][(x % 8) as usize].clone(),
                _ => &max / BigInt::from(n.max(1) as u64) + BigInt::from((x % 5) as i64 - 2),
            }
        })
        .collect();
    let vals: Vec<BigInt> = vals.iter().map(|v| wrap_big(v, bits)).collect();
    let mut lay = PLay::from_hash(h(seed, 2));
    lay.force_validity = force_validity;
    let nv: Vec<T::Native> = vals.iter().map(T::Native::from_big).collect();
    let arr_ref = mk_native::<T>(&nv, valid, &lay, dt, &[T::Native::from_big(&max)]);
    let arr = arr_ref.as_primitive::<T>().clone();
    let vs: Vec<&BigInt> = (0..n).filter(|i| valid[*i]).map(|i| &vals[i]).collect();
    let any = !vs.is_empty();
    let mut acc = big0();
    let mut prefix_ok = true;
    for v in &vs {
        acc += *v;
        if !fits_big(&acc, bits) {
            prefix_ok = false;
        }
    }
    let total = if fits_big(&acc, bits) { Some(acc.clone()) } else { None };
    let want_sum = if any { Some(wrap_big(&acc, bits)) } else { None };
    let g = no_panic("sum", || agg::sum(&arr))?.map(|v| v.to_big());
    ensure!(g == want_sum, "sum:value", "sum::<{}> = {:?} expected {:?} (len {})", dt, g, want_sum, n);
    let r = no_panic("sum_checked", || agg::sum_checked(&arr))?.map(|o| o.map(|v| v.to_big()));
    let cls = judge_checked("sum_checked", r, any, total, prefix_ok)?;
    c.class(format!("sum_checked:{}", cls));
    let want_min = vs.iter().min().map(|v| (*v).clone());
    let want_max = vs.iter().max().map(|v| (*v).clone());
    let g = no_panic("min", || agg::min(&arr))?.map(|v| v.to_big());
    ensure!(g == want_min, "min:value", "min::<{}> = {:?} expected {:?} (len {})", dt, g, want_min, n);
    let g = no_panic("max", || agg::max(&arr))?.map(|v| v.to_big());
    ensure!(g == want_max, "max:value", "max::<{}> = {:?} expected {:?} (len {})", dt, g, want_max, n);
    c.evals(4);
    Ok(())
}

fn agg_float<T: ArrowPrimitiveType>(c: &mut Case, n: usize, valid: &[bool], force_validity: bool, seed: u64) -> CaseResult
where
    T::Native: NatF,
{
    use vp_engine::model::total_cmp_bits;
    let fb = T::Native::FBITS;
    let tn = std::any::type_name::<T::Native>();
    let conv = |v: f64| -> T::Native {
        match fb {
            16 => T::Native::of_bits(half::f16::from_f64(v).to_bits() as u64),
            32 => T::Native::of_bits((v as f32).to_bits() as u64),
            _ => T::Native::of_bits(v.to_bits()),
        }
    };
    let nanbits: u64 = match fb {
        16 => 0x7e00,
        32 => 0x7fc0_0000,
        _ => 0x7ff8_0000_0000_0000,
    };
    let infbits: u64 = match fb {
        16 => 0x7c00,
        32 => 0x7f80_0000,
        _ => 0x7ff0_0000_0000_0000,
    };
    let signbit = 1u64 << (fb - 1);
    let fmode = h(seed, 3) % 4;
    let int_mode = fmode < 2;
    let span: i64 = match fb {
        16 => 6,
        32 => 1 << 14,
        _ => 1 << 40,
    };
    let mut tape = Tape::new((0..(n as u64 * 12 + 16)).map(|i| h(seed ^ 0x31, i) as u8).collect());
    let mut ints: Vec<i64> = vec![0; n];
    let vals: Vec<T::Native> = (0..n)
        .map(|i| {
            let x = h(seed ^ 0x32, i as u64);
            if !valid[i] {
                // garbage under nulls: NaN / infinities would poison every reduction
                return T::Native::of_bits([nanbits, infbits, infbits | signbit, nanbits | signbit | 1][(x % 4) as usize]);
            }
            if int_mode {
                let v = (x % (2 * span as u64 + 1)) as i64 - span;
                ints[i] = v;
                conv(v as f64)
            } else {
                let b = gen_fbits(&mut tape, fb);
                // negative NaNs (where the two documented orders disagree) only in a quarter of the cases
                let v = T::Native::of_bits(b);
                if fmode == 2 && v.nan() { T::Native::of_bits(b & !signbit) } else { v }
            }
        })
        .collect();
    let mut lay = PLay::from_hash(h(seed, 2));
    lay.force_validity = force_validity;
    let arr_ref = mk_native::<T>(&vals, valid, &lay, &T::DATA_TYPE, &[T::Native::of_bits(nanbits)]);
    let arr = arr_ref.as_primitive::<T>().clone();
    let idx: Vec<usize> = (0..n).filter(|i| valid[*i]).collect();
    let any = !idx.is_empty();
    if int_mode {
        // every partial sum in any association order is an exactly representable integer
        let s: i64 = idx.iter().map(|i| ints[*i]).sum();
        let want = if any { Some(conv(s as f64).bits()) } else { None };
        let g = no_panic("sum", || agg::sum(&arr))?.map(|v| v.bits());
        ensure!(g == want, "sum:float-value", "sum::<{}> = {:?} expected {:?} (= {}) (len {}, {} valid)", tn, g, want, s, n, idx.len());
        let r = no_panic("sum_checked", || agg::sum_checked(&arr))?;
        match r {
            Ok(g) => ensure!(g.map(|v| v.bits()) == want, "sum_checked:float-value", "sum_checked::<{}> = {:?} expected {:?}", tn, g, want),
            Err(e) => fail!("sum_checked:float-err", "sum_checked::<{}> failed on floats: {}", tn, e),
        }
        let g = no_panic("sum_array", || agg::sum_array::<T, _>(&arr))?.map(|v| v.bits());
        ensure!(g == want, "sum_array:float-value", "sum_array::<{}> = {:?} expected {:?}", tn, g, want);
        c.evals(3);
    }
    // min / max by IEEE totalOrder (documented for the aggregation identities MIN/MAX_TOTAL_ORDER)
    let bitsv: Vec<u64> = idx.iter().map(|i| vals[*i].bits()).collect();
    let want_min = bitsv.iter().copied().min_by(|a, b| total_cmp_bits(*a, *b, fb));
    let want_max = bitsv.iter().copied().max_by(|a, b| total_cmp_bits(*a, *b, fb));
    // `min`/`max` docs say "NaN is greater than any other value" while totalOrder puts negative NaN first: with a
    // negative NaN among the valid values both readings are accepted (result must still be one of the valid values)
    let neg_nan = idx.iter().any(|i| vals[*i].nan() && vals[*i].bits() & signbit != 0);
    for (name, g, want) in [
        ("min", no_panic("min", || agg::min(&arr))?.map(|v| v.bits()), want_min),
        ("max", no_panic("max", || agg::max(&arr))?.map(|v| v.bits()), want_max),
        ("min_array", no_panic("min_array", || agg::min_array::<T, _>(&arr))?.map(|v| v.bits()), want_min),
        ("max_array", no_panic("max_array", || agg::max_array::<T, _>(&arr))?.map(|v| v.bits()), want_max),
    ] {
        if neg_nan {
            ensure!(g.map(|x| bitsv.contains(&x)).unwrap_or(false), format!("{}:float-value", name), "{}::<{}> = {:?} is not one of the valid values", name, tn, g);
        } else {
            ensure!(g == want, format!("{}:float-value", name), "{}::<{}> = {:x?} expected {:x?} (len {}, {} valid)", name, tn, g, want, n, idx.len());
        }
    }
    if neg_nan {
        c.class("float-minmax:negative-nan-lenient");
    } else if !int_mode && idx.iter().any(|i| vals[*i].nan()) {
        c.class("float-minmax:total-order-with-nan");
    }
    c.evals(4);
    Ok(())
}

fn mk_bits(bits: &[bool], off: usize, seed: u64) -> BooleanBuffer {
    let nbytes = (off + bits.len()).div_ceil(8) + (seed % 2) as usize;
    let mut d: Vec<u8> = (0..nbytes).map(|i| h(seed, i as u64) as u8).collect();
    for (i, b) in bits.iter().enumerate() {
        let p = off + i;
        if *b {
            d[p / 8] |= 1 << (p % 8)
        } else {
            d[p / 8] &= !(1 << (p % 8))
        }
    }
    BooleanBuffer::new(Buffer::from_vec(d), off, bits.len())
}
const BIT_OFFS: [usize; 12] = [0, 0, 1, 3, 7, 8, 9, 31, 63, 64, 65, 130];
/// boolean array: `vals[i]` = Some(v) valid, None = null with `garbage[i]` as the value bit
fn mk_bool(vals: &[Option<bool>], garbage: &[bool], validity: bool, seed: u64) -> BooleanArray {
    let vbits: Vec<bool> = vals.iter().zip(garbage).map(|(v, g)| v.unwrap_or(*g)).collect();
    let values = mk_bits(&vbits, BIT_OFFS[(h(seed, 1) % 12) as usize], h(seed, 2));
    let nulls = if validity {
        let nb: Vec<bool> = vals.iter().map(|v| v.is_some()).collect();
        Some(NullBuffer::new(mk_bits(&nb, BIT_OFFS[(h(seed, 3) % 12) as usize], h(seed, 4))))
    } else {
        assert!(vals.iter().all(|v| v.is_some()));
        None
    };
    BooleanArray::new(values, nulls)
}

fn agg_bool(c: &mut Case, n: usize, valid: &[bool], force_validity: bool, seed: u64) -> CaseResult {
    for content in 0..5u64 {
        let k = if n == 0 { 0 } else { (h(seed, 50 + content) % n as u64) as usize };
        let vals: Vec<Option<bool>> = (0..n)
            .map(|i| {
                if !valid[i] {
                    return None;
                }
                Some(match content {
                    0 => true,
                    1 => false,
                    2 => i != k,
                    3 => i == k,
                    _ => h(seed ^ 0x41, i as u64) % 2 == 0,
                })
            })
            .collect();
        // garbage under nulls opposes the valid content
        let garbage: Vec<bool> = (0..n)
            .map(|i| match content {
                0 | 2 => false,
                1 | 3 => true,
                _ => h(seed ^ 0x42, i as u64) % 2 == 0,
            })
            .collect();
        let has_null = vals.iter().any(|v| v.is_none());
        let arr = mk_bool(&vals, &garbage, has_null || force_validity, h(seed, 60 + content));
        let vs: Vec<bool> = vals.iter().flatten().copied().collect();
        let want_and = if vs.is_empty() { None } else { Some(vs.iter().all(|v| *v)) };
        let want_or = if vs.is_empty() { None } else { Some(vs.iter().any(|v| *v)) };
        for (name, g, w) in [
            ("min_boolean", no_panic("min_boolean", || agg::min_boolean(&arr))?, want_and),
            ("bool_and", no_panic("bool_and", || agg::bool_and(&arr))?, want_and),
            ("max_boolean", no_panic("max_boolean", || agg::max_boolean(&arr))?, want_or),
            ("bool_or", no_panic("bool_or", || agg::bool_or(&arr))?, want_or),
        ] {
            ensure!(g == w, format!("{}:value", name), "{} = {:?} expected {:?} (len {}, {} valid, content {}, value offset {}, validity offset {:?})", name, g, w, n, vs.len(), content, arr.values().offset(), arr.nulls().map(|x| x.offset()));
        }
    }
    c.evals(20);
    Ok(())
}

fn sub_agg_grid(c: &mut Case) -> CaseResult {
    let idx = c.tape.u64();
    let seed = c.tape.u64() ^ mix(idx);
    let n = (idx % 301) as usize;
    let pat = (idx / 301) % N_PATTERNS;
    let (valid, force, pname) = null_pattern(pat, n, seed);
    let nvalid = valid.iter().filter(|v| **v).count();
    c.describe(json!({"len": n, "null pattern": pname, "valid": nvalid, "types": "Int8..UInt64, Float16/32/64, Decimal128, Decimal256, Boolean"}));
    c.class(format!("nulls:{}", pname));
    c.class(match n {
        0 => "len:0",
        1..=63 => "len:1-63",
        64..=65 => "len:64-65",
        66..=127 => "len:66-127",
        128..=129 => "len:128-129",
        _ => "len:>129",
    });
    if n > 64 && nvalid < n && nvalid > 0 {
        c.class("more-than-64-values-with-nulls");
        c.nontrivial();
    }
    agg_int::<Int8Type>(c, n, &valid, force, h(seed, 100))?;
    agg_int::<UInt8Type>(c, n, &valid, force, h(seed, 101))?;
    agg_int::<Int16Type>(c, n, &valid, force, h(seed, 102))?;
    agg_int::<UInt16Type>(c, n, &valid, force, h(seed, 103))?;
    agg_int::<Int32Type>(c, n, &valid, force, h(seed, 104))?;
    agg_int::<UInt32Type>(c, n, &valid, force, h(seed, 105))?;
    agg_int::<Int64Type>(c, n, &valid, force, h(seed, 106))?;
    agg_int::<UInt64Type>(c, n, &valid, force, h(seed, 107))?;
    agg_float::<Float16Type>(c, n, &valid, force, h(seed, 108))?;
    agg_float::<Float32Type>(c, n, &valid, force, h(seed, 109))?;
    agg_float::<Float64Type>(c, n, &valid, force, h(seed, 110))?;
    agg_big::<Decimal128Type>(c, n, &valid, force, h(seed, 111), &DataType::Decimal128(38, 3))?;
    agg_big::<Decimal256Type>(c, n, &valid, force, h(seed, 112), &DataType::Decimal256(76, 0))?;
    agg_bool(c, n, &valid, force, h(seed, 113))?;
    Ok(())
}

// =================================================================================================
// sub-check 8: min/max of strings / binaries / fixed-size binaries (all encodings), natural (byte) order
fn sub_agg_bytes(c: &mut Case) -> CaseResult {
    use vp_engine::model::{Enc, LType, LValue};
    use vp_engine::r#gen::{gen_column, gen_len, ValCfg};
    use vp_engine::realise::{realise, Lay};
    let t = &mut c.tape;
    let ty = match t.below(7) {
        0 => LType::Utf8(Enc::O32),
        1 => LType::Utf8(Enc::O64),
        2 => LType::Utf8(Enc::View),
        3 => LType::Binary(Enc::O32),
        4 => LType::Binary(Enc::O64),
        5 => LType::Binary(Enc::View),
        _ => LType::FixedBinary(*t.pick(&[2, 1, 4, 0, 16])),
    };
    let n = gen_len(t);
    let col = gen_column(t, &ty, true, n, &ValCfg { max_str: 20, ..ValCfg::default() });
    let arr = no_panic("realise", || realise(t, &ty, &col, true, &Lay::fancy()))?;
    let bytes: Vec<Vec<u8>> = col
        .iter()
        .filter_map(|v| match v {
            LValue::Str(s) => Some(s.as_bytes().to_vec()),
            LValue::Bytes(b) => Some(b.clone()),
            _ => None,
        })
        .collect();
    let want_min = bytes.iter().min().cloned();
    let want_max = bytes.iter().max().cloned();
    c.describe(json!({"type": format!("{}", ty.arrow()), "len": n, "valid": bytes.len()}));
    c.class(format!("type:{}", ty.arrow()));
    if bytes.len() < n && bytes.len() > 1 {
        c.nontrivial();
    }
    let (gmin, gmax): (Option<Vec<u8>>, Option<Vec<u8>>) = no_panic("min/max bytes", || match &ty {
        LType::Utf8(Enc::O32) => (agg::min_string(arr.as_string::<i32>()).map(|s| s.as_bytes().to_vec()), agg::max_string(arr.as_string::<i32>()).map(|s| s.as_bytes().to_vec())),
        LType::Utf8(Enc::O64) => (agg::min_string(arr.as_string::<i64>()).map(|s| s.as_bytes().to_vec()), agg::max_string(arr.as_string::<i64>()).map(|s| s.as_bytes().to_vec())),
        LType::Utf8(Enc::View) => (agg::min_string_view(arr.as_string_view()).map(|s| s.as_bytes().to_vec()), agg::max_string_view(arr.as_string_view()).map(|s| s.as_bytes().to_vec())),
        LType::Binary(Enc::O32) => (agg::min_binary(arr.as_binary::<i32>()).map(|s| s.to_vec()), agg::max_binary(arr.as_binary::<i32>()).map(|s| s.to_vec())),
        LType::Binary(Enc::O64) => (agg::min_binary(arr.as_binary::<i64>()).map(|s| s.to_vec()), agg::max_binary(arr.as_binary::<i64>()).map(|s| s.to_vec())),
        LType::Binary(Enc::View) => (agg::min_binary_view(arr.as_binary_view()).map(|s| s.to_vec()), agg::max_binary_view(arr.as_binary_view()).map(|s| s.to_vec())),
        _ => (agg::min_fixed_size_binary(arr.as_fixed_size_binary()).map(|s| s.to_vec()), agg::max_fixed_size_binary(arr.as_fixed_size_binary()).map(|s| s.to_vec())),
    })?;
    ensure!(gmin == want_min, "min_bytes:value", "min of {} = {:?} expected {:?}", ty.arrow(), gmin, want_min);
    ensure!(gmax == want_max, "max_bytes:value", "max of {} = {:?} expected {:?}", ty.arrow(), gmax, want_max);
    c.evals(2);
    Ok(())
}

// =================================================================================================
// sub-check 9: boolean kernels on packed three-valued inputs (grid over length x validity presence x rotation)
fn sub_bool_grid(c: &mut Case) -> CaseResult {
    let idx = c.tape.u64();
    let seed = c.tape.u64() ^ mix(idx);
    let n = (idx % 201) as usize;
    let variant = (idx / 201) % 4;
    let rot = ((idx / 804) % 16) as usize;
    let (lnull, rnull) = (variant & 1 == 0, variant & 2 == 0);
    // row i: physical state of each side: 0 = true, 1 = false, 2 = null over a `true` bit, 3 = null over a `false` bit
    let state = |i: usize| -> (usize, usize) {
        let combo = if (i / 16) % 3 == 2 { (h(seed, i as u64) % 16) as usize } else { (i + rot) % 16 };
        (combo / 4, combo % 4)
    };
    let dec = |s: usize, nullable: bool| -> (Option<bool>, bool) {
        match (s, nullable) {
            (0, _) => (Some(true), true),
            (1, _) => (Some(false), false),
            (2, true) => (None, true),
            (3, true) => (None, false),
            (2, false) => (Some(true), true),
            _ => (Some(false), false),
        }
    };
    let mut l: Vec<Option<bool>> = vec![];
    let mut r: Vec<Option<bool>> = vec![];
    let (mut lg, mut rg) = (vec![], vec![]);
    for i in 0..n {
        let (a, b) = state(i);
        let (v, g) = dec(a, lnull);
        l.push(v);
        lg.push(g);
        let (v, g) = dec(b, rnull);
        r.push(v);
        rg.push(g);
    }
    let la = mk_bool(&l, &lg, lnull, h(seed, 1));
    let ra = mk_bool(&r, &rg, rnull, h(seed, 2));
    c.describe(json!({"len": n, "left validity buffer": lnull, "right validity buffer": rnull, "rotation": rot,
        "left offsets": [la.values().offset(), la.nulls().map(|x| x.offset()).unwrap_or(0)], "right offsets": [ra.values().offset(), ra.nulls().map(|x| x.offset()).unwrap_or(0)]}));
    c.class(format!("validity:{}{}", if lnull { "L" } else { "-" }, if rnull { "R" } else { "-" }));
    c.class(match n {
        0 => "len:0",
        1..=63 => "len:1-63",
        64..=65 => "len:64-65",
        _ => "len:>65",
    });
    if n >= 16 && (lnull || rnull) {
        c.nontrivial();
    }
    let cmp = |what: &str, got: Result<BooleanArray, ArrowError>, want: &dyn Fn(Option<bool>, Option<bool>) -> Option<bool>| -> CaseResult {
        let got = match got {
            Ok(g) => g,
            Err(e) => return Err(Fail::new(format!("{}:err", what), format!("{}: Err({}) on equal-length inputs", what, e))),
        };
        ensure!(got.len() == n, format!("{}:len", what), "{}: len {} expected {}", what, got.len(), n);
        let mut nn = 0;
        for i in 0..n {
            let w = want(l[i], r[i]);
            let g = if got.is_null(i) { None } else { Some(got.value(i)) };
            if w.is_none() {
                nn += 1;
            }
            ensure!(g == w, format!("{}:row", what), "{}: row {}: {:?} , {:?} = {:?} expected {:?} (len {})", what, i, l[i], r[i], g, w, n);
        }
        ensure!(got.null_count() == nn, format!("{}:null_count", what), "{}: null_count {} expected {}", what, got.null_count(), nn);
        Ok(())
    };
    let both = |f: fn(bool, bool) -> bool| move |a: Option<bool>, b: Option<bool>| -> Option<bool> { Some(f(a?, b?)) };
    cmp("and", no_panic("and", || bk::and(&la, &ra))?, &both(|a, b| a & b))?;
    cmp("or", no_panic("or", || bk::or(&la, &ra))?, &both(|a, b| a | b))?;
    cmp("and_not", no_panic("and_not", || bk::and_not(&la, &ra))?, &both(|a, b| a & !b))?;
    cmp("not", no_panic("not", || bk::not(&la))?, &|a, _| a.map(|x| !x))?;
    cmp("and_kleene", no_panic("and_kleene", || bk::and_kleene(&la, &ra))?, &|a, b| match (a, b) {
        (Some(false), _) | (_, Some(false)) => Some(false),
        (Some(true), Some(true)) => Some(true),
        _ => None,
    })?;
    cmp("or_kleene", no_panic("or_kleene", || bk::or_kleene(&la, &ra))?, &|a, b| match (a, b) {
        (Some(true), _) | (_, Some(true)) => Some(true),
        (Some(false), Some(false)) => Some(false),
        _ => None,
    })?;
    cmp("is_null", no_panic("is_null", || bk::is_null(&la))?, &|a, _| Some(a.is_none()))?;
    cmp("is_not_null", no_panic("is_not_null", || bk::is_not_null(&la))?, &|a, _| Some(a.is_some()))?;
    if n > 0 {
        // documented: operands of different length are an error
        let short = ra.slice(0, n - 1);
        for (name, res) in [("and", bk::and(&la, &short)), ("or", bk::or(&la, &short)), ("and_kleene", bk::and_kleene(&la, &short)), ("or_kleene", bk::or_kleene(&la, &short)), ("and_not", bk::and_not(&la, &short))] {
            ensure!(res.is_err(), format!("{}:length-mismatch-accepted", name), "{}: operands of length {} and {} accepted", name, n, n - 1);
        }
    }
    c.evals(8 * n as u64 + 5);
    Ok(())
}

// =================================================================================================
// sub-check 10: is_null / is_not_null on arrays of every type and layout (logical nulls)
fn sub_is_null(c: &mut Case) -> CaseResult {
    use vp_engine::extract::extract;
    use vp_engine::model::LType;
    use vp_engine::r#gen::{gen_column, gen_len, gen_type_where, TypeCfg, ValCfg};
    use vp_engine::realise::{realise, Lay};
    let ty = gen_type_where(&mut c.tape, &TypeCfg::all(), &|t| !matches!(t, LType::Union { .. }));
    let n = gen_len(&mut c.tape);
    let col = gen_column(&mut c.tape, &ty, true, n, &ValCfg::default());
    let lay = Lay { fancy: true, dict_value_nulls: true, slice_chance: 128 };
    let arr = no_panic("realise", || realise(&mut c.tape, &ty, &col, true, &lay))?;
    let vals = no_panic("extract", || extract(arr.as_ref()))?;
    c.describe(json!({"type": format!("{}", ty.arrow()), "len": n}));
    c.class(ty.family());
    let nulls = vals.iter().filter(|v| v.is_null()).count();
    if nulls > 0 && nulls < n {
        c.nontrivial();
    }
    let isn = no_panic("is_null", || bk::is_null(arr.as_ref()))?;
    let isnn = no_panic("is_not_null", || bk::is_not_null(arr.as_ref()))?;
    let (Ok(isn), Ok(isnn)) = (isn, isnn) else { fail!("is_null:err", "is_null/is_not_null returned Err for {}", ty.arrow()) };
    ensure!(isn.len() == n && isnn.len() == n && isn.null_count() == 0 && isnn.null_count() == 0, "is_null:shape", "is_null result len/nulls for {}", ty.arrow());
    for i in 0..n {
        ensure!(isn.value(i) == vals[i].is_null(), "is_null:row", "is_null row {} of {} = {} but the value reads {:?}", i, ty.arrow(), isn.value(i), vals[i].short());
        ensure!(isnn.value(i) != vals[i].is_null(), "is_not_null:row", "is_not_null row {} of {} = {}", i, ty.arrow(), isnn.value(i));
    }
    c.evals(2 * n as u64 + 1);
    Ok(())
}

// =================================================================================================
// sub-check 11: temporal / interval arithmetic (integer semantics + own proleptic Gregorian calendar)
#[derive(Clone, Debug, PartialEq)]
enum TT {
    Ts(TimeUnit, Option<&'static str>),
    Dur(TimeUnit),
    D32,
    D64,
    YM,
    DT,
    MDN,
    I64,
    F64,
}
type TV = [i128; 3];
fn tt_dt(t: &TT) -> DataType {
    match t {
        TT::Ts(u, tz) => DataType::Timestamp(*u, tz.map(Arc::from)),
        TT::Dur(u) => DataType::Duration(*u),
        TT::D32 => DataType::Date32,
        TT::D64 => DataType::Date64,
        TT::YM => DataType::Interval(IntervalUnit::YearMonth),
        TT::DT => DataType::Interval(IntervalUnit::DayTime),
        TT::MDN => DataType::Interval(IntervalUnit::MonthDayNano),
        TT::I64 => DataType::Int64,
        TT::F64 => DataType::Float64,
    }
}
fn per_sec(u: TimeUnit) -> i128 {
    match u {
        TimeUnit::Second => 1,
        TimeUnit::Millisecond => 1_000,
        TimeUnit::Microsecond => 1_000_000,
        TimeUnit::Nanosecond => 1_000_000_000,
    }
}
fn mk_tt(tt: &TT, vals: &[TV], valid: &[bool], lay: &PLay) -> ArrayRef {
    let dt = tt_dt(tt);
    let f: Vec<i128> = vals.iter().map(|v| v[0]).collect();
    match tt {
        TT::Ts(TimeUnit::Second, _) => mk_int::<TimestampSecondType>(&f, valid, lay, &dt),
        TT::Ts(TimeUnit::Millisecond, _) => mk_int::<TimestampMillisecondType>(&f, valid, lay, &dt),
        TT::Ts(TimeUnit::Microsecond, _) => mk_int::<TimestampMicrosecondType>(&f, valid, lay, &dt),
        TT::Ts(TimeUnit::Nanosecond, _) => mk_int::<TimestampNanosecondType>(&f, valid, lay, &dt),
        TT::Dur(TimeUnit::Second) => mk_int::<DurationSecondType>(&f, valid, lay, &dt),
        TT::Dur(TimeUnit::Millisecond) => mk_int::<DurationMillisecondType>(&f, valid, lay, &dt),
        TT::Dur(TimeUnit::Microsecond) => mk_int::<DurationMicrosecondType>(&f, valid, lay, &dt),
        TT::Dur(TimeUnit::Nanosecond) => mk_int::<DurationNanosecondType>(&f, valid, lay, &dt),
        TT::D32 => mk_int::<Date32Type>(&f, valid, lay, &dt),
        TT::D64 => mk_int::<Date64Type>(&f, valid, lay, &dt),
        TT::YM => mk_int::<IntervalYearMonthType>(&f, valid, lay, &dt),
        TT::I64 => mk_int::<Int64Type>(&f, valid, lay, &dt),
        TT::F64 => {
            let v: Vec<f64> = f.iter().map(|b| f64::from_bits(*b as u64)).collect();
            mk_native::<Float64Type>(&v, valid, lay, &dt, &[f64::NAN, 0.0, f64::INFINITY])
        }
        TT::DT => {
            let v: Vec<IntervalDayTime> = vals.iter().map(|x| IntervalDayTime::new(x[0] as i32, x[1] as i32)).collect();
            mk_native::<IntervalDayTimeType>(&v, valid, lay, &dt, &[IntervalDayTime::new(i32::MIN, i32::MAX), IntervalDayTime::new(i32::MAX, i32::MIN)])
        }
        TT::MDN => {
            let v: Vec<IntervalMonthDayNano> = vals.iter().map(|x| IntervalMonthDayNano::new(x[0] as i32, x[1] as i32, x[2] as i64)).collect();
            mk_native::<IntervalMonthDayNanoType>(&v, valid, lay, &dt, &[IntervalMonthDayNano::new(i32::MIN, i32::MAX, i64::MIN), IntervalMonthDayNano::new(i32::MAX, i32::MIN, i64::MAX)])
        }
    }
}
fn read_tt(tt: &TT, a: &ArrayRef, i: usize) -> Option<TV> {
    if a.is_null(i) {
        return None;
    }
    macro_rules! p {
        ($T:ty) => {
            [a.as_primitive_opt::<$T>()?.value(i) as i128, 0, 0]
        };
    }
    Some(match tt {
        TT::Ts(TimeUnit::Second, _) => p!(TimestampSecondType),
        TT::Ts(TimeUnit::Millisecond, _) => p!(TimestampMillisecondType),
        TT::Ts(TimeUnit::Microsecond, _) => p!(TimestampMicrosecondType),
        TT::Ts(TimeUnit::Nanosecond, _) => p!(TimestampNanosecondType),
        TT::Dur(TimeUnit::Second) => p!(DurationSecondType),
        TT::Dur(TimeUnit::Millisecond) => p!(DurationMillisecondType),
        TT::Dur(TimeUnit::Microsecond) => p!(DurationMicrosecondType),
        TT::Dur(TimeUnit::Nanosecond) => p!(DurationNanosecondType),
        TT::D32 => p!(Date32Type),
        TT::D64 => p!(Date64Type),
        TT::YM => p!(IntervalYearMonthType),
        TT::I64 => p!(Int64Type),
        TT::F64 => [a.as_primitive_opt::<Float64Type>()?.value(i).to_bits() as i128, 0, 0],
        TT::DT => {
            let v = a.as_primitive_opt::<IntervalDayTimeType>()?.value(i);
            [v.days as i128, v.milliseconds as i128, 0]
        }
        TT::MDN => {
            let v = a.as_primitive_opt::<IntervalMonthDayNanoType>()?.value(i);
            [v.months as i128, v.days as i128, v.nanoseconds as i128]
        }
    })
}

// proleptic Gregorian calendar (days relative to 1970-01-01), independent of chrono
fn days_from_civil(y: i128, m: i128, d: i128) -> i128 {
    let y = if m <= 2 { y - 1 } else { y };
    let era = y.div_euclid(400);
    let yoe = y - era * 400;
    let mp = (m + 9) % 12;
    let doy = (153 * mp + 2) / 5 + d - 1;
    let doe = yoe * 365 + yoe / 4 - yoe / 100 + doy;
    era * 146097 + doe - 719468
}
fn civil_from_days(z: i128) -> (i128, i128, i128) {
    let z = z + 719468;
    let era = z.div_euclid(146097);
    let doe = z - era * 146097;
    let yoe = (doe - doe / 1460 + doe / 36524 - doe / 146096) / 365;
    let y = yoe + era * 400;
    let doy = doe - (365 * yoe + yoe / 4 - yoe / 100);
    let mp = (5 * doy + 2) / 153;
    let d = doy - (153 * mp + 2) / 5 + 1;
    let m = if mp < 10 { mp + 3 } else { mp - 9 };
    (if m <= 2 { y + 1 } else { y }, m, d)
}
fn days_in_month(y: i128, m: i128) -> i128 {
    match m {
        1 | 3 | 5 | 7 | 8 | 10 | 12 => 31,
        4 | 6 | 9 | 11 => 30,
        _ => {
            if (y % 4 == 0 && y % 100 != 0) || y % 400 == 0 {
                29
            } else {
                28
            }
        }
    }
}
/// add calendar months, clamping the day of month (SQL / chrono convention)
fn add_months_days(z: i128, k: i128) -> i128 {
    let (y, m, d) = civil_from_days(z);
    let tot = y * 12 + (m - 1) + k;
    let ny = tot.div_euclid(12);
    let nm = tot.rem_euclid(12) + 1;
    days_from_civil(ny, nm, d.min(days_in_month(ny, nm)))
}
/// the implementation works through chrono (years -262143..=262142): inside this core the result must be produced
fn in_core(z_days: i128) -> bool {
    z_days.abs() < 95_000_000
}

#[derive(Clone, Debug, PartialEq)]
enum TW {
    Ok(TV),
    /// result not representable in the result type (or division by zero): must fail
    Err,
    /// outside the calendar range the implementation supports / intermediate overflow: Err accepted, Ok must be exact
    Lenient(TV),
}

const DAY_MS: i128 = 86_400_000;
const DAY_NS: i128 = 86_400_000_000_000;

/// calendar steps of `date/timestamp (+|-) interval`; returns the shifted day number and sub-day shift in ns
/// (months first, then days, then the sub-day part — the documented order of the MonthDayNano helpers)
fn interval_steps(it: &TT, iv: &TV, sub: bool) -> (i128, i128, i128) {
    let sg = if sub { -1 } else { 1 };
    match it {
        TT::YM => (sg * iv[0], 0, 0),
        TT::DT => (0, sg * iv[0], sg * iv[1] * 1_000_000),
        _ => (sg * iv[0], sg * iv[1], sg * iv[2]),
    }
}

fn sem_date(d64: bool, l: &TV, it: &TT, iv: &TV, sub: bool) -> TW {
    let z0 = if d64 { l[0] / DAY_MS } else { l[0] };
    let (months, days, ns) = interval_steps(it, iv, sub);
    let mut core = in_core(z0);
    let mut z = z0;
    if months != 0 {
        z = add_months_days(z, months);
        core &= in_core(z);
    }
    z += days;
    core &= in_core(z);
    // whole days only (generator): a NaiveDate ignores the sub-day part
    z += ns / DAY_NS;
    core &= in_core(z);
    let v = if d64 { z * DAY_MS } else { z };
    let fit = if d64 { fits(v, 64, true) } else { fits(v, 32, true) };
    if !fit {
        TW::Err
    } else if core {
        TW::Ok([v, 0, 0])
    } else {
        TW::Lenient([v, 0, 0])
    }
}

fn sem_ts(u: TimeUnit, off_secs: i128, l: &TV, it: &TT, iv: &TV, sub: bool) -> TW {
    let per = per_sec(u);
    let day_units = 86_400 * per;
    let (months, days, ns) = interval_steps(it, iv, sub);
    let mut v = l[0];
    let mut core = in_core(v.div_euclid(day_units));
    if months != 0 {
        let local = v + off_secs * per;
        let day = local.div_euclid(day_units);
        let tod = local.rem_euclid(day_units);
        let day2 = add_months_days(day, months);
        v = day2 * day_units + tod - off_secs * per;
        core &= in_core(day2);
    }
    v += days * day_units;
    core &= in_core(v.div_euclid(day_units));
    v += ns * per / 1_000_000_000;
    core &= in_core(v.div_euclid(day_units));
    if !fits(v, 64, true) {
        TW::Err
    } else if core {
        TW::Ok([v, 0, 0])
    } else {
        TW::Lenient([v, 0, 0])
    }
}

fn gen_civil_day(t: &mut Tape, ymin: i128, ymax: i128) -> i128 {
    let y = match t.below(4) {
        0 => *t.pick(&[1970i128, 2000, 2020, 2021, 2024, 1900, 2100, 1969, 1600, 4, 1, 9999]),
        1 => *t.pick(&[1972i128, 2023, 1999, 2001, 2400]),
        _ => ymin + t.below((ymax - ymin + 1) as usize) as i128,
    }
    .clamp(ymin, ymax);
    let m = 1 + t.below(12) as i128;
    let d = (*t.pick(&[1i128, 28, 29, 30, 31, 15, 31, 2])).min(days_in_month(y, m));
    days_from_civil(y, m, d)
}
fn gen_ts(t: &mut Tape, u: TimeUnit, wild: bool) -> i128 {
    if wild && t.chance(50) {
        return gen_int(t, 64, true);
    }
    let per = per_sec(u);
    let (ymin, ymax) = if u == TimeUnit::Nanosecond { (1678, 2261) } else { (1, 9999) };
    let day = gen_civil_day(t, ymin, ymax);
    let tod = *t.pick(&[0i128, 1, 86_399, 43_200, 3_600]) + if t.bool() { t.below(86_400 - 3_600) as i128 } else { 0 };
    let tod = tod.min(86_399);
    let sub = if per > 1 && t.bool() { t.below(per as usize) as i128 } else { 0 };
    (day * 86_400 + tod) * per + sub
}
fn gen_interval(t: &mut Tape, it: &TT, calendar: bool, sub_unit_ns: i128) -> TV {
    let months = |t: &mut Tape| -> i128 {
        match t.below(10) {
            0 => 0,
            1 | 2 => *t.pick(&[1i128, -1, 11, 12, 13, -12, 24, -25, 1200, -1200, 6]),
            3 => t.range(-120_000, 120_000) as i128,
            4 if !calendar || t.chance(40) => *t.pick(&[i32::MIN as i128, i32::MAX as i128, 3_200_000, -3_200_000]),
            _ => t.range(-40, 40) as i128,
        }
    };
    let days = |t: &mut Tape| -> i128 {
        match t.below(10) {
            0 => 0,
            1 | 2 => *t.pick(&[1i128, -1, 28, 29, 30, 31, 365, 366, -365, -366, 7]),
            3 => t.range(-3_000_000, 3_000_000) as i128,
            4 if !calendar || t.chance(40) => *t.pick(&[i32::MIN as i128, i32::MAX as i128, 100_000_000, -100_000_000]),
            _ => t.range(-400, 400) as i128,
        }
    };
    match it {
        TT::YM => [if calendar { months(t) } else { gen_int(t, 32, true) }, 0, 0],
        TT::DT => {
            if calendar {
                // sub-day part in whole units of the left operand (whole days for dates)
                let step_ms = (sub_unit_ns / 1_000_000).max(1);
                let k = match t.below(4) {
                    0 => 0,
                    1 => t.range(-5, 5) as i128,
                    _ => t.range(-20_000, 20_000) as i128,
                };
                let ms = (k * step_ms).clamp(-(i32::MAX as i128 / step_ms) * step_ms, (i32::MAX as i128 / step_ms) * step_ms);
                [days(t), ms, 0]
            } else {
                [gen_int(t, 32, true), gen_int(t, 32, true), 0]
            }
        }
        _ => {
            if calendar {
                let k = match t.below(4) {
                    0 => 0,
                    1 => t.range(-5, 5) as i128,
                    2 => t.range(-100_000, 100_000) as i128,
                    _ => t.range(-4_000_000_000, 4_000_000_000) as i128,
                };
                let lim = (i64::MAX as i128 / sub_unit_ns) * sub_unit_ns;
                [months(t), days(t), (k * sub_unit_ns).clamp(-lim, lim)]
            } else {
                [gen_int(t, 32, true), gen_int(t, 32, true), gen_int(t, 64, true)]
            }
        }
    }
}

fn sub_temporal(c: &mut Case) -> CaseResult {
    const UNITS: [TimeUnit; 4] = [TimeUnit::Second, TimeUnit::Millisecond, TimeUnit::Microsecond, TimeUnit::Nanosecond];
    const TZS: [(Option<&str>, i128); 5] = [(None, 0), (Some("+00:00"), 0), (Some("+05:30"), 19_800), (Some("-08:00"), -28_800), (Some("UTC"), 0)];
    let t = &mut c.tape;
    let kind = t.below(12);
    let u = *t.pick(&UNITS);
    let (tz, off) = *t.pick(&TZS);
    let (tz2, _) = *t.pick(&TZS);
    let iv_t = t.pick(&[TT::YM, TT::DT, TT::MDN]).clone();
    let sub = t.bool();
    let wrapping_name = t.chance(64);
    let swap = t.chance(64);
    let chk = |v: i128, bits: u32| if fits(v, bits, true) { Some(v) } else { None };
    // (left type, right type, result type, kernel, semantics, name)
    type K2 = fn(&dyn Datum, &dyn Datum) -> Result<ArrayRef, ArrowError>;
    let addk: K2 = if wrapping_name { num::add_wrapping } else { num::add };
    let subk: K2 = if wrapping_name { num::sub_wrapping } else { num::sub };
    let pm: K2 = if sub { subk } else { addk };
    let pmname = if sub { "sub" } else { "add" };
    let (lt, rt, out_t, k, name, sem): (TT, TT, TT, K2, String, Box<dyn Fn(&TV, &TV) -> TW>) = match kind {
        0 => (TT::Ts(u, tz), TT::Ts(u, tz2), TT::Dur(u), subk, "timestamp-timestamp".into(), Box::new(move |l: &TV, r: &TV| chk(l[0] - r[0], 64).map(|v| TW::Ok([v, 0, 0])).unwrap_or(TW::Err))),
        1 => {
            let f = move |l: &TV, r: &TV| chk(if sub { l[0] - r[0] } else { l[0] + r[0] }, 64).map(|v| TW::Ok([v, 0, 0])).unwrap_or(TW::Err);
            if swap && !sub {
                // duration + timestamp is forwarded to timestamp + duration
                (TT::Dur(u), TT::Ts(u, tz), TT::Ts(u, tz), addk, "duration+timestamp".into(), Box::new(move |l: &TV, r: &TV| f(r, l)))
            } else {
                (TT::Ts(u, tz), TT::Dur(u), TT::Ts(u, tz), pm, format!("timestamp.{}.duration", pmname), Box::new(f))
            }
        }
        2 => (TT::Dur(u), TT::Dur(u), TT::Dur(u), pm, format!("duration.{}.duration", pmname), Box::new(move |l: &TV, r: &TV| chk(if sub { l[0] - r[0] } else { l[0] + r[0] }, 64).map(|v| TW::Ok([v, 0, 0])).unwrap_or(TW::Err))),
        3 => (TT::D32, TT::D32, TT::Dur(TimeUnit::Second), subk, "date32-date32".into(), Box::new(|l: &TV, r: &TV| TW::Ok([(l[0] - r[0]) * 86_400, 0, 0]))),
        4 => (TT::D64, TT::D64, TT::Dur(TimeUnit::Millisecond), subk, "date64-date64".into(), Box::new(move |l: &TV, r: &TV| chk(l[0] - r[0], 64).map(|v| TW::Ok([v, 0, 0])).unwrap_or(TW::Err))),
        5 => {
            let it = iv_t.clone();
            (iv_t.clone(), iv_t.clone(), iv_t.clone(), pm, format!("interval.{}.interval", pmname), Box::new(move |l: &TV, r: &TV| {
                let widths: [u32; 3] = if it == TT::MDN { [32, 32, 64] } else { [32, 32, 32] };
                let mut o = [0i128; 3];
                for j in 0..3 {
                    match chk(if sub { l[j] - r[j] } else { l[j] + r[j] }, widths[j]) {
                        Some(v) => o[j] = v,
                        None => return TW::Err,
                    }
                }
                TW::Ok(o)
            }))
        }
        6 => {
            let it = iv_t.clone();
            let f = move |l: &TV, r: &TV| {
                let widths: [u32; 3] = if it == TT::MDN { [32, 32, 64] } else { [32, 32, 32] };
                let mut o = [0i128; 3];
                for j in 0..3 {
                    match chk(l[j] * r[0], widths[j]) {
                        Some(v) => o[j] = v,
                        None => return TW::Err,
                    }
                }
                TW::Ok(o)
            };
            if swap {
                (TT::I64, iv_t.clone(), iv_t.clone(), num::mul, "int64*interval".into(), Box::new(move |l: &TV, r: &TV| f(r, l)))
            } else {
                (iv_t.clone(), TT::I64, iv_t.clone(), num::mul, "interval*int64".into(), Box::new(f))
            }
        }
        7 | 8 => {
            let it = iv_t.clone();
            let d64 = kind == 8;
            let dt_ = if d64 { TT::D64 } else { TT::D32 };
            let f = move |l: &TV, r: &TV| sem_date(d64, l, &it, r, sub);
            if swap && !sub {
                (iv_t.clone(), dt_.clone(), dt_, addk, "interval+date".into(), Box::new(move |l: &TV, r: &TV| f(r, l)))
            } else {
                (dt_.clone(), iv_t.clone(), dt_, pm, format!("date.{}.interval", pmname), Box::new(f))
            }
        }
        9 | 10 => {
            let it = iv_t.clone();
            let f = move |l: &TV, r: &TV| sem_ts(u, off, l, &it, r, sub);
            if swap && !sub {
                (iv_t.clone(), TT::Ts(u, tz), TT::Ts(u, tz), addk, "interval+timestamp".into(), Box::new(move |l: &TV, r: &TV| f(r, l)))
            } else {
                (TT::Ts(u, tz), iv_t.clone(), TT::Ts(u, tz), pm, format!("timestamp.{}.interval", pmname), Box::new(f))
            }
        }
        _ => {
            // MonthDayNano * Float64 with an integral factor is documented to use the exact integer multiplication
            let f = |l: &TV, r: &TV| {
                let fac = f64::from_bits(r[0] as u64) as i128;
                let widths: [u32; 3] = [32, 32, 64];
                let mut o = [0i128; 3];
                for j in 0..3 {
                    match chk(l[j] * fac, widths[j]) {
                        Some(v) => o[j] = v,
                        None => return TW::Err,
                    }
                }
                TW::Ok(o)
            };
            if swap {
                (TT::F64, TT::MDN, TT::MDN, num::mul, "float64*interval".into(), Box::new(move |l: &TV, r: &TV| f(r, l)))
            } else {
                (TT::MDN, TT::F64, TT::MDN, num::mul, "interval*float64(integral)".into(), Box::new(f))
            }
        }
    };
    let calendar = (7..=10).contains(&kind);
    let gen_val = |t: &mut Tape, tt: &TT, other: &TT| -> TV {
        match tt {
            TT::Ts(u, _) => [gen_ts(t, *u, !calendar), 0, 0],
            TT::Dur(_) | TT::I64 => [gen_int(t, 64, true), 0, 0],
            TT::D32 => [if calendar || t.bool() { gen_civil_day(t, 1, 9999) } else { gen_int(t, 32, true) }, 0, 0],
            TT::D64 => [if calendar || t.bool() { gen_civil_day(t, 1, 9999) * DAY_MS } else { gen_int(t, 64, true) }, 0, 0],
            TT::F64 => {
                let v: i64 = match t.below(4) {
                    0 => t.range(-3, 3),
                    1 => t.range(-100_000, 100_000),
                    2 => (gen_int(t, 64, true) >> 12) as i64,
                    _ => *t.pick(&[1i64 << 31, -(1i64 << 31), (1i64 << 31) - 1, 1 << 52, 0, 1, -1]),
                };
                [(v as f64).to_bits() as i128, 0, 0]
            }
            iv => {
                let unit_ns = match other {
                    TT::Ts(u, _) => 1_000_000_000 / per_sec(*u),
                    TT::D32 | TT::D64 => DAY_NS,
                    _ => 1,
                };
                gen_interval(t, iv, calendar, unit_ns)
            }
        }
    };
    let shape = match t.below(8) {
        0 | 1 => Shape::AS,
        2 | 3 => Shape::SA,
        4 => Shape::SS,
        _ => Shape::AA,
    };
    let n0 = match t.below(6) {
        0 => 0,
        1 => 1,
        2 => *t.pick(&[63usize, 64, 65]),
        _ => 1 + t.below(10),
    };
    let (ln, rn) = match shape {
        Shape::AA => (n0, n0),
        Shape::AS => (n0, 1),
        Shape::SA => (1, n0),
        Shape::SS => (1, 1),
    };
    let n = out_len(shape, ln, rn);
    let want_err = t.chance(56);
    let null_p = *t.pick(&[0u32, 32, 96]);
    let lv: Vec<TV> = (0..ln).map(|_| gen_val(t, &lt, &rt)).collect();
    let rv: Vec<TV> = (0..rn).map(|_| gen_val(t, &rt, &lt)).collect();
    let mut lvalid: Vec<bool> = (0..ln).map(|_| !t.chance(null_p)).collect();
    let mut rvalid: Vec<bool> = (0..rn).map(|_| !t.chance(null_p)).collect();
    if ln == 1 && n0 != 1 && !t.chance(24) {
        lvalid[0] = true;
    }
    if rn == 1 && n0 != 1 && !t.chance(24) {
        rvalid[0] = true;
    }
    let rows: Vec<TW> = (0..n)
        .map(|i| {
            let (il, ir) = row_index(shape, i);
            sem(&lv[il], &rv[ir])
        })
        .collect();
    if !want_err {
        for i in 0..n {
            let (il, ir) = row_index(shape, i);
            if !matches!(rows[i], TW::Ok(_)) && lvalid[il] && rvalid[ir] {
                match shape {
                    Shape::AS => lvalid[il] = false,
                    Shape::SA => rvalid[ir] = false,
                    _ => {
                        if t.bool() {
                            lvalid[il] = false
                        } else {
                            rvalid[ir] = false
                        }
                    }
                }
            }
        }
    }
    let la = mk_tt(&lt, &lv, &lvalid, &PLay::from_tape(t));
    let ra = mk_tt(&rt, &rv, &rvalid, &PLay::from_tape(t));
    let what = format!("{}[{}]", name, shape.name());
    let show = |v: &[TV], ok: &[bool]| -> Vec<String> { v.iter().zip(ok).take(6).map(|(x, o)| if *o { format!("{:?}", x) } else { format!("null{:?}", x) }).collect() };
    c.describe(json!({"op": name, "left type": format!("{}", tt_dt(&lt)), "right type": format!("{}", tt_dt(&rt)), "shape": shape.name(), "len": n, "left": show(&lv, &lvalid), "right": show(&rv, &rvalid), "kernel": if wrapping_name { "*_wrapping" } else { "checked" }}));
    c.class(format!("op:{}", name));
    c.class(format!("shape:{}", shape.name()));
    let valid_at = |i: usize| {
        let (il, ir) = row_index(shape, i);
        lvalid[il] && rvalid[ir]
    };
    let res = no_panic(&what, || call(k, shape, &la, &ra))?;
    let strict: Vec<usize> = (0..n).filter(|i| valid_at(*i) && rows[*i] == TW::Err).collect();
    let lenient: Vec<usize> = (0..n).filter(|i| valid_at(*i) && matches!(rows[*i], TW::Lenient(_))).collect();
    if (0..n).any(|i| !valid_at(i) && !matches!(rows[i], TW::Ok(_))) {
        c.class("null-slot-garbage-would-fail");
        c.nontrivial();
    }
    if !strict.is_empty() {
        c.class("outcome:must-err");
        c.nontrivial();
    }
    match res {
        Err(e) => {
            if strict.is_empty() {
                ensure!(!lenient.is_empty(), format!("{}:err-spurious", name), "{}: Err({}) but every valid row has a representable result inside the supported calendar range", what, e);
                c.class("lenient-error:outside-calendar-core");
            }
        }
        Ok(out) => {
            if let Some(i) = strict.first() {
                let (il, ir) = row_index(shape, *i);
                fail!(format!("{}:err-missing", name), "{}: Ok but valid row {} ({:?} , {:?}) has no representable result", what, i, lv[il], rv[ir]);
            }
            c.class("outcome:ok");
            let want_dt = tt_dt(&out_t);
            ensure!(out.data_type() == &want_dt, format!("{}:type", name), "{}: result type {} expected {}", what, out.data_type(), want_dt);
            ensure!(out.len() == n, format!("{}:len", name), "{}: len {} expected {}", what, out.len(), n);
            for i in 0..n {
                let g = read_tt(&out_t, &out, i);
                if !valid_at(i) {
                    ensure!(g.is_none(), format!("{}:null", name), "{}: row {} valid but an input is null", what, i);
                    continue;
                }
                let (TW::Ok(w) | TW::Lenient(w)) = &rows[i] else { unreachable!() };
                let (il, ir) = row_index(shape, i);
                ensure!(g == Some(*w), format!("{}:value", name), "{}: row {}: {:?} , {:?} = {:?} expected {:?} ({} , {})", what, i, lv[il], rv[ir], g, w, tt_dt(&lt), tt_dt(&rt));
            }
        }
    }
    c.evals(n as u64 + 1);
    Ok(())
}

/// negation of durations and intervals (checked per field; `neg_wrapping` only wraps integers)
fn sub_temporal_neg(c: &mut Case) -> CaseResult {
    let t = &mut c.tape;
    let u = *t.pick(&[TimeUnit::Second, TimeUnit::Millisecond, TimeUnit::Microsecond, TimeUnit::Nanosecond]);
    let tt = t.pick(&[TT::Dur(u), TT::YM, TT::DT, TT::MDN]).clone();
    let wrapping = t.chance(64);
    let n = 1 + t.below(70);
    let want_err = t.chance(64);
    let widths: [u32; 3] = match tt {
        TT::Dur(_) => [64, 64, 64],
        TT::MDN => [32, 32, 64],
        _ => [32, 32, 32],
    };
    let vals: Vec<TV> = (0..n)
        .map(|_| {
            let mut v = [0i128; 3];
            let nf = match tt {
                TT::Dur(_) | TT::YM => 1,
                TT::DT => 2,
                _ => 3,
            };
            for j in 0..nf {
                v[j] = if t.chance(24) { int_range(widths[j], true).0 } else { gen_int(t, widths[j], true) };
            }
            v
        })
        .collect();
    let wants: Vec<Option<TV>> = vals
        .iter()
        .map(|v| {
            let mut o = [0i128; 3];
            for j in 0..3 {
                if !fits(-v[j], widths[j], true) {
                    return None;
                }
                o[j] = -v[j];
            }
            Some(o)
        })
        .collect();
    let mut valid: Vec<bool> = (0..n).map(|_| !t.chance(40)).collect();
    for i in 0..n {
        if wants[i].is_none() && !want_err {
            valid[i] = false;
        }
    }
    let a = mk_tt(&tt, &vals, &valid, &PLay::from_tape(t));
    let name = if wrapping { "temporal.neg_wrapping" } else { "temporal.neg" };
    c.describe(json!({"op": name, "type": format!("{}", tt_dt(&tt)), "len": n}));
    c.class(format!("type:{}", tt_dt(&tt)));
    let res = no_panic(name, || if wrapping { num::neg_wrapping(a.as_ref()) } else { num::neg(a.as_ref()) })?;
    let must_err = (0..n).any(|i| valid[i] && wants[i].is_none());
    if (0..n).any(|i| !valid[i] && wants[i].is_none()) {
        c.class("null-slot-garbage-would-fail");
        c.nontrivial();
    }
    match res {
        Err(e) => ensure!(must_err, format!("{}:err-spurious", name), "{}: Err({}) but no valid field is the minimum", name, e),
        Ok(out) => {
            ensure!(!must_err, format!("{}:err-missing", name), "{}: Ok although a valid field holds the minimum", name);
            ensure!(out.data_type() == &tt_dt(&tt) && out.len() == n, format!("{}:type", name), "{}: type {} len {}", name, out.data_type(), out.len());
            for i in 0..n {
                let g = read_tt(&tt, &out, i);
                let w = if valid[i] { wants[i] } else { None };
                ensure!(g == w, format!("{}:value", name), "{}: row {}: -{:?} = {:?} expected {:?}", name, i, vals[i], g, w);
            }
        }
    }
    c.class(if must_err { "outcome:must-err" } else { "outcome:ok" });
    c.evals(n as u64);
    Ok(())
}

// =================================================================================================
// sub-check 12: element-wise bitwise kernels (null exactly where an input is null, value = the bit operation)
fn run_bitwise<T: ArrowPrimitiveType>(c: &mut Case) -> CaseResult
where
    T::Native: NatI
        + std::ops::BitAnd<Output = T::Native>
        + std::ops::BitOr<Output = T::Native>
        + std::ops::BitXor<Output = T::Native>
        + std::ops::Not<Output = T::Native>
        + num_traits::WrappingShl<Output = T::Native>
        + num_traits::WrappingShr<Output = T::Native>,
{
    let (bits, signed) = (T::Native::BITS, T::Native::SIGNED);
    let dt = T::DATA_TYPE;
    let t = &mut c.tape;
    let n = gen_case_len(t);
    let null_p = *t.pick(&[0u32, 32, 128]);
    let which = t.below(12);
    let shift = which >= 8;
    let lv: Vec<i128> = (0..n).map(|_| gen_int(t, bits, signed)).collect();
    let rv: Vec<i128> = (0..n).map(|_| if shift { t.below(bits as usize) as i128 } else { gen_int(t, bits, signed) }).collect();
    let lvalid: Vec<bool> = (0..n).map(|_| !t.chance(null_p)).collect();
    let rvalid: Vec<bool> = (0..n).map(|_| !t.chance(null_p)).collect();
    let sc = if shift { t.below(bits as usize) as i128 } else { gen_int(t, bits, signed) };
    let la_ref = mk_int::<T>(&lv, &lvalid, &PLay::from_tape(t), &dt);
    let ra_ref = mk_int::<T>(&rv, &rvalid, &PLay::from_tape(t), &dt);
    let la = la_ref.as_primitive::<T>();
    let ra = ra_ref.as_primitive::<T>();
    let s = T::Native::from_i(sc);
    let (name, res, f, binary): (&str, Result<PrimitiveArray<T>, ArrowError>, Box<dyn Fn(i128, i128) -> i128>, bool) = match which {
        0 => ("bitwise_and", bw::bitwise_and(la, ra), Box::new(|a, b| a & b), true),
        1 => ("bitwise_or", bw::bitwise_or(la, ra), Box::new(|a, b| a | b), true),
        2 => ("bitwise_xor", bw::bitwise_xor(la, ra), Box::new(|a, b| a ^ b), true),
        3 => ("bitwise_and_not", bw::bitwise_and_not(la, ra), Box::new(|a, b| a & !b), true),
        4 => ("bitwise_not", bw::bitwise_not(la), Box::new(|a, _| !a), false),
        5 => ("bitwise_and_scalar", bw::bitwise_and_scalar(la, s), Box::new(move |a, _| a & sc), false),
        6 => ("bitwise_or_scalar", bw::bitwise_or_scalar(la, s), Box::new(move |a, _| a | sc), false),
        7 => ("bitwise_xor_scalar", bw::bitwise_xor_scalar(la, s), Box::new(move |a, _| a ^ sc), false),
        8 => ("bitwise_shift_left", bw::bitwise_shift_left(la, ra), Box::new(|a, b| a << b), true),
        9 => ("bitwise_shift_right", bw::bitwise_shift_right(la, ra), Box::new(|a, b| a >> b), true),
        10 => ("bitwise_shift_left_scalar", bw::bitwise_shift_left_scalar(la, s), Box::new(move |a, _| a << sc), false),
        _ => ("bitwise_shift_right_scalar", bw::bitwise_shift_right_scalar(la, s), Box::new(move |a, _| a >> sc), false),
    };
    c.describe(json!({"kernel": name, "type": format!("{}", dt), "len": n, "scalar": sc.to_string()}));
    c.class(format!("kernel:{}", name));
    let want: Vec<Option<i128>> = (0..n).map(|i| if lvalid[i] && (!binary || rvalid[i]) { Some(trunc(f(lv[i], rv[i]), bits, signed)) } else { None }).collect();
    if want.iter().any(|w| w.is_none()) && want.iter().any(|w| w.is_some()) {
        c.nontrivial();
    }
    match res {
        Err(e) => fail!(format!("{}:err", name), "{}: Err({}) on equal-length inputs", name, e),
        Ok(out) => {
            let out: ArrayRef = Arc::new(out);
            cmp_int::<T>(name, &out, &want, &dt)?;
        }
    }
    c.evals(n as u64);
    Ok(())
}
fn sub_bitwise(c: &mut Case) -> CaseResult {
    let ti = c.tape.below(8);
    macro_rules! m {
        ($T:ty) => {
            run_bitwise::<$T>(c)
        };
    }
    with_int!(ti, m)
}

// =================================================================================================
// sub-check 13: sum/min/max through dictionary and run-end accessors (`*_array` kernels)
fn agg_encoded_check<V: ArrowPrimitiveType, A: ArrayAccessor<Item = V::Native> + Copy>(c: &mut Case, acc: A, vals: &[Option<i128>], ree: bool, sliced_ree: bool) -> CaseResult
where
    V::Native: NatI,
{
    let (bits, signed) = (V::Native::BITS, V::Native::SIGNED);
    let vs: Vec<i128> = vals.iter().flatten().copied().collect();
    let any = !vs.is_empty();
    let mut accu: i128 = 0;
    let mut prefix_ok = true;
    for v in &vs {
        accu += v;
        if !fits(accu, bits, signed) {
            prefix_ok = false;
        }
    }
    if ree {
        // run-end arrays are summed run by run (value * run length): an overflowing product of a maximal logical run, or a
        // run length that does not fit the value type, may be reported although every row-wise partial sum fits
        let (_, hi) = int_range(bits, signed);
        if vals.len() as i128 > hi {
            prefix_ok = false;
        }
        let mut i = 0;
        while i < vals.len() {
            let mut j = i;
            while j < vals.len() && vals[j] == vals[i] {
                j += 1;
            }
            if let Some(v) = vals[i] {
                if !fits(v * (j - i) as i128, bits, signed) {
                    prefix_ok = false;
                }
            }
            i = j;
        }
    }
    let total = if fits(accu, bits, signed) { Some(accu) } else { None };
    let want_sum = if any { Some(trunc(accu, bits, signed)) } else { None };
    let g = no_panic("sum_array", || agg::sum_array::<V, _>(acc))?.map(|v| v.to_i());
    // the recorded finding lives exactly in "run-end array with a non-zero slice offset"
    ensure!(g == want_sum, if sliced_ree { "sum_array:sliced-run-end-value" } else { "sum_array:encoded-value" }, "sum_array = {:?} expected {:?}", g, want_sum);
    let r = no_panic("sum_array_checked", || agg::sum_array_checked::<V, _>(acc))?.map(|o| o.map(|v| v.to_i()));
    let cls = judge_checked(if sliced_ree { "sum_array_checked(sliced-run-end)" } else { "sum_array_checked" }, r, any, total, prefix_ok)?;
    c.class(format!("sum_array_checked:{}", cls));
    let g = no_panic("min_array", || agg::min_array::<V, _>(acc))?.map(|v| v.to_i());
    ensure!(g == vs.iter().min().copied(), "min_array:encoded-value", "min_array = {:?} expected {:?}", g, vs.iter().min());
    let g = no_panic("max_array", || agg::max_array::<V, _>(acc))?.map(|v| v.to_i());
    ensure!(g == vs.iter().max().copied(), "max_array:encoded-value", "max_array = {:?} expected {:?}", g, vs.iter().max());
    c.evals(4);
    Ok(())
}

fn sub_agg_encoded(c: &mut Case) -> CaseResult {
    use vp_engine::model::{LField, LType, LValue};
    use vp_engine::r#gen::gen_len;
    use vp_engine::realise::{realise, Lay};
    let t = &mut c.tape;
    let vbits = *t.pick(&[8u8, 32, 64]);
    let vty = LType::Int { bits: vbits, signed: true };
    let ree = t.chance(100);
    let kbits = *t.pick(&[8u8, 16, 32, 64]);
    let ksigned = t.bool();
    let rbits = *t.pick(&[16u8, 32, 64]);
    let ty = if ree {
        LType::Ree { rbits, value: Box::new(LField::new("values", vty.clone(), true)) }
    } else {
        LType::Dict { kbits, ksigned, value: Box::new(vty.clone()) }
    };
    let n = match t.below(4) {
        0 => gen_len(t),
        1 => 100 + t.below(200),
        _ => t.below(40),
    };
    let pool: Vec<i128> = (0..1 + t.below(6)).map(|_| if t.chance(100) { gen_int(t, vbits as u32, true) } else { t.range(-9, 9) as i128 }).collect();
    let null_p = *t.pick(&[0u32, 24, 96, 256]);
    let mut col: Vec<LValue> = Vec::with_capacity(n);
    for i in 0..n {
        if i > 0 && t.chance(150) {
            let prev = col[i - 1].clone();
            col.push(prev);
        } else if t.chance(null_p) {
            col.push(LValue::Null);
        } else {
            col.push(LValue::Int(*t.pick(&pool)));
        }
    }
    // known finding: the run-end sum kernels apply the slice offset twice -> wrong sums for sliced run arrays
    // (fixed: sliced run arrays are generated again)
    let slice = t.bool();
    let excluded = false;
    let lay = Lay { fancy: true, dict_value_nulls: false, slice_chance: if slice { 255 } else { 0 } };
    let arr = no_panic("realise", || realise(t, &ty, &col, true, &lay))?;
    if excluded {
        c.exclude("ree-sum-sliced-offset");
    }
    c.class(if slice { "layout:padded+sliced" } else { "layout:unsliced" });
    let sliced_ree = ree && arr.offset() > 0;
    let vals: Vec<Option<i128>> = col.iter().map(|v| if let LValue::Int(i) = v { Some(*i) } else { None }).collect();
    c.describe(json!({"type": format!("{}", ty.arrow()), "len": n, "values": vals.iter().take(12).map(|v| format!("{:?}", v)).collect::<Vec<_>>()}));
    c.class(if ree { "encoding:run-end" } else { "encoding:dictionary" });
    c.class(format!("value-bits:{}", vbits));
    let nn = vals.iter().filter(|v| v.is_none()).count();
    if n > 64 && nn > 0 && nn < n {
        c.class("more-than-64-values-with-nulls");
        c.nontrivial();
    }
    macro_rules! with_v {
        ($m:ident) => {
            match vbits {
                8 => $m!(Int8Type),
                32 => $m!(Int32Type),
                _ => $m!(Int64Type),
            }
        };
    }
    if ree {
        macro_rules! go {
            ($V:ty) => {
                match rbits {
                    16 => agg_encoded_check::<$V, _>(c, arr.as_run::<Int16Type>().downcast::<PrimitiveArray<$V>>().unwrap(), &vals, true, sliced_ree),
                    32 => agg_encoded_check::<$V, _>(c, arr.as_run::<Int32Type>().downcast::<PrimitiveArray<$V>>().unwrap(), &vals, true, sliced_ree),
                    _ => agg_encoded_check::<$V, _>(c, arr.as_run::<Int64Type>().downcast::<PrimitiveArray<$V>>().unwrap(), &vals, true, sliced_ree),
                }
            };
        }
        with_v!(go)
    } else {
        macro_rules! go {
            ($V:ty) => {
                match (kbits, ksigned) {
                    (8, true) => agg_encoded_check::<$V, _>(c, arr.as_dictionary::<Int8Type>().downcast_dict::<PrimitiveArray<$V>>().unwrap(), &vals, false, false),
                    (16, true) => agg_encoded_check::<$V, _>(c, arr.as_dictionary::<Int16Type>().downcast_dict::<PrimitiveArray<$V>>().unwrap(), &vals, false, false),
                    (32, true) => agg_encoded_check::<$V, _>(c, arr.as_dictionary::<Int32Type>().downcast_dict::<PrimitiveArray<$V>>().unwrap(), &vals, false, false),
                    (64, true) => agg_encoded_check::<$V, _>(c, arr.as_dictionary::<Int64Type>().downcast_dict::<PrimitiveArray<$V>>().unwrap(), &vals, false, false),
                    (8, false) => agg_encoded_check::<$V, _>(c, arr.as_dictionary::<UInt8Type>().downcast_dict::<PrimitiveArray<$V>>().unwrap(), &vals, false, false),
                    (16, false) => agg_encoded_check::<$V, _>(c, arr.as_dictionary::<UInt16Type>().downcast_dict::<PrimitiveArray<$V>>().unwrap(), &vals, false, false),
                    (32, false) => agg_encoded_check::<$V, _>(c, arr.as_dictionary::<UInt32Type>().downcast_dict::<PrimitiveArray<$V>>().unwrap(), &vals, false, false),
                    _ => agg_encoded_check::<$V, _>(c, arr.as_dictionary::<UInt64Type>().downcast_dict::<PrimitiveArray<$V>>().unwrap(), &vals, false, false),
                }
            };
        }
        with_v!(go)
    }
}

// =================================================================================================
// reproductions of recorded findings (targets of known_findings.json; zero generated cases)

/// `<i256 as num_traits::ToPrimitive>::to_i64` returns the low 64 bits for values that fit i128 but not i64 when bits
/// 63 and 127 agree (e.g. 2^64 + 5 -> Some(5)); `cast(Decimal256 -> Int64/Int32)` goes through it via NumCast.
fn repro_i256_to_i64(c: &mut Case) -> CaseResult {
    use num_traits::ToPrimitive;
    c.describe(json!({"value": "2^64 + 5 as i256", "call": "num_traits::ToPrimitive::to_i64"}));
    let v = i256::from_parts((1u128 << 64) + 5, 0);
    let got = ToPrimitive::to_i64(&v);
    ensure!(got.is_none(), "i256.ToPrimitive::to_i64:fits-i128-not-i64", "ToPrimitive::to_i64(2^64 + 5) = {:?} expected None", got);
    let v = i256::from_i128(-(1i128 << 64) - 5);
    let got = ToPrimitive::to_i64(&v);
    ensure!(got.is_none(), "i256.ToPrimitive::to_i64:fits-i128-not-i64", "ToPrimitive::to_i64(-2^64 - 5) = {:?} expected None", got);
    Ok(())
}

/// decimal `rem` rescales both operands with `pow_wrapping`: when 10^(max(s1,s2) - s) does not fit the native type
/// the multiplier wraps silently and a wrong remainder is returned instead of an error.
fn repro_decimal_rem_pow_wrapping(c: &mut Case) -> CaseResult {
    c.describe(json!({"call": "rem(Decimal32(5,-1) [1], Decimal32(9,9) [999999999])", "exact": "10 mod 0.999999999 = 0.000000010"}));
    let l = Decimal32Array::from(vec![1]).with_precision_and_scale(5, -1).unwrap();
    let r = Decimal32Array::from(vec![999_999_999]).with_precision_and_scale(9, 9).unwrap();
    // exact: 1e1 = 10_000_000_000 units of 1e-9; 10_000_000_000 mod 999_999_999 = 10
    match no_panic("dec.rem", || num::rem(&l, &r))? {
        Err(_) => Ok(()), // reporting the rescale overflow is the documented alternative
        Ok(out) => {
            let g = out.as_primitive::<Decimal32Type>().value(0);
            ensure!(g == 10, "dec.rem:value-with-wrapped-pow10", "rem(1e1 as Decimal32(5,-1), 0.999999999 as Decimal32(9,9)) = {} x 1e-9 expected 10 x 1e-9 (10^10 wrapped to 1410065408)", g);
            Ok(())
        }
    }
}

/// `sum_array` / `sum_array_checked` on a sliced RunArray: `ree::fold` clamps the already offset-adjusted run ends of
/// `RunEndBuffer::sliced_values()` into `[offset, offset+len]` again, so the first run is counted `offset` rows long.
fn repro_ree_sum_sliced(c: &mut Case) -> CaseResult {
    c.describe(json!({"array": "RunArray<Int32>(run_ends [3,4,13], values Int32 [7,-9,0]).slice(3, 10)", "logical": "[-9, 0 x 9]"}));
    let run_ends = Int32Array::from(vec![3, 4, 13]);
    let values = Int32Array::from(vec![7, -9, 0]);
    let ra = RunArray::<Int32Type>::try_new(&run_ends, &values).unwrap().slice(3, 10);
    let typed = ra.downcast::<Int32Array>().unwrap();
    let logical: Vec<i32> = (0..typed.len()).map(|i| typed.value(i)).collect();
    ensure!(logical.iter().map(|x| *x as i64).sum::<i64>() == -9, "repro:setup", "logical content {:?}", logical);
    let g = no_panic("sum_array", || agg::sum_array::<Int32Type, _>(typed))?;
    ensure!(g == Some(-9), "sum_array:sliced-run-end-value", "sum_array over the logical values {:?} = {:?} expected Some(-9)", logical, g);
    let g = no_panic("sum_array_checked", || agg::sum_array_checked::<Int32Type, _>(typed))?;
    ensure!(matches!(g, Ok(Some(-9))), "sum_array:sliced-run-end-value", "sum_array_checked = {:?} expected Ok(Some(-9))", g);
    Ok(())
}

// =================================================================================================
fn main() {
    Check::new(
        "C12",
        "exploration",
        "cases = (kernel, operand type, Datum shape, operand columns with null slots holding error-inducing garbage, physical layout); non-trivial = an operand pair whose exact result is within 1 of the type's range limit or overflows / divides by zero, or a null slot whose garbage operands would raise an error, or an aggregate over more than 64 values with nulls, or a three-valued boolean input of >= 16 rows with a validity buffer, or a float result that is NaN/inf/zero/subnormal",
    )
    .assume("reference arithmetic: Rust i128 checked/wrapping operations and num-bigint are exact; Rust f32/f64 operators are the IEEE-754 operations")
    .assume("decimal add/sub/div/rem: an Err is accepted when the documented operand rescale (l*10^k, r*10^k, 10^k itself) overflows the native width even if the final result would fit; result precision is not enforced on values")
    .assume("sum_checked/product_checked: Err accepted when a partial result in slot order overflows even if the total fits")
    .assume("date/timestamp +- interval: month arithmetic clamps the day of month; results are demanded only inside the calendar range supported through chrono (|day number| < 95e6, about +-260000 years), outside an Err is accepted; sub-day interval parts are whole units of the left operand (whole days for dates); only fixed-offset time zones")
    .assume("float min/max follow IEEE totalOrder; with a negative NaN among the valid values any valid value is accepted (docs of min/max and of MIN/MAX_TOTAL_ORDER disagree there)")
    .sub(Sub::new("int8_grid", 0, 0, sub_int8_grid).enumerate(132, 132).require(&["has-overflowing-pairs", "type:signed", "type:unsigned"]))
    .sub(Sub::new("int16_grid", 0, 0, sub_int16_grid).enumerate(20, 20 + 2 * 8 * 1024).require(&["has-overflowing-pairs"]))
    .sub(Sub::new("int_sampled", 250000, 2000000, sub_int_sampled).tape(256, 6000).require(&["null-slot-garbage-would-fail", "result-at-type-boundary", "outcome:must-err", "outcome:must-succeed", "shape:array-scalar", "shape:scalar-array", "shape:scalar-scalar", "neg-unsigned-rejected"]))
    .sub(Sub::new("i256", 250000, 2500000, sub_i256).tape(128, 400).require(&["result-at-type-boundary", "a:needs-high-limb", "b:needs-high-limb"]))
    .sub(Sub::new("decimal", 250000, 2000000, sub_decimal).tape(256, 4000).require(&["null-slot-garbage-would-fail", "result-at-type-boundary", "outcome:must-err", "outcome:ok", "scales:differ", "scale:negative", "width:32", "width:64", "width:128", "width:256", "op:dec.neg"]))
    .sub(Sub::new("float", 120000, 1000000, sub_float).tape(256, 6000).require(&["result:nan-inf-zero-or-subnormal", "type:Float16", "type:Float32", "type:Float64"]))
    .sub(Sub::new("agg_grid", 0, 0, sub_agg_grid).enumerate(301 * N_PATTERNS * 8, 301 * N_PATTERNS * 40).require(&["more-than-64-values-with-nulls", "sum_checked:err", "sum_checked:ok", "float-minmax:total-order-with-nan"]))
    .sub(Sub::new("agg_bytes", 15000, 150000, sub_agg_bytes).tape(256, 6000))
    .sub(Sub::new("bool_grid", 0, 0, sub_bool_grid).enumerate(201 * 4 * 16, 201 * 4 * 16 * 4).require(&["validity:LR", "validity:L-", "validity:-R", "validity:--"]))
    .sub(Sub::new("is_null", 15000, 150000, sub_is_null).tape(256, 6000))
    .sub(Sub::new("bitwise", 20000, 200000, sub_bitwise).tape(256, 6000))
    .sub(Sub::new("agg_encoded", 20000, 200000, sub_agg_encoded).tape(256, 6000).require(&["encoding:run-end", "encoding:dictionary"]))
    .sub(Sub::new("temporal", 200000, 1500000, sub_temporal).tape(256, 3000).require(&["null-slot-garbage-would-fail", "outcome:must-err", "outcome:ok", "op:date.add.interval", "op:timestamp.add.interval", "op:timestamp.sub.interval", "op:interval*int64", "op:timestamp-timestamp"]))
    .sub(Sub::new("repro_i256_to_i64", 0, 0, repro_i256_to_i64))
    .sub(Sub::new("repro_decimal_rem_pow_wrapping", 0, 0, repro_decimal_rem_pow_wrapping))
    .sub(Sub::new("repro_ree_sum_sliced", 0, 0, repro_ree_sum_sliced))
    .sub(Sub::new("temporal_neg", 10000, 80000, sub_temporal_neg).tape(128, 2000).require(&["outcome:must-err", "outcome:ok"]))
    .run()
}
