//! C18 — truncation and I/O faults are reported, never turned into wrong rows (fault enumeration).
//!
//! Every case is one scenario (schema, batches, writer/reader options) for one format. The scenario is written
//! once fault-free into an instrumented sink (recording every write/flush call), then re-run once per
//! (call index, fault kind); likewise for the readers over an instrumented source, and for every truncation length.
use arrow_array::{RecordBatch, RecordBatchWriter};
use arrow_schema::SchemaRef;
use bytes::Bytes;
use parquet::errors::ParquetError;
use parquet::file::reader::{ChunkReader, Length};
use serde_json::json;
use std::collections::BTreeSet;
use std::fmt::Display;
use std::io::{self, BufReader, BufWriter, Read, Seek, SeekFrom, Write};
use std::sync::{Arc, Mutex, MutexGuard};
use vp_engine::batch::*;
use vp_engine::model::*;
use vp_engine::r#gen::*;
use vp_engine::realise::*;
use vp_engine::runner::*;
use vp_engine::tape::Tape;
use vp_engine::{ensure, fail};

const OP_LIMIT: usize = 100_000;
const HANG_MSG: &str = "vp-c18-hang-guard";

fn lock<T>(m: &Mutex<T>) -> MutexGuard<'_, T> {
    m.lock().unwrap_or_else(|e| e.into_inner())
}
fn other(msg: &str) -> io::Error {
    io::Error::new(io::ErrorKind::Other, msg.to_string())
}

// =================================================================================================
// fault-injecting sink
#[derive(Clone, Copy, Debug, PartialEq, Eq)]
enum WKind {
    /// call k returns Err(Other), later calls work again
    ErrOnce,
    /// call k and every later call return Err(Other)
    ErrPerm,
    /// call k returns Err(Interrupted) once
    Interrupted,
    /// write k accepts only 1..n-1 bytes
    Short,
    /// write k returns Ok(0)
    Zero,
}
impl WKind {
    fn name(&self) -> &'static str {
        match self {
            WKind::ErrOnce => "err-once",
            WKind::ErrPerm => "err-perm",
            WKind::Interrupted => "interrupted",
            WKind::Short => "short",
            WKind::Zero => "zero",
        }
    }
}

#[derive(Clone, Copy, Debug)]
struct WOp {
    flush: bool,
    req: usize,
    /// bytes accepted before this call
    off: usize,
}

#[derive(Clone, Copy, Debug)]
struct WFault {
    k: usize,
    kind: WKind,
    /// for Short: accepted = 1 + param % (n-1)
    param: usize,
}

#[derive(Default)]
struct SinkState {
    accepted: Vec<u8>,
    trace: Vec<WOp>,
    ncalls: usize,
    /// (phase, accepted.len(), ncalls when the phase started); phases: 0 constructor, 1 body, 2 finish
    marks: Vec<(u8, usize, usize)>,
    chunk: usize,
    fault: Option<WFault>,
    fired_at: Option<usize>,
    dead: bool,
    hang: bool,
    /// (accepted.len(), ncalls) when the last API call returned
    snap: Option<(usize, usize)>,
    record: bool,
    /// the driver ignores errors of write()/flush() and still calls the finishing API (sub-check after_error)
    sloppy: bool,
    first_err: Option<String>,
}

#[derive(Clone)]
struct Sink(Arc<Mutex<SinkState>>);

impl Sink {
    fn new(chunk: usize, fault: Option<WFault>, record: bool) -> Self {
        Sink(Arc::new(Mutex::new(SinkState { chunk, fault, record, ..Default::default() })))
    }
    fn phase(&self, p: u8) {
        let mut s = lock(&self.0);
        let l = s.accepted.len();
        let n = s.ncalls;
        s.marks.push((p, l, n));
    }
    fn snap(&self) {
        let mut s = lock(&self.0);
        s.snap = Some((s.accepted.len(), s.ncalls));
    }
    fn sloppy(&self) -> bool {
        lock(&self.0).sloppy
    }
    fn note_err(&self, e: String) {
        let mut s = lock(&self.0);
        if s.first_err.is_none() {
            s.first_err = Some(e);
        }
    }
    /// common prologue of write/flush: Some(result) if the call is decided here
    fn enter(s: &mut SinkState, flush: bool, req: usize) -> Option<io::Result<usize>> {
        let idx = s.ncalls;
        s.ncalls += 1;
        if s.ncalls > OP_LIMIT {
            return Some(Err(other(HANG_MSG)));
        }
        if s.record {
            let off = s.accepted.len();
            s.trace.push(WOp { flush, req, off });
        }
        if s.dead {
            return Some(Err(other("injected fault (permanent)")));
        }
        if let Some(f) = s.fault {
            if f.k == idx && s.fired_at.is_none() {
                s.fired_at = Some(s.accepted.len());
                match f.kind {
                    WKind::ErrOnce => return Some(Err(other("injected fault (once)"))),
                    WKind::ErrPerm => {
                        s.dead = true;
                        return Some(Err(other("injected fault (permanent)")));
                    }
                    WKind::Interrupted => return Some(Err(io::Error::new(io::ErrorKind::Interrupted, "injected EINTR"))),
                    WKind::Short if !flush && req.min(s.chunk) >= 2 => return Some(Ok(1 + f.param % (req.min(s.chunk) - 1))),
                    WKind::Zero if !flush && req >= 1 => return Some(Ok(0)),
                    _ => {}
                }
            }
        }
        None
    }
}

fn hang_check(s: MutexGuard<'_, SinkState>) {
    if s.ncalls > OP_LIMIT && !s.hang {
        let mut s = s;
        s.hang = true;
        drop(s);
        panic!("{}", HANG_MSG);
    }
}

impl Write for Sink {
    fn write(&mut self, buf: &[u8]) -> io::Result<usize> {
        let mut s = lock(&self.0);
        match Sink::enter(&mut s, false, buf.len()) {
            Some(Ok(n)) => {
                s.accepted.extend_from_slice(&buf[..n]);
                Ok(n)
            }
            Some(Err(e)) => {
                hang_check(s);
                Err(e)
            }
            None => {
                let n = buf.len().min(s.chunk);
                s.accepted.extend_from_slice(&buf[..n]);
                Ok(n)
            }
        }
    }
    fn flush(&mut self) -> io::Result<()> {
        let mut s = lock(&self.0);
        match Sink::enter(&mut s, true, 0) {
            Some(Err(e)) => {
                hang_check(s);
                Err(e)
            }
            _ => Ok(()),
        }
    }
}

// =================================================================================================
// fault-injecting source (Read + Seek, and Parquet ChunkReader)
#[derive(Clone, Copy, Debug, PartialEq, Eq)]
enum RKind {
    ErrOnce,
    ErrPerm,
    Interrupted,
    /// Err(UnexpectedEof) once
    ErrEof,
    /// Ok(0) from this read on (the source ends early)
    Eof0,
}
impl RKind {
    fn name(&self) -> &'static str {
        match self {
            RKind::ErrOnce => "err-once",
            RKind::ErrPerm => "err-perm",
            RKind::Interrupted => "interrupted",
            RKind::ErrEof => "err-eof",
            RKind::Eof0 => "eof0",
        }
    }
}
#[derive(Clone, Copy, Debug, PartialEq, Eq)]
enum ROpKind {
    Read,
    Seek,
    GetRead,
    GetBytes,
}
#[derive(Clone, Copy, Debug)]
struct ROp {
    kind: ROpKind,
    pos: usize,
    req: usize,
}
#[derive(Clone, Copy, Debug)]
struct RFault {
    k: usize,
    kind: RKind,
}

struct SrcState {
    data: Bytes,
    trace: Vec<ROp>,
    ncalls: usize,
    chunk: usize,
    fault: Option<RFault>,
    /// position of the faulted call
    fired_at: Option<usize>,
    dead: bool,
    eof: bool,
    hang: bool,
    record: bool,
}

#[derive(Clone)]
struct Src {
    st: Arc<Mutex<SrcState>>,
    pos: u64,
}

enum Gate {
    Pass,
    Fail(io::Error),
    Eof,
}

impl Src {
    fn new(data: Bytes, chunk: usize, fault: Option<RFault>, record: bool) -> Self {
        Src {
            st: Arc::new(Mutex::new(SrcState { data, trace: vec![], ncalls: 0, chunk, fault, fired_at: None, dead: false, eof: false, hang: false, record })),
            pos: 0,
        }
    }
    fn gate(s: &mut SrcState, kind: ROpKind, pos: usize, req: usize) -> Gate {
        let idx = s.ncalls;
        s.ncalls += 1;
        if s.ncalls > OP_LIMIT {
            return Gate::Fail(other(HANG_MSG));
        }
        if s.record {
            s.trace.push(ROp { kind, pos, req });
        }
        if s.dead {
            return Gate::Fail(other("injected fault (permanent)"));
        }
        if let Some(f) = s.fault {
            if f.k == idx && s.fired_at.is_none() {
                s.fired_at = Some(pos);
                match f.kind {
                    RKind::ErrOnce => return Gate::Fail(other("injected fault (once)")),
                    RKind::ErrPerm => {
                        s.dead = true;
                        return Gate::Fail(other("injected fault (permanent)"));
                    }
                    RKind::Interrupted => return Gate::Fail(io::Error::new(io::ErrorKind::Interrupted, "injected EINTR")),
                    RKind::ErrEof => return Gate::Fail(io::Error::new(io::ErrorKind::UnexpectedEof, "injected EOF")),
                    RKind::Eof0 => s.eof = true,
                }
            }
        }
        if s.eof && kind == ROpKind::Read {
            return Gate::Eof;
        }
        Gate::Pass
    }
    fn src_hang_check(s: MutexGuard<'_, SrcState>) {
        if s.ncalls > OP_LIMIT && !s.hang {
            let mut s = s;
            s.hang = true;
            drop(s);
            panic!("{}", HANG_MSG);
        }
    }
}

impl Read for Src {
    fn read(&mut self, buf: &mut [u8]) -> io::Result<usize> {
        let mut s = lock(&self.st);
        match Src::gate(&mut s, ROpKind::Read, self.pos as usize, buf.len()) {
            Gate::Fail(e) => {
                Src::src_hang_check(s);
                Err(e)
            }
            Gate::Eof => Ok(0),
            Gate::Pass => {
                let len = s.data.len();
                let pos = (self.pos as usize).min(len);
                let n = buf.len().min(s.chunk).min(len - pos);
                buf[..n].copy_from_slice(&s.data[pos..pos + n]);
                self.pos = (pos + n) as u64;
                Ok(n)
            }
        }
    }
}
impl Seek for Src {
    fn seek(&mut self, to: SeekFrom) -> io::Result<u64> {
        let mut s = lock(&self.st);
        match Src::gate(&mut s, ROpKind::Seek, self.pos as usize, 0) {
            Gate::Fail(e) => {
                Src::src_hang_check(s);
                Err(e)
            }
            _ => {
                let len = s.data.len() as i128;
                let np: i128 = match to {
                    SeekFrom::Start(p) => p as i128,
                    SeekFrom::End(d) => len + d as i128,
                    SeekFrom::Current(d) => self.pos as i128 + d as i128,
                };
                if np < 0 {
                    return Err(io::Error::new(io::ErrorKind::InvalidInput, "invalid seek to a negative or overflowing position"));
                }
                self.pos = np as u64;
                Ok(self.pos)
            }
        }
    }
}
impl Length for Src {
    fn len(&self) -> u64 {
        lock(&self.st).data.len() as u64
    }
}
impl ChunkReader for Src {
    type T = Src;
    fn get_read(&self, start: u64) -> parquet::errors::Result<Src> {
        let mut s = lock(&self.st);
        match Src::gate(&mut s, ROpKind::GetRead, start as usize, 0) {
            Gate::Fail(e) => {
                Src::src_hang_check(s);
                Err(ParquetError::External(Box::new(e)))
            }
            _ => Ok(Src { st: self.st.clone(), pos: start }),
        }
    }
    fn get_bytes(&self, start: u64, length: usize) -> parquet::errors::Result<Bytes> {
        let mut s = lock(&self.st);
        match Src::gate(&mut s, ROpKind::GetBytes, start as usize, length) {
            Gate::Fail(e) => {
                Src::src_hang_check(s);
                Err(ParquetError::External(Box::new(e)))
            }
            _ => {
                let len = s.data.len();
                let start = start as usize;
                if start > len || length > len - start {
                    return Err(ParquetError::EOF(format!("Expected to read {} bytes at offset {}, while file has length {}", length, start, len)));
                }
                Ok(s.data.slice(start..start + length))
            }
        }
    }
}

// =================================================================================================
// scenario
struct Scn {
    fields: Vec<LField>,
    schema: SchemaRef,
    batches: Vec<RecordBatch>,
    nrows: usize,
    /// format-specific option indices (meaning documented at each format)
    o: [usize; 8],
    /// reader batch size and BufReader capacity
    rd_batch: usize,
    rd_cap: usize,
}

#[derive(Default, Clone)]
struct Aux {
    /// Avro OCF sync marker of this run
    marker: Option<[u8; 16]>,
}

#[derive(Clone, Debug)]
enum End {
    Clean,
    Err(String),
}
struct ROut {
    rows: LBatch,
    nrows: usize,
    nbatches: usize,
    end: End,
}
impl ROut {
    fn new() -> Self {
        ROut { rows: vec![], nrows: 0, nbatches: 0, end: End::Clean }
    }
    fn push(&mut self, b: &RecordBatch) {
        let lb = extract_batch(b);
        if self.nbatches == 0 {
            self.rows = lb;
        } else {
            append_lbatch(&mut self.rows, &lb);
        }
        self.nrows += b.num_rows();
        self.nbatches += 1;
    }
    /// rows rendered as one string column (record APIs)
    fn set_strs(&mut self, col: Vec<LValue>) {
        self.nrows = col.len();
        self.nbatches = 1;
        self.rows = vec![col];
    }
    fn err(mut self, e: impl Display) -> Self {
        self.end = End::Err(e.to_string());
        self
    }
    fn is_err(&self) -> bool {
        matches!(self.end, End::Err(_))
    }
    fn end_str(&self) -> String {
        match &self.end {
            End::Clean => "clean end".to_string(),
            End::Err(e) => format!("Err({})", e.chars().take(100).collect::<String>()),
        }
    }
}
fn drain<E: Display>(mut out: ROut, it: impl Iterator<Item = Result<RecordBatch, E>>) -> ROut {
    for b in it {
        match b {
            Ok(b) => {
                out.push(&b);
                if out.nbatches > 20_000 {
                    return out.err("runaway iterator");
                }
            }
            Err(e) => return out.err(e),
        }
    }
    out
}

/// None if `got` is a row prefix of `full`; otherwise a description of the first difference
fn rows_prefix(got: &ROut, full: &ROut) -> Option<String> {
    if got.nbatches == 0 || got.nrows == 0 {
        return None;
    }
    if got.nrows > full.nrows {
        return Some(format!("{} rows decoded but only {} were written", got.nrows, full.nrows));
    }
    if got.rows.len() != full.rows.len() {
        return Some(format!("{} columns decoded, {} written", got.rows.len(), full.rows.len()));
    }
    for (ci, (g, f)) in got.rows.iter().zip(&full.rows).enumerate() {
        if let Some(r) = first_diff(g, &f[..got.nrows]) {
            return Some(format!("column {} row {}: decoded {} but {} was written", ci, r, g.get(r).map(|v| v.short()).unwrap_or_default(), f.get(r).map(|v| v.short()).unwrap_or_default()));
        }
    }
    None
}

trait Fmt {
    const NAME: &'static str;
    /// output bytes are a pure function of the input
    const DETERMINISTIC: bool = true;
    /// footer-based: every proper prefix must be rejected
    const FOOTER: bool = false;
    const CSV: bool = false;
    /// a pull reader over Read exists
    const HAS_READER: bool = true;
    /// probability (x/256) of a scenario with batches of several hundred rows
    const BIG_CHANCE: u32 = 0;
    /// rows per batch of such a scenario: .0 + below(.1)
    const BIG_ROWS: (usize, usize) = (100, 400);
    /// the sink interface has short writes / Interrupted (false for the all-or-error async sink)
    const BYTE_SINK: bool = true;
    fn menu() -> Vec<LType>;
    fn gen_opts(t: &mut Tape, o: &mut [usize; 8], big: bool);
    fn opt_classes(scn: &Scn) -> Vec<String>;
    /// drive the writer over `sink`; stop at the first Err (after `sink.snap()`)
    fn write(scn: &Scn, sink: &Sink, aux: &mut Aux) -> Result<(), String>;
    fn read(_scn: &Scn, _src: Src) -> ROut {
        ROut::new().err("no reader")
    }
    fn read_push(_scn: &Scn, _data: &[u8]) -> Option<ROut> {
        None
    }
    /// (header_end, trailer_start) byte offsets of the fault-free output
    fn body_range(_scn: &Scn, base: &WRun) -> (usize, usize) {
        let h = base.marks.iter().find(|m| m.0 == 1).map(|m| m.1).unwrap_or(0);
        let t = base.marks.iter().find(|m| m.0 == 2).map(|m| m.1).unwrap_or(base.accepted.len());
        (h, t)
    }
    /// extra structural boundaries of the fault-free output
    fn boundaries(_scn: &Scn, _full: &[u8]) -> Vec<usize> {
        vec![]
    }
    fn normalise(bytes: &[u8], _aux: &Aux) -> Vec<u8> {
        bytes.to_vec()
    }
}

macro_rules! step {
    ($sink:expr, $stage:expr, $e:expr) => {
        match $e {
            Ok(v) => v,
            Err(e) => {
                $sink.snap();
                return Err(format!("{}: {}", $stage, e));
            }
        }
    };
}

/// a body call (write/flush of a batch): the sloppy driver notes the error and carries on
macro_rules! body_step {
    ($sink:expr, $stage:expr, $e:expr) => {
        match $e {
            Ok(()) => {}
            Err(e) => {
                if $sink.sloppy() {
                    $sink.note_err(format!("{}: {}", $stage, e));
                } else {
                    $sink.snap();
                    return Err(format!("{}: {}", $stage, e));
                }
            }
        }
    };
}

fn int32() -> LType {
    LType::Int { bits: 32, signed: true }
}
fn common_menu() -> Vec<LType> {
    vec![int32(), LType::Utf8(Enc::O32), LType::Int { bits: 64, signed: true }, LType::F64, LType::Bool]
}
fn list_i32() -> LType {
    LType::List(Box::new(LField::new("item", int32(), true)), ListEnc::O32)
}
fn dict_utf8() -> LType {
    LType::Dict { kbits: 32, ksigned: true, value: Box::new(LType::Utf8(Enc::O32)) }
}

fn sanitise(col: &mut [LValue]) {
    for v in col.iter_mut() {
        match v {
            LValue::F64(b) if !f64::from_bits(*b).is_finite() => *v = LValue::F64(1.5f64.to_bits()),
            LValue::F32(b) if !f32::from_bits(*b).is_finite() => *v = LValue::F32(1.5f32.to_bits()),
            _ => {}
        }
    }
}

/// true with probability n/256; a zero byte decodes to false (the simple choice)
fn rare(t: &mut Tape, n: u32) -> bool {
    (t.u8() as u32) + n >= 256
}

fn gen_scn<F: Fmt>(c: &mut Case) -> Scn {
    let menu = F::menu();
    let t = &mut c.tape;
    // options first (fixed tape positions: big, o[..], reader settings), then the schema, then the data
    let big = F::BIG_CHANCE > 0 && rare(t, F::BIG_CHANCE);
    let mut o = [0usize; 8];
    F::gen_opts(t, &mut o, big);
    let rd_batch = if big { 1024 } else { *t.pick(&[1024usize, 2, 1, 3]) };
    let rd_cap = *t.pick(&[8192usize, 16, 1, 64, 5]);
    let ncols = 1 + t.below(4);
    let strcol = if t.chance(200) { t.below(ncols) } else { usize::MAX };
    let mut fields = vec![];
    for i in 0..ncols {
        let ty = if i == strcol { LType::Utf8(Enc::O32) } else { menu[t.below(menu.len())].clone() };
        // CSV has no representation for an empty non-null string: every CSV column is nullable
        let nullable = !t.chance(64) || F::CSV;
        fields.push(LField { name: format!("c{}", i), ty, nullable });
    }
    let nb = 1 + t.below(3);
    let sizes: Vec<usize> = (0..nb).map(|_| if big { F::BIG_ROWS.0 + t.below(F::BIG_ROWS.1) } else { t.below(6) }).collect();
    let nrows: usize = sizes.iter().sum();
    let vcfg = ValCfg { nan: false, max_str: 12, max_list: 3, ..ValCfg::default() };
    let mut model = gen_lbatch(t, &fields, nrows, &vcfg);
    for col in model.iter_mut() {
        sanitise(col);
    }
    let schema = schema_of(&fields, None);
    let whole = realise_batch(t, &schema, &fields, &model, nrows, &Lay::plain());
    let mut batches = vec![];
    let mut off = 0;
    for n in &sizes {
        batches.push(whole.slice(off, *n));
        off += n;
    }
    let scn = Scn { fields, schema, batches, nrows, o, rd_batch, rd_cap };
    c.describe(json!({
        "format": F::NAME,
        "schema": scn.fields.iter().map(|f| format!("{}:{}{}", f.name, f.ty.arrow(), if f.nullable { "?" } else { "" })).collect::<Vec<_>>(),
        "batch_rows": sizes, "opts": scn.o, "rd_batch": rd_batch, "rd_cap": rd_cap,
        "first_rows": model.iter().map(|col| short_vec(&col[..col.len().min(4)])).collect::<Vec<_>>(),
    }));
    for k in F::opt_classes(&scn) {
        c.class(k);
    }
    if big {
        c.class("big");
    }
    if scn.fields.iter().any(|f| matches!(f.ty, LType::Dict { .. })) {
        c.class("col:dict");
    }
    if scn.fields.iter().any(|f| matches!(f.ty, LType::List(..))) {
        c.class("col:list");
    }
    if scn.fields.iter().any(|f| matches!(f.ty, LType::Utf8(_))) {
        c.class("col:string");
    }
    c.class(format!("batches:{}", nb));
    if nrows == 0 {
        c.class("rows:0");
    }
    scn
}

// =================================================================================================
// running writers / readers under the instrumented sink / source
struct WRun {
    res: Result<(), String>,
    accepted: Vec<u8>,
    at_snap: usize,
    calls_at_snap: usize,
    trace: Vec<WOp>,
    marks: Vec<(u8, usize, usize)>,
    fired_at: Option<usize>,
    first_err: Option<String>,
    aux: Aux,
}

fn run_writer<F: Fmt>(scn: &Scn, chunk: usize, fault: Option<WFault>, record: bool) -> Result<WRun, Fail> {
    run_writer_mode::<F>(scn, chunk, fault, record, false)
}

fn run_writer_mode<F: Fmt>(scn: &Scn, chunk: usize, fault: Option<WFault>, record: bool, sloppy: bool) -> Result<WRun, Fail> {
    let sink = Sink::new(chunk, fault, record);
    lock(&sink.0).sloppy = sloppy;
    let mut aux = Aux::default();
    let r = catch(|| F::write(scn, &sink, &mut aux));
    let mut s = lock(&sink.0);
    if s.hang {
        return Err(Fail::new(format!("W:{}:hang", F::NAME), format!("writer made more than {} sink calls", OP_LIMIT)));
    }
    let res = match r {
        Ok(r) => r,
        Err(p) => return Err(Fail::new(format!("W:{}:{}", F::NAME, p.sig()), format!("writer panicked at {}: {}", p.loc, p.msg))),
    };
    let (at_snap, calls_at_snap) = s.snap.unwrap_or((s.accepted.len(), s.ncalls));
    Ok(WRun {
        res,
        accepted: std::mem::take(&mut s.accepted),
        at_snap,
        calls_at_snap,
        trace: std::mem::take(&mut s.trace),
        marks: s.marks.clone(),
        fired_at: s.fired_at,
        first_err: s.first_err.clone(),
        aux,
    })
}

struct RRun {
    out: ROut,
    trace: Vec<ROp>,
    fired_at: Option<usize>,
}

fn run_reader<F: Fmt>(scn: &Scn, data: Bytes, chunk: usize, fault: Option<RFault>, record: bool, push: bool) -> Result<Option<RRun>, Fail> {
    let src = Src::new(data.clone(), chunk, fault, record);
    let st = src.st.clone();
    let r = catch(|| if push { F::read_push(scn, &data) } else { Some(F::read(scn, src)) });
    let mut s = lock(&st);
    if s.hang {
        return Err(Fail::new(format!("R:{}:hang", F::NAME), format!("reader made more than {} source calls", OP_LIMIT)));
    }
    match r {
        Ok(None) => Ok(None),
        Ok(Some(out)) => Ok(Some(RRun { out, trace: std::mem::take(&mut s.trace), fired_at: s.fired_at })),
        Err(p) => Err(Fail::new(format!("R:{}:{}", F::NAME, p.sig()), format!("reader panicked at {}: {}", p.loc, p.msg))),
    }
}

/// indices to fault: all when n <= cap, else one per stratum plus first and last
fn select(n: usize, cap: usize, t: &mut Tape) -> Vec<usize> {
    if n <= cap {
        return (0..n).collect();
    }
    let mut s = BTreeSet::new();
    s.insert(0);
    s.insert(n - 1);
    for i in 0..cap {
        let lo = i * n / cap;
        let hi = ((i + 1) * n / cap).max(lo + 1);
        s.insert(lo + t.below(hi - lo));
    }
    s.into_iter().collect()
}

fn with_ctx(f: Fail, ctx: &str) -> Fail {
    Fail::new(f.sig, format!("{} [{}]", f.msg, ctx))
}

fn is_prefix(a: &[u8], full: &[u8]) -> bool {
    a.len() <= full.len() && a == &full[..a.len()]
}

fn first_byte_diff(a: &[u8], b: &[u8]) -> usize {
    a.iter().zip(b).position(|(x, y)| x != y).unwrap_or(a.len().min(b.len()))
}

// =================================================================================================
// part 1: writer faults
fn judge_writer<F: Fmt>(run: &WRun, full_norm: &[u8], full_len: usize, kind: WKind, op: &WOp) -> CaseResult {
    let f = F::NAME;
    let k = kind.name();
    ensure!(run.fired_at.is_some(), "harness:W:fault-not-reached", "the scheduled fault was never delivered");
    match &run.res {
        Ok(()) => {
            // success reported: the sink must hold every byte of the fault-free output
            let got = F::normalise(&run.accepted[..run.at_snap], &run.aux);
            if got != full_norm {
                return Err(Fail::new(
                    format!("W:{}:{}:ok-but-bytes-differ", f, k),
                    format!("every API call returned Ok but the sink holds {} bytes, fault-free output has {} (first difference at {})", got.len(), full_len, first_byte_diff(&got, full_norm)),
                ));
            }
            if matches!(kind, WKind::ErrOnce | WKind::ErrPerm) {
                return Err(Fail::new(format!("W:{}:{}:swallowed", f, k), "the sink returned an error but every API call returned Ok".to_string()));
            }
        }
        Err(e) => {
            if kind == WKind::Short || (kind == WKind::Interrupted && !op.flush) {
                return Err(Fail::new(format!("W:{}:{}:not-transparent", f, k), format!("a {} write must be retried transparently, the writer returned Err({})", k, e)));
            }
            if F::DETERMINISTIC {
                let got = &run.accepted[..run.at_snap];
                if !is_prefix(got, full_norm) {
                    return Err(Fail::new(
                        format!("W:{}:{}:not-prefix", f, k),
                        format!("after Err({}) the sink holds {} bytes that are not a prefix of the fault-free output (first difference at {})", e, got.len(), first_byte_diff(got, full_norm)),
                    ));
                }
            } else {
                ensure!(run.at_snap <= full_len, format!("W:{}:{}:not-prefix", f, k), "sink holds {} bytes, more than the fault-free output ({})", run.at_snap, full_len);
            }
        }
    }
    Ok(())
}

fn writer_faults<F: Fmt>(c: &mut Case) -> CaseResult {
    let scn = gen_scn::<F>(c);
    let thorough = c.tier == Tier::Thorough;
    let base = run_writer::<F>(&scn, usize::MAX, None, true)?;
    if let Err(e) = &base.res {
        fail!(format!("harness:W:{}:baseline-rejected", F::NAME), "fault-free write failed: {}", e);
    }
    ensure!(base.at_snap == base.accepted.len(), format!("W:{}:writes-after-last-call", F::NAME), "bytes were written after the last API call returned");
    let full_len = base.accepted.len();
    let full_norm = F::normalise(&base.accepted, &base.aux);
    let (hdr, trl) = F::body_range(&scn, &base);
    let mut evals = 0u64;
    let mut nt = 0u64;
    // chunk settings: the real call sequence, and one in which every write is short
    let chunk2 = *c.tape.pick(&[7usize, 1, 64, 3, 1000]);
    let chunk2 = if full_len / chunk2 > 6000 { full_len / 3000 + 1 } else { chunk2 };
    c.class(format!("trace-len:{}", bucket(base.calls_at_snap)));
    for chunk in [usize::MAX, chunk2] {
        if chunk != usize::MAX && !F::BYTE_SINK {
            continue;
        }
        let tmp;
        let b = if chunk == usize::MAX {
            &base
        } else {
            // all-short-writes sink without any error: must be transparent
            tmp = run_writer::<F>(&scn, chunk, None, true)?;
            let b = &tmp;
            evals += 1;
            if let Err(e) = &b.res {
                fail!(format!("W:{}:chunked:not-transparent", F::NAME), "sink accepting at most {} bytes per write: writer returned Err({})", chunk, e);
            }
            let got = F::normalise(&b.accepted[..b.at_snap], &b.aux);
            ensure!(got == full_norm, format!("W:{}:chunked:ok-but-bytes-differ", F::NAME), "sink accepting at most {} bytes per write: output differs from the fault-free output at byte {} ({} vs {} bytes)", chunk, first_byte_diff(&got, &full_norm), got.len(), full_len);
            b
        };
        let n = b.calls_at_snap.min(b.trace.len());
        let cap = if chunk == usize::MAX { if thorough { 20_000 } else { 200 } } else if thorough { 1500 } else { 120 };
        let ks = select(n, cap, &mut c.tape);
        let kinds: &[WKind] = if !F::BYTE_SINK {
            &[WKind::ErrOnce, WKind::ErrPerm]
        } else if chunk == usize::MAX {
            &[WKind::ErrOnce, WKind::ErrPerm, WKind::Interrupted, WKind::Short, WKind::Zero]
        } else {
            &[WKind::ErrOnce, WKind::ErrPerm, WKind::Interrupted]
        };
        let fin_call = b.marks.iter().find(|m| m.0 == 2).map(|m| m.2).unwrap_or(usize::MAX);
        for k in ks {
            if F::CSV && scn.o[1] == 1 && k >= fin_call && !c.strict {
                // known finding: arrow-csv Writer::into_inner unwraps the result of csv::Writer::into_inner (which flushes)
                c.exclude("csv-into_inner-unwrap");
                continue;
            }
            let op = b.trace[k];
            let in_body = hdr < trl && op.off >= hdr && op.off + op.req.min(chunk) <= trl && (!op.flush || (op.off > hdr && op.off < trl));
            for kind in kinds {
                if op.flush && matches!(kind, WKind::Short | WKind::Zero) {
                    continue;
                }
                if *kind == WKind::Short && op.req.min(chunk) < 2 {
                    continue;
                }
                if *kind == WKind::Zero && op.req == 0 {
                    continue;
                }
                let fault = WFault { k, kind: *kind, param: c.tape.u8() as usize };
                let ctx = format!("{} fault at sink call {} ({} {} bytes at offset {}), sink chunk {}", kind.name(), k, if op.flush { "flush" } else { "write" }, op.req, op.off, if chunk == usize::MAX { "unlimited".to_string() } else { chunk.to_string() });
                let run = run_writer::<F>(&scn, chunk, Some(fault), false).map_err(|f| with_ctx(f, &ctx))?;
                judge_writer::<F>(&run, &full_norm, full_len, *kind, &op).map_err(|f| with_ctx(f, &ctx))?;
                c.class(format!("{}:{}", kind.name(), if run.res.is_ok() { "ok" } else { "err" }));
                evals += 1;
                if in_body {
                    nt += 1;
                }
            }
            if op.flush {
                c.class("fault-on-flush");
            }
        }
    }
    c.evals(evals);
    c.class(format!("body-fault-points:{}", bucket(nt as usize)));
    if nt > 0 {
        c.nontrivial();
    }
    Ok(())
}

fn bucket(n: usize) -> &'static str {
    match n {
        0 => "0",
        1..=9 => "1-9",
        10..=49 => "10-49",
        50..=199 => "50-199",
        200..=999 => "200-999",
        _ => "1000+",
    }
}

// =================================================================================================
// part 1b: a driver that ignores the Err of write()/flush() and still calls finish/close/into_inner
fn after_error<F: Fmt>(c: &mut Case) -> CaseResult {
    let scn = gen_scn::<F>(c);
    let base = run_writer::<F>(&scn, usize::MAX, None, true)?;
    if let Err(e) = &base.res {
        fail!(format!("harness:W:{}:baseline-rejected", F::NAME), "fault-free write failed: {}", e);
    }
    let full_norm = F::normalise(&base.accepted, &base.aux);
    let (hdr, trl) = F::body_range(&scn, &base);
    // known finding: arrow-csv Writer::into_inner unwraps the result of flushing the csv writer
    if F::CSV && scn.o[1] == 1 && !c.strict {
        c.exclude("csv-into_inner-unwrap");
        c.class("excluded:csv-into_inner");
        return Ok(());
    }
    let chunk2 = *c.tape.pick(&[usize::MAX, 7, 64]);
    let mut evals = 0;
    let mut nt = 0;
    for chunk in [usize::MAX, chunk2] {
        if chunk != usize::MAX && !F::BYTE_SINK {
            continue;
        }
        let b = run_writer::<F>(&scn, chunk, None, true)?;
        let n = b.calls_at_snap.min(b.trace.len());
        let ks = select(n, if c.tier == Tier::Thorough { 2000 } else { 100 }, &mut c.tape);
        for k in ks {
            let op = b.trace[k];
            for kind in [WKind::ErrOnce, WKind::ErrPerm] {
                let ctx = format!("sloppy driver, {} fault at sink call {} ({} {} bytes at offset {}), sink chunk {}", kind.name(), k, if op.flush { "flush" } else { "write" }, op.req, op.off, chunk as i64);
                let run = run_writer_mode::<F>(&scn, chunk, Some(WFault { k, kind, param: 0 }), false, true).map_err(|f| with_ctx(Fail::new(f.sig.replacen("W:", "A:", 1), f.msg), &ctx))?;
                evals += 1;
                if op.off >= hdr && op.off < trl {
                    nt += 1;
                }
                let complete = F::normalise(&run.accepted[..run.at_snap], &run.aux) == full_norm;
                match (&run.res, &run.first_err) {
                    (Ok(()), Some(_)) if !complete => c.class("finish-ok-after-reported-error,output-incomplete"),
                    (Ok(()), Some(_)) => c.class("finish-ok-after-reported-error,output-complete"),
                    (Ok(()), None) if !complete => {
                        fail!(format!("A:{}:{}:ok-but-bytes-differ", F::NAME, kind.name()), "no call reported the injected error and the output differs [{}]", ctx)
                    }
                    (Ok(()), None) => fail!(format!("A:{}:{}:swallowed", F::NAME, kind.name()), "no call reported the injected error [{}]", ctx),
                    (Err(_), Some(_)) => c.class("finish-err-after-reported-error"),
                    (Err(_), None) => c.class("error-first-reported-by-finish"),
                }
            }
        }
    }
    c.evals(evals);
    if nt > 0 {
        c.nontrivial();
    }
    Ok(())
}

// =================================================================================================
// part 2: reader faults
fn judge_reader<F: Fmt>(scn: &Scn, run: &RRun, full: &ROut, text: &[u8], kind: RKind) -> CaseResult {
    let f = F::NAME;
    let k = kind.name();
    let out = &run.out;
    ensure!(run.fired_at.is_some(), "harness:R:fault-not-reached", "the scheduled fault was never delivered");
    if F::CSV && matches!(kind, RKind::Eof0) {
        // the source ends early: same as a file truncated at the position of the faulted read
        return csv_trunc_check(scn, text, run.fired_at.unwrap_or(0), out, full, &format!("R:{}:{}", f, k));
    }
    if let Some(d) = rows_prefix(out, full) {
        return Err(Fail::new(format!("R:{}:{}:wrong-rows", f, k), format!("{}; reader ended with {}", d, out.end_str())));
    }
    match kind {
        RKind::ErrOnce | RKind::ErrPerm => {
            ensure!(out.is_err(), format!("R:{}:{}:swallowed", f, k), "the source returned an error but the reader ended cleanly with {} of {} rows", out.nrows, full.nrows);
        }
        RKind::Interrupted => {
            ensure!(out.is_err() || out.nrows == full.nrows, format!("R:{}:{}:rows-lost", f, k), "clean end with {} of {} rows", out.nrows, full.nrows);
        }
        RKind::ErrEof | RKind::Eof0 => {
            if F::FOOTER {
                ensure!(out.is_err() || out.nrows == full.nrows, format!("R:{}:{}:rows-lost", f, k), "premature end of the source but the reader ended cleanly with {} of {} rows", out.nrows, full.nrows);
            }
        }
    }
    Ok(())
}

fn reader_faults<F: Fmt>(c: &mut Case) -> CaseResult {
    let scn = gen_scn::<F>(c);
    let thorough = c.tier == Tier::Thorough;
    let base = run_writer::<F>(&scn, usize::MAX, None, true)?;
    if let Err(e) = &base.res {
        fail!(format!("harness:W:{}:baseline-rejected", F::NAME), "fault-free write failed: {}", e);
    }
    let (hdr, trl) = F::body_range(&scn, &base);
    let data = Bytes::from(base.accepted.clone());
    let full = run_reader::<F>(&scn, data.clone(), usize::MAX, None, true, false)?.unwrap();
    if full.out.is_err() {
        fail!(format!("harness:R:{}:baseline-rejected", F::NAME), "fault-free read failed: {}", full.out.end_str());
    }
    ensure!(full.out.nrows == scn.nrows, format!("harness:R:{}:baseline-rows", F::NAME), "fault-free read returned {} rows, {} written", full.out.nrows, scn.nrows);
    let mut evals = 0u64;
    let mut nt = 0u64;
    let chunk2 = *c.tape.pick(&[1usize, 7, 3, 64]);
    let chunk2 = if data.len() / chunk2 > 6000 { data.len() / 3000 + 1 } else { chunk2 };
    c.class(format!("trace-len:{}", bucket(full.trace.len())));
    for chunk in [usize::MAX, chunk2] {
        let tmp;
        let b = if chunk == usize::MAX {
            &full
        } else {
            tmp = run_reader::<F>(&scn, data.clone(), chunk, None, true, false)?.unwrap();
            let b = &tmp;
            evals += 1;
            if let Some(d) = rows_prefix(&b.out, &full.out) {
                fail!(format!("R:{}:short-reads:wrong-rows", F::NAME), "source returning at most {} bytes per read: {}", chunk, d);
            }
            ensure!(!b.out.is_err() && b.out.nrows == full.out.nrows, format!("R:{}:short-reads:not-transparent", F::NAME), "source returning at most {} bytes per read: {} rows of {}, {}", chunk, b.out.nrows, full.out.nrows, b.out.end_str());
            b
        };
        let n = b.trace.len();
        let cap = if chunk == usize::MAX { if thorough { 20_000 } else { 200 } } else if thorough { 1500 } else { 120 };
        let ks = select(n, cap, &mut c.tape);
        for k in ks {
            let op = b.trace[k];
            let in_body = op.pos > hdr && op.pos < trl;
            let kinds: &[RKind] = match op.kind {
                ROpKind::Read if chunk == usize::MAX => &[RKind::ErrOnce, RKind::ErrPerm, RKind::Interrupted, RKind::ErrEof, RKind::Eof0],
                ROpKind::Read => &[RKind::ErrOnce, RKind::Interrupted, RKind::Eof0],
                ROpKind::Seek => &[RKind::ErrOnce, RKind::ErrPerm, RKind::Interrupted],
                _ => &[RKind::ErrOnce, RKind::ErrPerm],
            };
            for kind in kinds {
                let fault = RFault { k, kind: *kind };
                let ctx = format!("{} fault at source call {} ({:?} {} bytes at offset {}), source chunk {}", kind.name(), k, op.kind, op.req, op.pos, if chunk == usize::MAX { "unlimited".to_string() } else { chunk.to_string() });
                let run = run_reader::<F>(&scn, data.clone(), chunk, Some(fault), false, false).map_err(|f| with_ctx(f, &ctx))?.unwrap();
                judge_reader::<F>(&scn, &run, &full.out, &data, *kind).map_err(|f| with_ctx(f, &ctx))?;
                c.class(format!("{}:{}", kind.name(), if run.out.is_err() { "err" } else if run.out.nrows == full.out.nrows { "all-rows" } else { "prefix+clean-end" }));
                evals += 1;
                if in_body {
                    nt += 1;
                }
            }
            match op.kind {
                ROpKind::Seek => c.class("fault-on-seek"),
                ROpKind::GetBytes => c.class("fault-on-get_bytes"),
                ROpKind::GetRead => c.class("fault-on-get_read"),
                _ => {}
            }
        }
    }
    c.evals(evals);
    c.class(format!("body-fault-points:{}", bucket(nt as usize)));
    if nt > 0 {
        c.nontrivial();
    }
    Ok(())
}

// =================================================================================================
// part 3: truncation
/// offsets just after each CSV record (quote-aware)
fn csv_record_ends(text: &[u8]) -> Vec<usize> {
    let mut ends = vec![];
    let mut inq = false;
    for (i, b) in text.iter().enumerate() {
        match b {
            b'"' => inq = !inq,
            b'\n' if !inq => ends.push(i + 1),
            _ => {}
        }
    }
    ends
}

/// CSV carve-out (DESIGN §3 C18 "S"): rows up to the last complete record are exact; one more row may come from the
/// cut record, in which every column but the last is exact (the last field may be shortened).
fn csv_trunc_check(scn: &Scn, text: &[u8], cut: usize, out: &ROut, full: &ROut, sig: &str) -> CaseResult {
    let cut = cut.min(text.len());
    let ends = csv_record_ends(text);
    let header = scn.o[0] == 1;
    let complete_records = ends.iter().filter(|e| **e <= cut).count();
    let last_end = ends.iter().filter(|e| **e <= cut).last().copied().unwrap_or(0);
    let partial = cut > last_end;
    let hdr = header as usize;
    let n_complete = complete_records.saturating_sub(hdr);
    let partial_is_data = partial && complete_records >= hdr;
    let max_rows = n_complete + partial_is_data as usize;
    ensure!(out.nrows <= max_rows, format!("{}:extra-rows", sig), "{} rows decoded from a prefix holding {} complete records{}; reader ended with {}", out.nrows, n_complete, if partial_is_data { " and one cut record" } else { "" }, out.end_str());
    if out.nrows == 0 {
        return Ok(());
    }
    ensure!(out.rows.len() == full.rows.len(), format!("{}:wrong-rows", sig), "{} columns decoded", out.rows.len());
    let exact = out.nrows.min(n_complete);
    let ncols = full.rows.len();
    for ci in 0..ncols {
        if let Some(r) = first_diff(&out.rows[ci][..exact], &full.rows[ci][..exact]) {
            fail!(format!("{}:wrong-rows", sig), "column {} row {}: decoded {} but {} was written", ci, r, out.rows[ci][r].short(), full.rows[ci][r].short());
        }
    }
    if out.nrows > n_complete {
        let r = n_complete;
        // the cut record: whole text present (only the terminator missing) => exact; else last column free
        let rec_end = ends.get(complete_records).copied().unwrap_or(text.len());
        let whole = cut + 1 >= rec_end;
        let upto = if whole { ncols } else { ncols - 1 };
        for ci in 0..upto {
            ensure!(out.rows[ci][r] == full.rows[ci][r], format!("{}:wrong-rows", sig), "cut record: column {} decoded {} but {} was written", ci, out.rows[ci][r].short(), full.rows[ci][r].short());
        }
    }
    Ok(())
}

fn judge_trunc<F: Fmt>(scn: &Scn, out: &ROut, full: &ROut, text: &[u8], cut: usize, what: &str) -> CaseResult {
    let f = F::NAME;
    if cut == text.len() {
        if let Some(d) = rows_prefix(out, full) {
            fail!(format!("T:{}:{}:complete-file-wrong-rows", f, what), "{}", d);
        }
        ensure!(!out.is_err() && out.nrows == full.nrows, format!("harness:T:{}:{}:complete-file", f, what), "complete file: {} rows of {}, {}", out.nrows, full.nrows, out.end_str());
        return Ok(());
    }
    if F::CSV {
        return csv_trunc_check(scn, text, cut, out, full, &format!("T:{}:{}", f, what));
    }
    if let Some(d) = rows_prefix(out, full) {
        return Err(Fail::new(format!("T:{}:{}:wrong-rows", f, what), format!("{}; reader ended with {}", d, out.end_str())));
    }
    if F::FOOTER {
        ensure!(out.is_err(), format!("T:{}:{}:truncated-file-accepted", f, what), "a proper prefix of a footer-based file was read without error ({} rows)", out.nrows);
    }
    Ok(())
}

fn truncation<F: Fmt>(c: &mut Case) -> CaseResult {
    let scn = gen_scn::<F>(c);
    let thorough = c.tier == Tier::Thorough;
    let base = run_writer::<F>(&scn, usize::MAX, None, true)?;
    if let Err(e) = &base.res {
        fail!(format!("harness:W:{}:baseline-rejected", F::NAME), "fault-free write failed: {}", e);
    }
    let (hdr, trl) = F::body_range(&scn, &base);
    let data = Bytes::from(base.accepted.clone());
    let len = data.len();
    let mut bounds: BTreeSet<usize> = base.trace.iter().map(|o| o.off).collect();
    bounds.insert(len);
    bounds.extend(F::boundaries(&scn, &data));
    // reference rows: pull reader if there is one, else the push decoder
    let full_pull = if F::HAS_READER { run_reader::<F>(&scn, data.clone(), usize::MAX, None, false, false)? } else { None };
    let full_push = run_reader::<F>(&scn, data.clone(), usize::MAX, None, false, true)?;
    let full = match (&full_pull, &full_push) {
        (Some(f), _) => &f.out,
        (None, Some(f)) => &f.out,
        _ => fail!("harness:T:no-reader", "format has no reader"),
    };
    if full.is_err() {
        fail!(format!("harness:R:{}:baseline-rejected", F::NAME), "fault-free read failed: {}", full.end_str());
    }
    ensure!(full.nrows == scn.nrows, format!("harness:R:{}:baseline-rows", F::NAME), "fault-free read returned {} rows, {} written", full.nrows, scn.nrows);
    let all_limit = if thorough { 65_536 } else { 8_192 };
    let cuts: Vec<usize> = if len <= all_limit {
        (0..=len).collect()
    } else {
        let mut s = BTreeSet::new();
        for b in &bounds {
            for d in 0..=4usize {
                let x = (*b + d).saturating_sub(2);
                if x <= len {
                    s.insert(x);
                }
            }
        }
        for d in 0..=16 {
            s.insert(len - d);
            s.insert(d);
        }
        let extra = if thorough { 3000 } else { 400 };
        for x in select(len, extra, &mut c.tape) {
            s.insert(x);
        }
        c.class("cuts:sampled");
        s.into_iter().collect()
    };
    let mut evals = 0u64;
    let mut nt = 0u64;
    for cut in cuts {
        let part = data.slice(0..cut);
        let ctx = format!("file of {} bytes cut at {}", len, cut);
        let inside = cut > hdr && cut < trl && !bounds.contains(&cut);
        if F::HAS_READER {
            let run = run_reader::<F>(&scn, part.clone(), usize::MAX, None, false, false).map_err(|f| with_ctx(f, &ctx))?.unwrap();
            judge_trunc::<F>(&scn, &run.out, full, &data, cut, "pull").map_err(|f| with_ctx(f, &ctx))?;
            if cut < len {
                c.class(if run.out.is_err() { if run.out.nrows > 0 { "cut:rows+err" } else { "cut:err" } } else if run.out.nrows == full.nrows { "cut:all-rows+clean" } else { "cut:prefix+clean" });
            }
            evals += 1;
        }
        if let Some(run) = run_reader::<F>(&scn, part.clone(), usize::MAX, None, false, true).map_err(|f| with_ctx(f, &ctx))? {
            judge_trunc::<F>(&scn, &run.out, full, &data, cut, "push").map_err(|f| with_ctx(f, &ctx))?;
            if cut < len {
                c.class(if run.out.is_err() { if run.out.nrows > 0 { "push-cut:rows+err" } else { "push-cut:err" } } else if run.out.nrows == full.nrows { "push-cut:all-rows+clean" } else { "push-cut:prefix+clean" });
            }
            evals += 1;
        }
        if inside {
            nt += 1;
        }
    }
    c.evals(evals);
    c.class(format!("file-len:{}", bucket(len)));
    c.class(format!("cuts-inside-records:{}", bucket(nt as usize)));
    if nt > 0 {
        c.nontrivial();
    }
    Ok(())
}

// =================================================================================================
// formats
mod ipc {
    use super::*;
    use arrow_ipc::reader::{FileReader, StreamDecoder, StreamReader};
    use arrow_ipc::writer::{FileWriter, IpcWriteOptions, StreamWriter};
    use arrow_ipc::{CompressionType, MetadataVersion};

    /// o[0]: 0 default, 1 alignment 64, 2 legacy V4 framing, 3 zstd (lz4_flex frames cost ~1 ms of page faults per
    /// message, which would dominate the enumeration; the codec does not change the I/O path); o[1]: sink wrapped in BufWriter;
    /// o[2]: 0 finish()+into_inner(), 1 into_inner() only, 2 RecordBatchWriter::close(), 3 finish() only;
    /// o[3]: flush() after each batch; o[4]: reader wrapped in BufReader
    pub fn gen_opts(t: &mut Tape, o: &mut [usize; 8], _big: bool) {
        o[0] = t.below(4);
        o[1] = t.below(2);
        o[2] = t.below(4);
        o[3] = rare(t, 64) as usize;
        o[4] = t.below(2);
    }
    pub fn opt_classes(scn: &Scn) -> Vec<String> {
        let mut v = vec![format!("opt:{}", ["default", "align64", "legacy-v4", "zstd"][scn.o[0]]), format!("end:{}", ["finish+into_inner", "into_inner", "close", "finish"][scn.o[2]])];
        if scn.o[1] == 1 {
            v.push("bufwriter".into());
        }
        if scn.o[3] == 1 {
            v.push("explicit-flush".into());
        }
        v
    }
    pub fn menu() -> Vec<LType> {
        let mut m = common_menu();
        m.extend([dict_utf8(), list_i32(), LType::Utf8(Enc::View), LType::Binary(Enc::O32)]);
        m
    }
    fn options(scn: &Scn) -> IpcWriteOptions {
        match scn.o[0] {
            1 => IpcWriteOptions::try_new(64, false, MetadataVersion::V5).unwrap(),
            2 => IpcWriteOptions::try_new(8, true, MetadataVersion::V4).unwrap(),
            3 => IpcWriteOptions::default().try_with_compression(Some(CompressionType::ZSTD)).unwrap(),
            _ => IpcWriteOptions::default(),
        }
    }

    fn drive_file<W: Write>(scn: &Scn, sink: &Sink, w: W) -> Result<(), String> {
        sink.phase(0);
        let mut wr = step!(sink, "try_new", FileWriter::try_new_with_options(w, &scn.schema, options(scn)));
        sink.phase(1);
        for (i, b) in scn.batches.iter().enumerate() {
            body_step!(sink, format!("write#{}", i), wr.write(b));
            if scn.o[3] == 1 {
                body_step!(sink, format!("flush#{}", i), wr.flush());
            }
        }
        sink.phase(2);
        match scn.o[2] {
            0 => {
                step!(sink, "finish", wr.finish());
                let inner = step!(sink, "into_inner", wr.into_inner());
                sink.snap();
                drop(inner);
            }
            1 => {
                let inner = step!(sink, "into_inner", wr.into_inner());
                sink.snap();
                drop(inner);
            }
            2 => {
                step!(sink, "close", RecordBatchWriter::close(wr));
                sink.snap();
            }
            _ => {
                step!(sink, "finish", wr.finish());
                sink.snap();
            }
        }
        Ok(())
    }
    fn drive_stream<W: Write>(scn: &Scn, sink: &Sink, w: W) -> Result<(), String> {
        sink.phase(0);
        let mut wr = step!(sink, "try_new", StreamWriter::try_new_with_options(w, &scn.schema, options(scn)));
        sink.phase(1);
        for (i, b) in scn.batches.iter().enumerate() {
            body_step!(sink, format!("write#{}", i), wr.write(b));
            if scn.o[3] == 1 {
                body_step!(sink, format!("flush#{}", i), wr.flush());
            }
        }
        sink.phase(2);
        match scn.o[2] {
            0 => {
                step!(sink, "finish", wr.finish());
                let inner = step!(sink, "into_inner", wr.into_inner());
                sink.snap();
                drop(inner);
            }
            1 => {
                let inner = step!(sink, "into_inner", wr.into_inner());
                sink.snap();
                drop(inner);
            }
            2 => {
                step!(sink, "close", RecordBatchWriter::close(wr));
                sink.snap();
            }
            _ => {
                step!(sink, "finish", wr.finish());
                sink.snap();
            }
        }
        Ok(())
    }

    pub struct IpcFile;
    impl Fmt for IpcFile {
        const NAME: &'static str = "ipc_file";
        const FOOTER: bool = true;
        fn menu() -> Vec<LType> {
            menu()
        }
        fn gen_opts(t: &mut Tape, o: &mut [usize; 8], _big: bool) {
            gen_opts(t, o, _big)
        }
        fn opt_classes(scn: &Scn) -> Vec<String> {
            opt_classes(scn)
        }
        fn write(scn: &Scn, sink: &Sink, _aux: &mut Aux) -> Result<(), String> {
            if scn.o[1] == 1 {
                drive_file(scn, sink, BufWriter::with_capacity(64, sink.clone()))
            } else {
                drive_file(scn, sink, sink.clone())
            }
        }
        fn read(scn: &Scn, src: Src) -> ROut {
            let out = ROut::new();
            if scn.o[4] == 1 {
                match FileReader::try_new(BufReader::with_capacity(scn.rd_cap, src), None) {
                    Ok(r) => drain(out, r),
                    Err(e) => out.err(e),
                }
            } else {
                match FileReader::try_new(src, None) {
                    Ok(r) => drain(out, r),
                    Err(e) => out.err(e),
                }
            }
        }
    }

    pub struct IpcStream;
    impl Fmt for IpcStream {
        const NAME: &'static str = "ipc_stream";
        fn menu() -> Vec<LType> {
            menu()
        }
        fn gen_opts(t: &mut Tape, o: &mut [usize; 8], _big: bool) {
            gen_opts(t, o, _big)
        }
        fn opt_classes(scn: &Scn) -> Vec<String> {
            opt_classes(scn)
        }
        fn write(scn: &Scn, sink: &Sink, _aux: &mut Aux) -> Result<(), String> {
            if scn.o[1] == 1 {
                drive_stream(scn, sink, BufWriter::with_capacity(64, sink.clone()))
            } else {
                drive_stream(scn, sink, sink.clone())
            }
        }
        fn read(scn: &Scn, src: Src) -> ROut {
            let out = ROut::new();
            if scn.o[4] == 1 {
                match StreamReader::try_new(BufReader::with_capacity(scn.rd_cap, src), None) {
                    Ok(r) => drain(out, r),
                    Err(e) => out.err(e),
                }
            } else {
                match StreamReader::try_new(src, None) {
                    Ok(r) => drain(out, r),
                    Err(e) => out.err(e),
                }
            }
        }
        fn read_push(scn: &Scn, data: &[u8]) -> Option<ROut> {
            let mut out = ROut::new();
            let mut dec = StreamDecoder::new();
            // deliver in pieces of rd_cap bytes
            let piece = scn.rd_cap.max(1);
            let mut off = 0;
            while off < data.len() {
                let end = (off + piece).min(data.len());
                let mut buf = arrow_buffer::Buffer::from(data[off..end].to_vec());
                off = end;
                let mut guard = 0;
                while !buf.is_empty() {
                    guard += 1;
                    if guard > 100_000 {
                        return Some(out.err("runaway decoder"));
                    }
                    match dec.decode(&mut buf) {
                        Ok(Some(b)) => out.push(&b),
                        Ok(None) => {}
                        Err(e) => return Some(out.err(e)),
                    }
                }
            }
            Some(match dec.finish() {
                Ok(()) => out,
                Err(e) => out.err(e),
            })
        }
    }
}

mod pq {
    use super::*;
    use parquet::arrow::arrow_reader::ParquetRecordBatchReaderBuilder;
    use parquet::arrow::ArrowWriter;
    use parquet::basic::{Compression, ZstdLevel};
    use parquet::file::metadata::ParquetMetaDataReader;
    use parquet::file::properties::{WriterProperties, WriterVersion};

    /// o[0]: 0 uncompressed, 1 snappy, 2 zstd; o[1]: dictionary enabled; o[2]: max row group rows (0 default, else n);
    /// o[3]: small pages; o[4]: writer version 2; o[5]: 0 close(), 1 into_inner(), 2 finish(), 3 RecordBatchWriter::close;
    /// o[6]: flush() (new row group) after each batch; o[7]: bloom filters
    pub fn props(scn: &Scn) -> WriterProperties {
        let mut b = WriterProperties::builder()
            .set_compression(match scn.o[0] {
                1 => Compression::SNAPPY,
                2 => Compression::ZSTD(ZstdLevel::try_new(1).unwrap()),
                _ => Compression::UNCOMPRESSED,
            })
            .set_dictionary_enabled(scn.o[1] == 1)
            .set_writer_version(if scn.o[4] == 1 { WriterVersion::PARQUET_2_0 } else { WriterVersion::PARQUET_1_0 })
            .set_bloom_filter_enabled(scn.o[7] == 1);
        if scn.o[7] == 1 {
            // default ndv (1M) makes every column chunk allocate and write a ~1 MiB filter
            b = b.set_bloom_filter_max_ndv(40);
        }
        if scn.o[2] > 0 {
            b = b.set_max_row_group_row_count(Some(scn.o[2]));
        }
        if scn.o[3] == 1 {
            b = b.set_data_page_row_count_limit(2).set_write_batch_size(2);
        }
        b.build()
    }

    fn footer_start(d: &[u8]) -> usize {
        let n = d.len();
        if n < 12 {
            return 0;
        }
        let flen = u32::from_le_bytes([d[n - 8], d[n - 7], d[n - 6], d[n - 5]]) as usize;
        n.saturating_sub(8 + flen).max(4)
    }

    pub struct Parquet;
    impl Fmt for Parquet {
        const NAME: &'static str = "parquet";
        const FOOTER: bool = true;
        const BIG_CHANCE: u32 = 20;
        fn menu() -> Vec<LType> {
            let mut m = common_menu();
            m.extend([dict_utf8(), list_i32()]);
            m
        }
        fn gen_opts(t: &mut Tape, o: &mut [usize; 8], _big: bool) {
            o[0] = t.below(3);
            o[1] = 1 - t.below(2);
            o[2] = if rare(t, 96) { 1 + t.below(4) } else { 0 };
            if _big && o[2] > 0 {
                // keep the number of row groups (and so of source calls) moderate
                o[2] = 150 + 100 * o[2];
            }
            o[3] = rare(t, 64) as usize;
            o[4] = t.below(2);
            o[5] = t.below(4);
            o[6] = rare(t, 96) as usize;
            o[7] = rare(t, 48) as usize;
        }
        fn opt_classes(scn: &Scn) -> Vec<String> {
            let mut v = vec![format!("opt:{}", ["uncompressed", "snappy", "zstd"][scn.o[0]]), format!("end:{}", ["close", "into_inner", "finish", "rbw-close"][scn.o[5]])];
            if scn.o[1] == 1 {
                v.push("dictionary-pages".into());
            }
            if scn.o[2] > 0 || scn.o[6] == 1 {
                v.push("several-row-groups".into());
            }
            if scn.o[3] == 1 {
                v.push("small-pages".into());
            }
            if scn.o[7] == 1 {
                v.push("bloom".into());
            }
            v
        }
        fn write(scn: &Scn, sink: &Sink, _aux: &mut Aux) -> Result<(), String> {
            sink.phase(0);
            let mut wr = step!(sink, "try_new", ArrowWriter::try_new(sink.clone(), scn.schema.clone(), Some(props(scn))));
            sink.phase(1);
            for (i, b) in scn.batches.iter().enumerate() {
                body_step!(sink, format!("write#{}", i), wr.write(b));
                if scn.o[6] == 1 {
                    body_step!(sink, format!("flush#{}", i), wr.flush());
                }
            }
            sink.phase(2);
            match scn.o[5] {
                0 => {
                    step!(sink, "close", wr.close());
                }
                1 => {
                    let inner = step!(sink, "into_inner", wr.into_inner());
                    drop(inner);
                }
                2 => {
                    step!(sink, "finish", wr.finish());
                }
                _ => {
                    step!(sink, "close", RecordBatchWriter::close(wr));
                }
            }
            sink.snap();
            Ok(())
        }
        fn read(scn: &Scn, src: Src) -> ROut {
            let out = ROut::new();
            let b = match ParquetRecordBatchReaderBuilder::try_new(src) {
                Ok(b) => b,
                Err(e) => return out.err(e),
            };
            match b.with_batch_size(scn.rd_batch).build() {
                Ok(r) => drain(out, r),
                Err(e) => out.err(e),
            }
        }
        fn body_range(_scn: &Scn, base: &WRun) -> (usize, usize) {
            (4, footer_start(&base.accepted))
        }
        fn boundaries(_scn: &Scn, full: &[u8]) -> Vec<usize> {
            let mut v = vec![4, full.len().saturating_sub(8)];
            if let Ok(md) = ParquetMetaDataReader::new().parse_and_finish(&Bytes::copy_from_slice(full)) {
                for rg in md.row_groups() {
                    for col in rg.columns() {
                        v.push(col.data_page_offset() as usize);
                        if let Some(d) = col.dictionary_page_offset() {
                            v.push(d as usize);
                        }
                        let (s, l) = col.byte_range();
                        v.push(s as usize);
                        v.push((s + l) as usize);
                    }
                }
            }
            v.push(footer_start(full));
            v
        }
    }
}

mod pq2 {
    use super::pq::Parquet;
    use super::*;
    use futures::future::BoxFuture;
    use parquet::arrow::async_writer::{AsyncArrowWriter, AsyncFileWriter};
    use parquet::file::reader::FileReader;
    use parquet::file::serialized_reader::SerializedFileReader;

    /// same files as `Parquet`, read through SerializedFileReader::get_row_iter (rows rendered as strings)
    pub struct ParquetRows;
    impl Fmt for ParquetRows {
        const NAME: &'static str = "parquet_rowapi";
        const FOOTER: bool = true;
        fn menu() -> Vec<LType> {
            Parquet::menu()
        }
        fn gen_opts(t: &mut Tape, o: &mut [usize; 8], _big: bool) {
            Parquet::gen_opts(t, o, _big)
        }
        fn opt_classes(scn: &Scn) -> Vec<String> {
            Parquet::opt_classes(scn)
        }
        fn write(scn: &Scn, sink: &Sink, aux: &mut Aux) -> Result<(), String> {
            Parquet::write(scn, sink, aux)
        }
        fn read(_scn: &Scn, src: Src) -> ROut {
            let mut out = ROut::new();
            let rd = match SerializedFileReader::new(src) {
                Ok(r) => r,
                Err(e) => return out.err(e),
            };
            let it = match rd.get_row_iter(None) {
                Ok(i) => i,
                Err(e) => return out.err(e),
            };
            let mut col = vec![];
            for r in it {
                match r {
                    Ok(row) => col.push(LValue::Str(row.to_string())),
                    Err(e) => {
                        out.set_strs(col);
                        return out.err(e);
                    }
                }
                if col.len() > 1_000_000 {
                    out.set_strs(col);
                    return out.err("runaway iterator");
                }
            }
            out.set_strs(col);
            out
        }
        fn body_range(scn: &Scn, base: &WRun) -> (usize, usize) {
            Parquet::body_range(scn, base)
        }
        fn boundaries(scn: &Scn, full: &[u8]) -> Vec<usize> {
            Parquet::boundaries(scn, full)
        }
    }

    /// all-or-error sink: one sink call per AsyncFileWriter::write / complete
    struct AsyncSink(Sink);
    impl AsyncFileWriter for AsyncSink {
        fn write(&mut self, bs: Bytes) -> BoxFuture<'_, parquet::errors::Result<()>> {
            let r = match Write::write(&mut self.0, &bs) {
                Ok(n) if n == bs.len() => Ok(()),
                Ok(n) => Err(ParquetError::General(format!("harness: sink accepted {} of {} bytes", n, bs.len()))),
                Err(e) => Err(ParquetError::External(Box::new(e))),
            };
            Box::pin(futures::future::ready(r))
        }
        fn complete(&mut self) -> BoxFuture<'_, parquet::errors::Result<()>> {
            let r = Write::flush(&mut self.0).map_err(|e| ParquetError::External(Box::new(e)));
            Box::pin(futures::future::ready(r))
        }
    }

    /// AsyncArrowWriter driven by futures::executor::block_on (every sink future is immediately ready);
    /// o[5]: 0|3 close(), 1|2 finish()
    pub struct ParquetAsync;
    impl Fmt for ParquetAsync {
        const NAME: &'static str = "parquet_async";
        const FOOTER: bool = true;
        const BIG_CHANCE: u32 = 150;
        const BIG_ROWS: (usize, usize) = (400, 900);
        const BYTE_SINK: bool = false;
        fn menu() -> Vec<LType> {
            Parquet::menu()
        }
        fn gen_opts(t: &mut Tape, o: &mut [usize; 8], big: bool) {
            Parquet::gen_opts(t, o, big);
            if big {
                // the async writer hands over whatever its 8 KiB BufWriter has released at each row-group flush:
                // flush after every batch so that a large file reaches the sink in several calls
                o[6] = 1;
            }
        }
        fn opt_classes(scn: &Scn) -> Vec<String> {
            Parquet::opt_classes(scn)
        }
        fn write(scn: &Scn, sink: &Sink, _aux: &mut Aux) -> Result<(), String> {
            futures::executor::block_on(async {
                sink.phase(0);
                let mut wr = step!(sink, "try_new", AsyncArrowWriter::try_new(AsyncSink(sink.clone()), scn.schema.clone(), Some(super::pq::props(scn))));
                sink.phase(1);
                for (i, b) in scn.batches.iter().enumerate() {
                    body_step!(sink, format!("write#{}", i), wr.write(b).await);
                    if scn.o[6] == 1 {
                        body_step!(sink, format!("flush#{}", i), wr.flush().await);
                    }
                }
                sink.phase(2);
                if scn.o[5] == 0 || scn.o[5] == 3 {
                    step!(sink, "close", wr.close().await);
                } else {
                    step!(sink, "finish", wr.finish().await);
                }
                sink.snap();
                Ok(())
            })
        }
        fn read(scn: &Scn, src: Src) -> ROut {
            Parquet::read(scn, src)
        }
        fn body_range(scn: &Scn, base: &WRun) -> (usize, usize) {
            Parquet::body_range(scn, base)
        }
    }
}

mod avro {
    use super::*;
    use arrow_avro::compression::CompressionCodec;
    use arrow_avro::reader::ReaderBuilder;
    use arrow_avro::schema::{AvroSchema, SchemaStore};
    use arrow_avro::writer::format::{AvroOcfFormat, AvroSoeFormat};
    use arrow_avro::writer::WriterBuilder;

    fn menu() -> Vec<LType> {
        let mut m = common_menu();
        m.extend([LType::F32, LType::Binary(Enc::O32)]);
        m
    }

    /// o[0]: 0 none, 1 deflate, 2 snappy, 3 zstd; o[1]: 0 finish()+into_inner(), 1 into_inner() only, 2 finish() only
    pub struct AvroOcf;
    impl Fmt for AvroOcf {
        const NAME: &'static str = "avro_ocf";
        const DETERMINISTIC: bool = false;
        fn menu() -> Vec<LType> {
            menu()
        }
        fn gen_opts(t: &mut Tape, o: &mut [usize; 8], _big: bool) {
            o[0] = t.below(4);
            o[1] = t.below(3);
        }
        fn opt_classes(scn: &Scn) -> Vec<String> {
            vec![format!("opt:{}", ["null-codec", "deflate", "snappy", "zstd"][scn.o[0]]), format!("end:{}", ["finish+into_inner", "into_inner", "finish"][scn.o[1]])]
        }
        fn write(scn: &Scn, sink: &Sink, aux: &mut Aux) -> Result<(), String> {
            sink.phase(0);
            let codec = match scn.o[0] {
                1 => Some(CompressionCodec::Deflate),
                2 => Some(CompressionCodec::Snappy),
                3 => Some(CompressionCodec::ZStandard),
                _ => None,
            };
            let mut wr = step!(sink, "build", WriterBuilder::new(scn.schema.as_ref().clone()).with_compression(codec).build::<_, AvroOcfFormat>(sink.clone()));
            aux.marker = wr.sync_marker().copied();
            sink.phase(1);
            for (i, b) in scn.batches.iter().enumerate() {
                body_step!(sink, format!("write#{}", i), wr.write(b));
            }
            sink.phase(2);
            if scn.o[1] != 1 {
                step!(sink, "finish", wr.finish());
            }
            if scn.o[1] != 2 {
                let inner = wr.into_inner();
                sink.snap();
                drop(inner);
            } else {
                sink.snap();
            }
            Ok(())
        }
        fn read(scn: &Scn, src: Src) -> ROut {
            let out = ROut::new();
            match ReaderBuilder::new().with_batch_size(scn.rd_batch).build(BufReader::with_capacity(scn.rd_cap, src)) {
                Ok(r) => drain(out, r),
                Err(e) => out.err(e),
            }
        }
        fn normalise(bytes: &[u8], aux: &Aux) -> Vec<u8> {
            let mut v = bytes.to_vec();
            if let Some(m) = aux.marker {
                let mut i = 0;
                while i + 16 <= v.len() {
                    if v[i..i + 16] == m {
                        v[i..i + 16].copy_from_slice(&[0xAB; 16]);
                        i += 16;
                    } else {
                        i += 1;
                    }
                }
            }
            v
        }
    }

    /// o[1]: 0 finish()+into_inner(), 1 into_inner() only, 2 finish() only
    pub struct AvroSoe;
    impl Fmt for AvroSoe {
        const NAME: &'static str = "avro_soe";
        const HAS_READER: bool = false;
        fn menu() -> Vec<LType> {
            menu()
        }
        fn gen_opts(t: &mut Tape, o: &mut [usize; 8], _big: bool) {
            o[1] = t.below(3);
        }
        fn opt_classes(scn: &Scn) -> Vec<String> {
            vec![format!("end:{}", ["finish+into_inner", "into_inner", "finish"][scn.o[1]])]
        }
        fn write(scn: &Scn, sink: &Sink, _aux: &mut Aux) -> Result<(), String> {
            sink.phase(0);
            let mut wr = step!(sink, "build", WriterBuilder::new(scn.schema.as_ref().clone()).build::<_, AvroSoeFormat>(sink.clone()));
            sink.phase(1);
            for (i, b) in scn.batches.iter().enumerate() {
                body_step!(sink, format!("write#{}", i), wr.write(b));
            }
            sink.phase(2);
            if scn.o[1] != 1 {
                step!(sink, "finish", wr.finish());
            }
            if scn.o[1] != 2 {
                let inner = wr.into_inner();
                sink.snap();
                drop(inner);
            } else {
                sink.snap();
            }
            Ok(())
        }
        fn read_push(scn: &Scn, data: &[u8]) -> Option<ROut> {
            let mut out = ROut::new();
            let mut store = SchemaStore::new();
            let avro_schema = match AvroSchema::try_from(scn.schema.as_ref()) {
                Ok(s) => s,
                Err(e) => return Some(out.err(format!("schema: {}", e))),
            };
            if let Err(e) = store.register(avro_schema) {
                return Some(out.err(format!("register: {}", e)));
            }
            let mut dec = match ReaderBuilder::new().with_batch_size(scn.rd_batch).with_writer_schema_store(store).build_decoder() {
                Ok(d) => d,
                Err(e) => return Some(out.err(format!("build_decoder: {}", e))),
            };
            let mut off = 0;
            let mut guard = 0;
            loop {
                guard += 1;
                if guard > 100_000 {
                    return Some(out.err("runaway decoder"));
                }
                let n = match dec.decode(&data[off..]) {
                    Ok(n) => n,
                    Err(e) => return Some(out.err(e)),
                };
                off += n;
                if dec.batch_is_full() {
                    match dec.flush() {
                        Ok(Some(b)) => out.push(&b),
                        Ok(None) => {}
                        Err(e) => return Some(out.err(e)),
                    }
                } else if n == 0 || off >= data.len() {
                    break;
                }
            }
            match dec.flush() {
                Ok(Some(b)) => out.push(&b),
                Ok(None) => {}
                Err(e) => return Some(out.err(e)),
            }
            if off < data.len() {
                return Some(out.err(format!("incomplete: {} trailing bytes not consumed", data.len() - off)));
            }
            Some(out)
        }
    }
}

mod csvf {
    use super::*;
    use arrow_csv::reader::ReaderBuilder;
    use arrow_csv::writer::WriterBuilder;

    /// o[0]: header line; o[1]: 0 drop the writer, 1 into_inner(), 2 RecordBatchWriter::close()
    pub struct Csv;
    impl Fmt for Csv {
        const NAME: &'static str = "csv";
        const CSV: bool = true;
        const BIG_CHANCE: u32 = 20;
        fn menu() -> Vec<LType> {
            common_menu()
        }
        fn gen_opts(t: &mut Tape, o: &mut [usize; 8], _big: bool) {
            o[0] = t.below(2);
            o[1] = t.below(3);
        }
        fn opt_classes(scn: &Scn) -> Vec<String> {
            vec![format!("header:{}", scn.o[0]), format!("end:{}", ["drop", "into_inner", "close"][scn.o[1]])]
        }
        fn write(scn: &Scn, sink: &Sink, _aux: &mut Aux) -> Result<(), String> {
            sink.phase(0);
            let mut wr = WriterBuilder::new().with_header(scn.o[0] == 1).build(sink.clone());
            sink.phase(1);
            for (i, b) in scn.batches.iter().enumerate() {
                body_step!(sink, format!("write#{}", i), wr.write(b));
            }
            sink.phase(2);
            match scn.o[1] {
                1 => {
                    let inner = wr.into_inner();
                    sink.snap();
                    drop(inner);
                }
                2 => {
                    // close() itself performs no I/O (returns Ok(())); the flush seen during it comes from dropping the
                    // csv writer and cannot be reported, so it is not judged (like every other drop-time call)
                    sink.snap();
                    step!(sink, "close", RecordBatchWriter::close(wr));
                }
                _ => {
                    sink.snap();
                    drop(wr);
                }
            }
            Ok(())
        }
        fn read(scn: &Scn, src: Src) -> ROut {
            let out = ROut::new();
            match ReaderBuilder::new(scn.schema.clone()).with_header(scn.o[0] == 1).with_batch_size(scn.rd_batch).build_buffered(BufReader::with_capacity(scn.rd_cap, src)) {
                Ok(r) => drain(out, r),
                Err(e) => out.err(e),
            }
        }
        fn body_range(scn: &Scn, base: &WRun) -> (usize, usize) {
            let h = if scn.o[0] == 1 { csv_record_ends(&base.accepted).first().copied().unwrap_or(0) } else { 0 };
            (h, base.accepted.len())
        }
        fn boundaries(_scn: &Scn, full: &[u8]) -> Vec<usize> {
            csv_record_ends(full)
        }
    }
}

mod jsonf {
    use super::*;
    use arrow_json::reader::ReaderBuilder;
    use arrow_json::writer::{JsonArray, LineDelimited, WriterBuilder};

    fn menu() -> Vec<LType> {
        let mut m = common_menu();
        m.push(list_i32());
        m
    }
    /// o[0]: explicit nulls; o[1]: 0 finish(), 1 RecordBatchWriter::close(), 2 finish()+into_inner()
    fn gen_opts(t: &mut Tape, o: &mut [usize; 8], _big: bool) {
        o[0] = t.below(2);
        o[1] = t.below(3);
    }
    fn opt_classes(scn: &Scn) -> Vec<String> {
        vec![format!("explicit-nulls:{}", scn.o[0]), format!("end:{}", ["finish", "close", "finish+into_inner"][scn.o[1]])]
    }
    fn drive<Fm: arrow_json::writer::JsonFormat>(scn: &Scn, sink: &Sink) -> Result<(), String> {
        sink.phase(0);
        let mut wr = WriterBuilder::new().with_explicit_nulls(scn.o[0] == 1).build::<_, Fm>(sink.clone());
        sink.phase(1);
        for (i, b) in scn.batches.iter().enumerate() {
            body_step!(sink, format!("write#{}", i), wr.write(b));
        }
        sink.phase(2);
        match scn.o[1] {
            1 => {
                step!(sink, "close", RecordBatchWriter::close(wr));
                sink.snap();
            }
            2 => {
                step!(sink, "finish", wr.finish());
                let inner = wr.into_inner();
                sink.snap();
                drop(inner);
            }
            _ => {
                step!(sink, "finish", wr.finish());
                sink.snap();
            }
        }
        Ok(())
    }
    fn json_line_ends(text: &[u8]) -> Vec<usize> {
        text.iter().enumerate().filter(|(_, b)| **b == b'\n').map(|(i, _)| i + 1).collect()
    }

    pub struct JsonLines;
    impl Fmt for JsonLines {
        const NAME: &'static str = "json_lines";
        const BIG_CHANCE: u32 = 20;
        fn menu() -> Vec<LType> {
            menu()
        }
        fn gen_opts(t: &mut Tape, o: &mut [usize; 8], _big: bool) {
            gen_opts(t, o, _big)
        }
        fn opt_classes(scn: &Scn) -> Vec<String> {
            opt_classes(scn)
        }
        fn write(scn: &Scn, sink: &Sink, _aux: &mut Aux) -> Result<(), String> {
            drive::<LineDelimited>(scn, sink)
        }
        fn read(scn: &Scn, src: Src) -> ROut {
            let out = ROut::new();
            match ReaderBuilder::new(scn.schema.clone()).with_batch_size(scn.rd_batch).build(BufReader::with_capacity(scn.rd_cap, src)) {
                Ok(r) => drain(out, r),
                Err(e) => out.err(e),
            }
        }
        fn read_push(scn: &Scn, data: &[u8]) -> Option<ROut> {
            let mut out = ROut::new();
            let mut dec = match ReaderBuilder::new(scn.schema.clone()).with_batch_size(scn.rd_batch).build_decoder() {
                Ok(d) => d,
                Err(e) => return Some(out.err(e)),
            };
            let mut off = 0;
            let mut guard = 0;
            while off < data.len() {
                guard += 1;
                if guard > 100_000 {
                    return Some(out.err("runaway decoder"));
                }
                let n = match dec.decode(&data[off..]) {
                    Ok(n) => n,
                    Err(e) => return Some(out.err(e)),
                };
                off += n;
                if off < data.len() {
                    // the batch is full
                    match dec.flush() {
                        Ok(Some(b)) => out.push(&b),
                        Ok(None) => {
                            if n == 0 {
                                return Some(out.err("decoder made no progress"));
                            }
                        }
                        Err(e) => return Some(out.err(e)),
                    }
                }
            }
            match dec.flush() {
                Ok(Some(b)) => out.push(&b),
                Ok(None) => {}
                Err(e) => return Some(out.err(e)),
            }
            Some(out)
        }
        fn body_range(_scn: &Scn, base: &WRun) -> (usize, usize) {
            (0, base.accepted.len())
        }
        fn boundaries(_scn: &Scn, full: &[u8]) -> Vec<usize> {
            json_line_ends(full)
        }
    }

    pub struct JsonArr;
    impl Fmt for JsonArr {
        const NAME: &'static str = "json_array";
        const HAS_READER: bool = false;
        const BIG_CHANCE: u32 = 20;
        fn menu() -> Vec<LType> {
            menu()
        }
        fn gen_opts(t: &mut Tape, o: &mut [usize; 8], _big: bool) {
            gen_opts(t, o, _big)
        }
        fn opt_classes(scn: &Scn) -> Vec<String> {
            opt_classes(scn)
        }
        fn write(scn: &Scn, sink: &Sink, _aux: &mut Aux) -> Result<(), String> {
            drive::<JsonArray>(scn, sink)
        }
        fn body_range(_scn: &Scn, base: &WRun) -> (usize, usize) {
            (1, base.accepted.len().saturating_sub(1))
        }
    }
}

use avro::{AvroOcf, AvroSoe};
use csvf::Csv;
use ipc::{IpcFile, IpcStream};
use jsonf::{JsonArr, JsonLines};
use pq::Parquet;
use pq2::{ParquetAsync, ParquetRows};

#[cfg(all(target_os = "linux", target_env = "gnu"))]
fn tune_allocator() {
    // Every faulted run builds a fresh writer/reader whose buffers (hundreds of KiB) glibc would hand back to the
    // kernel and fault in again each time; keep freed memory in the heap instead. Performance only.
    unsafe extern "C" {
        fn mallopt(param: i32, value: i32) -> i32;
    }
    const M_TRIM_THRESHOLD: i32 = -1;
    const M_MMAP_THRESHOLD: i32 = -3;
    unsafe {
        mallopt(M_TRIM_THRESHOLD, 1 << 30);
        mallopt(M_MMAP_THRESHOLD, 32 << 20);
    }
}
#[cfg(not(all(target_os = "linux", target_env = "gnu")))]
fn tune_allocator() {}

fn main() {
    tune_allocator();
    Check::new(
        "C18",
        "fault_enumeration",
        "case = one generated scenario (schema of 1-4 simple columns incl. strings/dictionary/list, 1-3 small batches, writer and reader options) for one format; \
         the scenario is written fault-free once into an instrumented sink, then re-run once per (sink call index, fault kind: error once, error from then on, Interrupted, short write, Ok(0)) \
         and again with a sink that accepts only a few bytes per call; readers likewise over an instrumented source (read/seek/get_bytes/get_read call index x error once, permanent, Interrupted, \
         UnexpectedEof, premature Ok(0); 1..64-byte short reads); every prefix length 0..len of the produced file is fed to the pull reader and the push decoder. evaluations = faulted runs / truncated reads. \
         Non-trivial case = at least one fault index strictly inside the body (after the header bytes, before the trailer/footer bytes), resp. one cut strictly inside a message/page/record; \
         distinct = distinct consumed entropy tape.",
    )
    .assume("the driver stops at the first Err (a writer/reader is not used after it reported an error) and then drops it; bytes written while dropping are not judged")
    .assume("rows are compared with the rows the same reader returns for the complete fault-free file (round-trip fidelity is other properties' business); the fault-free read must return exactly the number of rows written")
    .assume("Interrupted on flush()/seek() may be reported as Err (std does not retry those); Interrupted and short counts on write() must be transparent (write_all semantics)")
    .assume("CSV truncation is judged by the carve-out of DESIGN §3 C18 S: rows of complete records exact, the cut record may yield one more row whose last field is shortened")
    .assume("Avro OCF embeds a random sync marker: outputs are compared after replacing the marker; the prefix clause is not applied to it")
    .sub(Sub::new("w_ipc_file", 160, 1500, writer_faults::<IpcFile>).tape(192, 3000).require(&["bufwriter", "col:dict", "fault-on-flush", "explicit-flush", "short:ok", "interrupted:ok", "err-once:err"]))
    .sub(Sub::new("w_ipc_stream", 160, 1500, writer_faults::<IpcStream>).tape(192, 3000).require(&["bufwriter", "col:dict", "fault-on-flush", "short:ok", "err-perm:err"]))
    .sub(Sub::new("w_parquet", 128, 700, writer_faults::<Parquet>).tape(192, 6000).require(&["several-row-groups", "dictionary-pages", "fault-on-flush", "short:ok", "big"]))
    .sub(Sub::new("w_avro_ocf", 160, 1500, writer_faults::<AvroOcf>).tape(192, 3000).require(&["fault-on-flush", "short:ok", "opt:deflate"]))
    .sub(Sub::new("w_avro_soe", 160, 1500, writer_faults::<AvroSoe>).tape(192, 3000))
    .sub(Sub::new("w_csv", 160, 1500, writer_faults::<Csv>).tape(192, 6000).require(&["fault-on-flush", "short:ok", "header:1"]))
    .sub(Sub::new("w_json_lines", 160, 1500, writer_faults::<JsonLines>).tape(192, 6000))
    .sub(Sub::new("w_json_array", 160, 1500, writer_faults::<JsonArr>).tape(192, 6000))
    .sub(Sub::new("w_parquet_async", 128, 1000, writer_faults::<ParquetAsync>).tape(192, 6000).require(&["big", "err-once:err"]))
    .sub(Sub::new("a_ipc_file", 64, 600, after_error::<IpcFile>).tape(192, 3000))
    .sub(Sub::new("a_ipc_stream", 64, 600, after_error::<IpcStream>).tape(192, 3000))
    .sub(Sub::new("a_parquet", 64, 400, after_error::<Parquet>).tape(192, 6000))
    .sub(Sub::new("a_avro_ocf", 64, 600, after_error::<AvroOcf>).tape(192, 3000))
    .sub(Sub::new("a_csv", 64, 600, after_error::<Csv>).tape(192, 6000))
    .sub(Sub::new("a_json_lines", 64, 600, after_error::<JsonLines>).tape(192, 6000))
    .sub(Sub::new("r_ipc_file", 160, 1500, reader_faults::<IpcFile>).tape(192, 3000).require(&["fault-on-seek", "err-once:err", "interrupted:all-rows"]))
    .sub(Sub::new("r_ipc_stream", 160, 1500, reader_faults::<IpcStream>).tape(192, 3000).require(&["eof0:prefix+clean-end", "err-once:err"]))
    .sub(Sub::new("r_parquet", 128, 700, reader_faults::<Parquet>).tape(192, 6000).require(&["fault-on-get_bytes", "fault-on-get_read", "several-row-groups"]))
    .sub(Sub::new("r_parquet_rowapi", 128, 700, reader_faults::<ParquetRows>).tape(192, 6000).require(&["fault-on-get_bytes", "fault-on-get_read"]))
    .sub(Sub::new("r_avro_ocf", 160, 1500, reader_faults::<AvroOcf>).tape(192, 3000).require(&["eof0:prefix+clean-end", "err-once:err"]))
    .sub(Sub::new("r_csv", 160, 1500, reader_faults::<Csv>).tape(192, 6000).require(&["err-once:err", "eof0:err"]))
    .sub(Sub::new("r_json_lines", 160, 1500, reader_faults::<JsonLines>).tape(192, 6000).require(&["err-once:err", "eof0:err"]))
    .sub(Sub::new("t_ipc_file", 128, 1000, truncation::<IpcFile>).tape(192, 3000).require(&["cut:err"]))
    .sub(Sub::new("t_ipc_stream", 128, 1000, truncation::<IpcStream>).tape(192, 3000).require(&["cut:rows+err", "cut:prefix+clean", "push-cut:rows+err"]))
    .sub(Sub::new("t_parquet", 128, 1000, truncation::<Parquet>).tape(192, 6000).require(&["cut:err", "several-row-groups"]))
    .sub(Sub::new("t_parquet_rowapi", 128, 1000, truncation::<ParquetRows>).tape(192, 6000))
    .sub(Sub::new("t_avro_ocf", 128, 1000, truncation::<AvroOcf>).tape(192, 3000).require(&["cut:err", "cut:prefix+clean"]))
    .sub(Sub::new("t_avro_soe", 128, 1000, truncation::<AvroSoe>).tape(192, 3000).require(&["push-cut:rows+err"]))
    .sub(Sub::new("t_csv", 128, 1000, truncation::<Csv>).tape(192, 6000).require(&["cut:err", "cut:prefix+clean"]))
    .sub(Sub::new("t_json_lines", 128, 1000, truncation::<JsonLines>).tape(192, 6000).require(&["cut:rows+err", "push-cut:err"]))
    .run()
}
