//! C20 — string predicates and functions follow character-level Unicode semantics.
use arrow_array::cast::AsArray;
use arrow_array::*;
use arrow_schema::{ArrowError, DataType};
use arrow_string::like::{contains, ends_with, eq_ignore_ascii_case, ilike, like, nilike, nlike, starts_with};
use serde_json::json;
use std::sync::OnceLock;
use vp_engine::extract::extract;
use vp_engine::model::*;
use vp_engine::realise::*;
use vp_engine::runner::*;
use vp_engine::tape::Tape;
use vp_engine::validate::check_valid;
use vp_engine::{ensure, fail};

#[path = "../c20_ref.rs"]
mod r;
use r::*;

#[path = "../c20_more.rs"]
mod more;
#[path = "../c20_more2.rs"]
mod more2;

// ------------------------------------------------------------------------------------------------ common
pub fn mk(t: &mut Tape, ty: &LType, vals: &[LValue]) -> Result<ArrayRef, Fail> {
    let lay = Lay { dict_value_nulls: t.chance(64), ..Lay::fancy() };
    let a = no_panic("realise", || realise(t, ty, vals, true, &lay))?;
    ensure!(a.data_type() == &ty.arrow() && a.len() == vals.len(), "realise:shape", "realised {} len {} for {} len {}", a.data_type(), a.len(), ty.arrow(), vals.len());
    Ok(a)
}
pub fn bools(a: &BooleanArray) -> Vec<Option<bool>> {
    (0..a.len()).map(|i| if a.is_null(i) { None } else { Some(a.value(i)) }).collect()
}

fn run_like(op: LikeOp, l: &dyn Datum, r: &dyn Datum) -> Result<BooleanArray, ArrowError> {
    match op {
        LikeOp::Like => like(l, r),
        LikeOp::ILike => ilike(l, r),
        LikeOp::NLike => nlike(l, r),
        LikeOp::NILike => nilike(l, r),
    }
}

/// call a boolean kernel, require Ok + valid output + row-wise equality with `want`
pub fn check_bool_call(
    name: &str,
    mode: &str,
    f: &dyn Fn() -> Result<BooleanArray, ArrowError>,
    want: &[Option<bool>],
    info: &dyn Fn(Option<usize>) -> String,
) -> CaseResult {
    let res = no_panic(&format!("{}:{}", name, mode), f)?;
    let got = match res {
        Ok(a) => a,
        Err(e) => fail!(format!("{}:{}:err", name, mode), "{} returned Err({}); {}", name, e, info(None)),
    };
    check_valid(&got, name)?;
    let g = bools(&got);
    ensure!(g.len() == want.len(), format!("{}:{}:len", name, mode), "{} returned {} rows, expected {}; {}", name, g.len(), want.len(), info(None));
    for i in 0..g.len() {
        if g[i] != want[i] {
            fail!(format!("{}:{}:row", name, mode), "{} row {}: got {:?} expected {:?}; {}", name, i, g[i], want[i], info(Some(i)));
        }
    }
    Ok(())
}

/// Known finding: an operand passed as an *array* in the array-pattern code path that is dictionary-encoded with an
/// empty values array (zero rows, or every row null) makes `like_op` panic in `normalized_keys()`.
pub fn hits_empty_dict(mode: Mode, l: &ArrayRef, r: &ArrayRef) -> bool {
    let empty = |a: &ArrayRef| a.as_any_dictionary_opt().map(|d| d.values().is_empty()).unwrap_or(false);
    match mode {
        Mode::ArrArr => empty(l) || empty(r),
        Mode::ScalarArr => empty(r),
        _ => false,
    }
}

/// how the two operands are passed
#[derive(Clone, Copy, Debug, PartialEq)]
pub enum Mode {
    ArrScalar,
    ArrArr,
    ScalarArr,
    ScalarScalar,
}
impl Mode {
    pub fn name(&self) -> &'static str {
        match self {
            Mode::ArrScalar => "array-scalar",
            Mode::ArrArr => "array-array",
            Mode::ScalarArr => "scalar-array",
            Mode::ScalarScalar => "scalar-scalar",
        }
    }
}

/// Evaluate the four LIKE operators on realised operands against the reference.
/// `hay`/`pat` are the logical columns (length 1 for a scalar side).
fn like_all_ops(c: &mut Case, mode: Mode, l: &ArrayRef, rr: &ArrayRef, hay: &[Option<String>], pat: &[Option<String>], lrep: &Rep, rrep: &Rep, ops: &[LikeOp]) -> CaseResult {
    let n = match mode {
        Mode::ArrScalar | Mode::ArrArr => hay.len(),
        Mode::ScalarArr => pat.len(),
        Mode::ScalarScalar => 1,
    };
    let hv = |i: usize| if matches!(mode, Mode::ScalarArr | Mode::ScalarScalar) { &hay[0] } else { &hay[i] };
    let pv = |i: usize| if matches!(mode, Mode::ArrScalar | Mode::ScalarScalar) { &pat[0] } else { &pat[i] };
    for op in ops {
        let want: Vec<Option<bool>> = (0..n).map(|i| expect_like(*op, hv(i).as_deref(), pv(i).as_deref())).collect();
        let info = |i: Option<usize>| match i {
            Some(i) => format!("{} {} {} [{} ∘ {}, {}]", show(hv(i)), op.name(), show(pv(i)), lrep.name(), rrep.name(), mode.name()),
            None => format!("hay {} pat {} [{} ∘ {}, {}]", show_col(hay), show_col(pat), lrep.name(), rrep.name(), mode.name()),
        };
        let f = || -> Result<BooleanArray, ArrowError> {
            match mode {
                Mode::ArrScalar => run_like(*op, l, &Scalar::new(rr.clone())),
                Mode::ArrArr => run_like(*op, l, rr),
                Mode::ScalarArr => run_like(*op, &Scalar::new(l.clone()), rr),
                Mode::ScalarScalar => run_like(*op, &Scalar::new(l.clone()), &Scalar::new(rr.clone())),
            }
        };
        check_bool_call(op.name(), mode.name(), &f, &want, &info)?;
        c.evals(n.max(1) as u64);
    }
    Ok(())
}

// ------------------------------------------------------------------------------------------------ like_grid
const GRID_SYMS: [char; 5] = ['%', '_', '\\', 'a', 'é'];
const GRID_VARIANTS: u64 = 4;
fn grid_count(maxlen: u32) -> u64 {
    (0..=maxlen).map(|k| 5u64.pow(k)).sum()
}
fn grid_pattern(mut k: u64) -> String {
    let mut len = 0u32;
    while k >= 5u64.pow(len) {
        k -= 5u64.pow(len);
        len += 1;
    }
    let mut s = vec![];
    for _ in 0..len {
        s.push(GRID_SYMS[(k % 5) as usize]);
        k /= 5;
    }
    s.iter().rev().collect()
}
/// fixed string set: every string of length <= 2 over the grid symbols plus hand-picked longer / multi-byte / case /
/// newline strings, some beyond the 12-byte inline limit of views
fn grid_strings() -> &'static Vec<String> {
    static S: OnceLock<Vec<String>> = OnceLock::new();
    S.get_or_init(|| {
        let mut v: Vec<String> = (0..grid_count(2)).map(grid_pattern).collect();
        for s in [
            "aaa", "aéa", "éaé", "ééé", "aaé", "éaa", "a\na", "\n", "a\n", "\né", "A", "É", "aA", "Éa", "AÉ", "😀", "a😀", "😀é", "中a", "aé%", "%aé", "a_é", "é\\a", "a\\\\", "aaaa", "aéaé", "éaéa",
            "aaaaa", "ééééé", "aé\\%_", "aaaaaaaaaaaa", "aaaaaaaaaaaaa", "éééééé", "ééééééa", "aéééééé", "aéaéaéaéaéaéa", "%%%", "___", "a%a", "é_é", "e\u{301}", "e\u{301}a", "aaaaaa%aaaaaaé", "é%aaaaaaaaaaa_",
        ] {
            if !v.iter().any(|x| x == s) {
                v.push(s.to_string());
            }
        }
        v
    })
}

fn sub_like_grid(c: &mut Case) -> CaseResult {
    let _ = c.tape.u64(); // the index bytes
    let idx = c.index;
    let v = idx % GRID_VARIANTS;
    let pidx = idx / GRID_VARIANTS;
    let pattern = grid_pattern(pidx);
    let seed = c.tape.u64();
    let mut t = expand_tape(seed, 12000);
    let strings = grid_strings();
    let n = strings.len();
    let mut hay: Vec<Option<String>> = strings.iter().cloned().map(Some).collect();
    if v % 2 == 1 {
        hay[(pidx as usize) % n] = None;
        hay[(pidx as usize * 7 + 3) % n] = None;
    }
    c.class(shape(&pattern));
    for s in extra_shapes(&pattern) {
        c.class(s);
    }
    c.describe(json!({"pattern": pattern, "variant": v, "strings": n}));
    if pattern_nontrivial(&pattern) {
        c.nontrivial();
    }
    let pat1 = vec![Some(pattern.clone())];
    let patn: Vec<Option<String>> = vec![Some(pattern.clone()); n];
    let dict_key = KEYS[((pidx + v) % 8) as usize];
    let reps = [Rep::plain(Enc::O32), Rep::plain(Enc::O64), Rep::plain(Enc::View), Rep { enc: ENCS[((pidx + v) % 3) as usize], dict: Some(dict_key) }];
    for (ri, rep) in reps.iter().enumerate() {
        let l = mk(&mut t, &rep.ty(false), &sv(&hay))?;
        // scalar pattern: plain, or dictionary-encoded for variants 2,3
        let srep = if v >= 2 { Rep { enc: rep.enc, dict: Some(KEYS[((pidx + 3) % 8) as usize]) } } else { Rep::plain(rep.enc) };
        let ps = mk(&mut t, &srep.ty(false), &sv(&pat1))?;
        like_all_ops(c, Mode::ArrScalar, &l, &ps, &hay, &pat1, rep, &srep, &LIKE_OPS)?;
        // array pattern
        let arep = if (v + ri as u64) % 2 == 1 { Rep { enc: rep.enc, dict: Some(KEYS[((pidx + 5) % 8) as usize]) } } else { Rep::plain(rep.enc) };
        let pa = mk(&mut t, &arep.ty(false), &sv(&patn))?;
        like_all_ops(c, Mode::ArrArr, &l, &pa, &hay, &patn, rep, &arep, &LIKE_OPS)?;
        c.class(rep.class());
    }
    // ASCII-only haystack array: the ILIKE fast paths require both sides ASCII
    if pattern.is_ascii() {
        let hay_a: Vec<Option<String>> = hay.iter().filter(|h| h.as_ref().map(|s| s.is_ascii()).unwrap_or(true)).cloned().collect();
        let enc = ENCS[((pidx + v) % 3) as usize];
        let rep = if v % 2 == 0 { Rep::plain(enc) } else { Rep { enc, dict: Some(dict_key) } };
        let lay_plain = v == 3; // a dictionary whose values are exactly the ASCII strings (no generated extra entries)
        let l = if lay_plain { no_panic("realise", || realise(&mut t, &rep.ty(false), &sv(&hay_a), true, &Lay::plain()))? } else { mk(&mut t, &rep.ty(false), &sv(&hay_a))? };
        let ps = mk(&mut t, &Rep::plain(enc).ty(false), &sv(&pat1))?;
        like_all_ops(c, Mode::ArrScalar, &l, &ps, &hay_a, &pat1, &rep, &Rep::plain(enc), &LIKE_OPS)?;
        c.class("ascii-haystack-array");
    }
    // scalar haystack against an array of patterns
    let k = ((pidx + v) as usize) % n;
    let h1 = vec![hay[k].clone()];
    let pat3: Vec<Option<String>> = vec![Some(pattern.clone()), if v == 1 { None } else { Some(pattern.clone()) }, Some(pattern.clone())];
    let enc = ENCS[(v % 3) as usize];
    let ls = mk(&mut t, &Rep::plain(enc).ty(false), &sv(&h1))?;
    let pa = mk(&mut t, &Rep::plain(enc).ty(false), &sv(&pat3))?;
    like_all_ops(c, Mode::ScalarArr, &ls, &pa, &h1, &pat3, &Rep::plain(enc), &Rep::plain(enc), &LIKE_OPS)?;
    Ok(())
}

// ------------------------------------------------------------------------------------------------ like_random
fn sub_like_random(c: &mut Case) -> CaseResult {
    let mode = match c.tape.below(20) {
        0..=8 => Mode::ArrScalar,
        9..=15 => Mode::ArrArr,
        16..=18 => Mode::ScalarArr,
        _ => Mode::ScalarScalar,
    };
    let prof = gen_prof(&mut c.tape);
    let n = gen_rows(&mut c.tape);
    let t = &mut c.tape;
    let nh = if matches!(mode, Mode::ScalarArr | Mode::ScalarScalar) { 1 } else { n };
    let hnull = gen_null_chance(t);
    let hay = gen_strcol(t, nh, prof, hnull, true);
    let np = if matches!(mode, Mode::ArrScalar | Mode::ScalarScalar) { 1 } else { n };
    // patterns: a small pool (the array kernel caches the previous pattern), runs and nulls
    // patterns keep the haystack's alphabet (an ASCII haystack with an ASCII pattern takes the ASCII fast path)
    let pool: Vec<String> = (0..1 + t.below(4)).map(|_| gen_pattern(t, &hay, prof)).collect();
    let pnull = if np == 1 { *t.pick(&[0u32, 0, 0, 30]) } else { gen_null_chance(t) };
    let mut pat: Vec<Option<String>> = vec![];
    for i in 0..np {
        if pnull > 0 && t.chance(pnull) {
            pat.push(None);
        } else if i > 0 && t.chance(100) {
            let p = pat[i - 1].clone();
            pat.push(p);
        } else {
            pat.push(Some(t.pick(&pool).clone()));
        }
    }
    let mut nt = false;
    for p in pat.iter().flatten() {
        c.class(shape(p));
        for s in extra_shapes(p) {
            c.class(s);
        }
        if pattern_nontrivial(p) && hay.iter().flatten().any(|h| has_multibyte(h)) {
            nt = true;
        }
    }
    if nt {
        c.nontrivial();
    }
    c.class(mode.name());
    c.class(prof.name());
    if hay.iter().flatten().any(|h| h.len() > 12) {
        c.class("haystack>12-bytes");
    }
    if hay.iter().flatten().any(|h| h.chars().count() > 40) {
        c.class("haystack-long");
    }
    if hay.iter().any(|h| h.is_none()) || pat.iter().any(|p| p.is_none()) {
        c.class("has-null");
    }
    c.describe(json!({"mode": mode.name(), "hay": show_col(&hay), "pat": show_col(&pat)}));
    // primary representation + every other base encoding (cross-representation identity through the oracle)
    let e0 = c.tape.below(3);
    let mut matched_true = false;
    for k in 0..3 {
        let enc = ENCS[(e0 + k) % 3];
        let dict_chance = if k == 0 { 100 } else { 60 };
        let lrep = gen_rep(&mut c.tape, enc, dict_chance);
        let rrep = gen_rep(&mut c.tape, enc, dict_chance);
        let l = mk(&mut c.tape, &lrep.ty(false), &sv(&hay))?;
        let rr = mk(&mut c.tape, &rrep.ty(false), &sv(&pat))?;
        // (fixed finding like-empty-dictionary-values: dictionaries without values are compared like every other operand)
        c.class(lrep.class());
        if mode == Mode::ArrScalar {
            let lv = l.as_any_dictionary_opt().map(|d| d.values().clone()).unwrap_or(l.clone());
            let ascii = match lv.data_type() {
                DataType::Utf8 => lv.as_string::<i32>().is_ascii(),
                DataType::LargeUtf8 => lv.as_string::<i64>().is_ascii(),
                _ => lv.as_string_view().is_ascii(),
            };
            if ascii && pat[0].as_ref().map(|p| p.is_ascii() && shape(p) != "shape:regex").unwrap_or(false) && !hay.is_empty() {
                c.class("ilike-ascii-fast-path");
            }
        }
        like_all_ops(c, mode, &l, &rr, &hay, &pat, &lrep, &rrep, &LIKE_OPS)?;
        if k == 0 {
            let nn = match mode {
                Mode::ArrScalar | Mode::ArrArr => hay.len(),
                Mode::ScalarArr => pat.len(),
                Mode::ScalarScalar => 1,
            };
            for i in 0..nn {
                let h = if matches!(mode, Mode::ScalarArr | Mode::ScalarScalar) { &hay[0] } else { &hay[i] };
                let p = if matches!(mode, Mode::ArrScalar | Mode::ScalarScalar) { &pat[0] } else { &pat[i] };
                if expect_like(LikeOp::Like, h.as_deref(), p.as_deref()) == Some(true) {
                    matched_true = true;
                }
            }
        }
    }
    if matched_true {
        c.class("some-row-matches");
    }
    Ok(())
}

/// Reproduction sub-check: a dictionary-encoded operand whose values array is empty (possible only when every row is
/// null or the array is empty) — the array∘array path calls `normalized_keys()` which asserts `values.len() != 0`.
fn sub_like_empty_dictionary(c: &mut Case) -> CaseResult {
    let n = c.tape.below(4);
    let enc = *c.tape.pick(&ENCS);
    let key = *c.tape.pick(&KEYS);
    let rep = Rep { enc, dict: Some(key) };
    let hay: Vec<Option<String>> = vec![None; n];
    let pat: Vec<Option<String>> = (0..n).map(|_| Some("a%".to_string())).collect();
    let l = no_panic("realise", || realise(&mut c.tape, &rep.ty(false), &sv(&hay), true, &Lay::plain()))?;
    let rr = no_panic("realise", || realise(&mut c.tape, &Rep::plain(enc).ty(false), &sv(&pat), true, &Lay::plain()))?;
    c.describe(json!({"rows": n, "left": rep.name()}));
    c.class(if n == 0 { "empty-array" } else { "all-null" });
    if n > 0 {
        c.nontrivial();
    }
    let unify = |f: Fail| Fail::new("like:empty-dictionary-values", f.msg);
    like_all_ops(c, Mode::ArrArr, &l, &rr, &hay, &pat, &rep, &Rep::plain(enc), &LIKE_OPS).map_err(unify)?;
    like_all_ops(c, Mode::ArrArr, &rr, &l, &pat, &hay, &Rep::plain(enc), &rep, &LIKE_OPS).map_err(unify)?;
    Ok(())
}

fn main() {
    // the two reproduction sub-checks generate nothing in a normal run (they exist for the known-finding replays);
    // C20_FINDING_SEARCH=1 makes them search, which is how the repro tapes were obtained
    let fs: u64 = if std::env::var("C20_FINDING_SEARCH").is_ok() { 1 } else { 0 };
    let gq = grid_count(4) * GRID_VARIANTS;
    let gt = grid_count(5) * GRID_VARIANTS;
    let _ = (contains, ends_with, eq_ignore_ascii_case, starts_with, extract);
    Check::new(
        "C20",
        "exploration",
        "cases = (logical string column(s), pattern/needle/regex/start+length, operand kinds array|scalar, physical representations Utf8/LargeUtf8/Utf8View/Dictionary with layout variation); \
         non-trivial = a LIKE pattern with a wildcard adjacent to a multi-byte character or an escape matched against a string containing a multi-byte character, or a substring cut adjacent to a multi-byte character; \
         distinct = distinct consumed entropy tape",
    )
    .assume("ILIKE case-equivalence of two characters is whatever the regex crate's (?i) says for `^c1$` against c2 (simple case folding; the property's own definition)")
    .assume("`\\x` in a LIKE pattern denotes the literal x for every x; a trailing backslash is a literal backslash (documented in predicate.rs)")
    .assume("regexp kernels are compared with regex::RegexBuilder applied row by row; regexp_match rows with a non-participating capture group are not compared (undocumented); null flags are not generated")
    .assume("byte substring of a dictionary may fail because of an unreferenced dictionary value whose cut is not on a char boundary (accepted either way)")
    .sub(Sub::new("like_grid", 0, 0, sub_like_grid).enumerate(gq, gt).require(&["shape:eq", "shape:prefix", "shape:suffix", "shape:contains", "shape:regex", "trailing-backslash", "escaped-pct-end", "only-wildcards", "ascii-haystack-array"]))
    .sub(
        Sub::new("like_random", 40000, 600000, sub_like_random)
            .tape(512, 6000)
            .require(&["shape:eq", "shape:prefix", "shape:suffix", "shape:contains", "shape:regex", "trailing-backslash", "escaped-pct-end", "array-scalar", "array-array", "scalar-array", "scalar-scalar", "rep:dictionary", "rep:view", "haystack>12-bytes", "ilike-ascii-fast-path", "some-row-matches", "has-null"]),
    )
    .sub(Sub::new("like_empty_dictionary", 64 * fs, 64 * fs, sub_like_empty_dictionary).tape(8, 64))
    .sub(Sub::new("predicates", 24000, 400000, more::sub_predicates).tape(512, 5000).require(&["binary", "string", "rep:view", "rep:dictionary", "needle>4-bytes", "needle>12-bytes", "some-row-matches"]))
    .sub(Sub::new("regexp", 20000, 300000, more::sub_regexp).tape(512, 5000).require(&["is_match", "is_match_scalar", "regexp_match", "with-flags", "invalid-regex", "some-row-matches"]))
    .sub(Sub::new("substring", 24000, 400000, more2::sub_substring).tape(512, 5000).require(&["bytes:utf8", "bytes:binary", "bytes:fixed", "bytes:dictionary", "by-char", "negative-start", "char-boundary-error", "ok"]))
    .sub(Sub::new("substring_large_args", 2000 * fs, 2000 * fs, more2::sub_substring_extreme).tape(512, 5000))
    .sub(Sub::new("length", 8000, 150000, more2::sub_length).tape(512, 6000).require(&["length", "bit_length", "value>255-bytes", "type:view", "type:dictionary", "type:runend", "type:listview", "type:map"]))
    .sub(Sub::new("concat", 12000, 200000, more2::sub_concat).tape(512, 5000).require(&["utf8", "binary", "many", "view", "fixed", "dyn"]))
    .run()
}
