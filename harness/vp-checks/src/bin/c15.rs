//! C15 — Parquet sync, async and push readers agree under any I/O schedule.
use serde_json::json;
use vp_engine::runner::*;

#[path = "../pq_read.rs"]
mod pq_read;
use pq_read::*;

fn agree_case(c: &mut Case, nconfigs: usize) -> CaseResult {
    let f = gen_file(c)?;
    f.file_classes(c);
    let opts = CfgOpts { sel: 170, preds: 160, offlim: 80, with_cache: true };
    let mut nonempty = 0;
    for k in 0..nconfigs {
        let cfg = gen_cfg(&mut c.tape, &f, &opts);
        cfg.classes(&f, c);
        let eff = cfg.eff_batch(&f);
        // two async schedules (Stream::poll_next and next_row_group) and two push schedules (try_decode, try_next_reader)
        let mut a1 = gen_async_sched(&mut c.tape);
        a1.by_row_group = false;
        let mut a2 = gen_async_sched(&mut c.tape);
        a2.by_row_group = true;
        let mut p1 = gen_push_sched(&mut c.tape);
        p1.by_reader = false;
        let mut p2 = gen_push_sched(&mut c.tape);
        p2.by_reader = true;
        c.describe(json!({"file": f.desc, "config_index": k, "config": cfg.describe(),
            "async": [format!("{:?}", a1), format!("{:?}", a2)], "push": [format!("{:?}", p1), format!("{:?}", p2)]}));
        let sync = run_sync(&f, &cfg, c.tape.bool())?;
        match &sync {
            Ok(o) => {
                if o.nrows == 0 {
                    c.class("result:empty");
                } else {
                    nonempty += 1;
                }
            }
            Err(_) => c.class("sync:err"),
        }
        let mut pendings = 0;
        for a in [&a1, &a2] {
            let (res, st) = run_async(&f, &cfg, a)?;
            check_same(if a.by_row_group { "async-rg" } else { "async" }, &res, &sync, eff)?;
            pendings += st.io_pendings;
            c.evals(1);
            if st.io_pendings > 0 {
                c.class("async:pending");
            } else {
                c.class("async:always-ready");
            }
            c.class(if a.vectored { "async:vectored" } else { "async:per-range" });
            c.class(if a.premeta { "async:metadata-supplied" } else { "async:metadata-fetched" });
            if st.requests == 0 {
                c.class("async:no-data-request");
            }
        }
        let mut adversarial_push = false;
        for p in [&p1, &p2] {
            let (res, st) = run_push(&mut c.tape, &f, &cfg, p)?;
            check_same(if p.by_reader { "push-reader" } else { "push" }, &res, &sync, eff)?;
            c.evals(1);
            if st.supersets > 0 {
                c.class("push:superset");
            }
            if st.reordered > 0 {
                c.class("push:reordered");
            }
            if st.dups > 0 {
                c.class("push:duplicate");
            }
            if st.rebuilds > 0 {
                c.class("push:into_builder");
            }
            if st.extra > 0 {
                c.class("push:unrequested-early");
            }
            if p.whole_file != 0 {
                c.class("push:whole-file-up-front");
                if st.rounds > 0 {
                    c.class("push:whole-file-but-still-asked");
                }
            }
            if p.deliver == Deliver::Partial && st.rounds > 0 {
                c.class("push:partial-delivery");
            }
            if p.deliver == Deliver::OnePerCall && st.rounds > 0 {
                c.class("push:one-per-call");
            }
            if st.no_request_at_all && p.whole_file == 0 {
                c.class("push:no-data-request");
            }
            if p.hold_readers && p.by_reader {
                c.class("push:readers-drained-late");
            }
            adversarial_push |= st.supersets > 0 || st.reordered > 0;
        }
        if cfg.rgs(&f).len() >= 2 && (!cfg.preds.is_empty() || cfg.sel.is_some()) && pendings > 0 && adversarial_push {
            c.nontrivial();
            c.class("nontrivial-config");
        }
    }
    c.class(format!("configs-with-rows:{}/4", nonempty * 4 / nconfigs.max(1)));
    Ok(())
}

fn sub_agree(c: &mut Case) -> CaseResult {
    let n = if c.tier == Tier::Quick { 6 } else { 12 };
    agree_case(c, n)
}

fn main() {
    Check::new(
        "C15",
        "exploration",
        "case = (generated Parquet file, 6/12 read configurations x 4 I/O schedules: async poll_next, async next_row_group, push try_decode, push try_next_reader); non-trivial = configuration reading >=2 row groups with a predicate or selection whose async schedule had >=1 Pending and whose push schedule had >=1 reordered or superset delivery",
    )
    .assume("every requested range is delivered inside one supplied buffer (documented non-coalescing PushBuffers) and eventually; async futures are polled to completion (no cancellation); I/O errors belong to C18")
    .assume("reference = synchronous ParquetRecordBatchReader with the same options (its agreement with post-filtering a full read is C06)")
    .assume("into_builder() is only followed by build() with unchanged options; clear_all_ranges is never called")
    .assume("no-progress rule: a range in NeedsData that is covered by a buffer supplied since the immediately preceding NeedsData is a violation; request rounds are bounded by row groups x (predicates+1) + 2")
    .sub(
        Sub::new("agree", 10000, 100000, sub_agree).tape(1500, 8000).require(&[
            "async:pending",
            "async:always-ready",
            "async:vectored",
            "async:per-range",
            "async:metadata-fetched",
            "push:superset",
            "push:reordered",
            "push:duplicate",
            "push:into_builder",
            "push:unrequested-early",
            "push:whole-file-up-front",
            "push:partial-delivery",
            "push:no-data-request",
            "pred:cols-subset-of-output",
            "nontrivial-config",
        ]),
    )
    .run()
}
