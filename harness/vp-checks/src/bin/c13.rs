//! C13 — casts preserve representable values; strict/safe modes agree; text round-trips.
//!
//! Sub-checks
//!  1. `census`, `matrix`  support matrix over a finite type grid T x T (every ordered pair, several columns per pair)
//!  2. `duality_exhaustive`, `duality`  strict/safe duality against exact reference conversions (bigint arithmetic)
//!  3. `inverse`           a lossless cast followed by its inverse is the identity
//!  4. `text`              format (cast to Utf8 = ArrayFormatter) then parse (cast back) is the identity;
//!     `text_cross`        the text of a number parsed as another numeric type agrees with the reference conversion
//!  5. `datatype`          DataType Display -> FromStr identity
//!  `datatype_known_shapes`, `cast_known_shapes`: reproductions of the defects the generators avoid by construction
//!  (F5, F5b, C13f7..C13f22, see notes/c13_proposed_known_findings.json); they have no generated cases and run through the known-findings replay only.
use arrow_array::cast::AsArray;
use arrow_array::{Array, ArrayRef};
use arrow_cast::display::{ArrayFormatter, FormatOptions};
use arrow_cast::{can_cast_types, cast_with_options, CastOptions};
use arrow_schema::{ArrowError, DataType, Field, Fields, UnionFields};
use num_bigint::BigInt;
use serde_json::json;
use std::sync::Arc;
use vp_engine::extract::extract;
use vp_engine::model::*;
use vp_engine::r#gen::*;
use vp_engine::realise::*;
use vp_engine::runner::*;
use vp_engine::tape::Tape;
use vp_engine::validate::check_valid;
use vp_engine::{ensure, fail};

// =====================================================================================================
// small helpers

fn int(bits: u8, signed: bool) -> LType {
    LType::Int { bits, signed }
}
fn dec(width: u16, p: u8, s: i8) -> LType {
    LType::Decimal { width, p, s }
}
fn ts(u: Unit, tz: Option<&str>) -> LType {
    LType::Timestamp(u, tz.map(|s| s.to_string()))
}
fn lf(name: &str, ty: LType, nullable: bool) -> Box<LField> {
    Box::new(LField::new(name, ty, nullable))
}
fn dict(kbits: u8, ksigned: bool, v: LType) -> LType {
    LType::Dict { kbits, ksigned, value: Box::new(v) }
}
fn ree(rbits: u8, v: LType) -> LType {
    LType::Ree { rbits, value: lf("values", v, true) }
}
fn list(enc: ListEnc, item: LType) -> LType {
    LType::List(lf("item", item, true), enc)
}

fn opts(safe: bool) -> CastOptions<'static> {
    CastOptions { safe, format_options: FormatOptions::default() }
}

fn do_cast(what: &str, a: &dyn Array, to: &DataType, safe: bool) -> Result<Result<ArrayRef, ArrowError>, Fail> {
    no_panic(what, || cast_with_options(a, to, &opts(safe)))
}

/// equality of logical values with every NaN equal to every NaN of the same width
fn lv_eq(a: &LValue, b: &LValue) -> bool {
    use LValue::*;
    match (a, b) {
        (F16(x), F16(y)) => x == y || (half::f16::from_bits(*x).is_nan() && half::f16::from_bits(*y).is_nan()),
        (F32(x), F32(y)) => x == y || (f32::from_bits(*x).is_nan() && f32::from_bits(*y).is_nan()),
        (F64(x), F64(y)) => x == y || (f64::from_bits(*x).is_nan() && f64::from_bits(*y).is_nan()),
        (List(x), List(y)) | (Struct(x), Struct(y)) => x.len() == y.len() && x.iter().zip(y).all(|(p, q)| lv_eq(p, q)),
        (Map(x), Map(y)) => x.len() == y.len() && x.iter().zip(y).all(|(p, q)| lv_eq(&p.0, &q.0) && lv_eq(&p.1, &q.1)),
        (Union(i, x), Union(j, y)) => i == j && lv_eq(x, y),
        _ => a == b,
    }
}
fn first_diff_nan(a: &[LValue], b: &[LValue]) -> Option<usize> {
    if a.len() != b.len() {
        return Some(a.len().min(b.len()));
    }
    (0..a.len()).find(|i| !lv_eq(&a[*i], &b[*i]))
}

/// Decimal256 values may be modelled as `Int` or `Big`; normalise to what `extract` returns
fn norm(ty: &LType, v: LValue) -> LValue {
    match (ty, v) {
        (LType::Decimal { width: 256, .. }, LValue::Int(i)) => LValue::Big(big_from_i128(i)),
        (_, v) => v,
    }
}

fn to_big(v: &LValue) -> BigInt {
    match v {
        LValue::Int(i) => BigInt::from(*i),
        LValue::Big(b) => BigInt::from_signed_bytes_le(b),
        LValue::Bool(b) => BigInt::from(*b as u8),
        _ => BigInt::from(0),
    }
}
fn from_big(ty: &LType, b: &BigInt) -> LValue {
    if matches!(ty, LType::Decimal { width: 256, .. }) {
        let bytes = b.to_signed_bytes_le();
        let mut out = if b.sign() == num_bigint::Sign::Minus { [0xffu8; 32] } else { [0u8; 32] };
        for (i, x) in bytes.iter().enumerate().take(32) {
            out[i] = *x;
        }
        LValue::Big(out)
    } else {
        let digits = b.to_signed_bytes_le();
        let mut buf = if b.sign() == num_bigint::Sign::Minus { [0xffu8; 16] } else { [0u8; 16] };
        for (i, x) in digits.iter().enumerate().take(16) {
            buf[i] = *x;
        }
        LValue::Int(i128::from_le_bytes(buf))
    }
}
fn pow10(n: u32) -> BigInt {
    BigInt::from(10u8).pow(n)
}
fn big_abs(b: &BigInt) -> BigInt {
    if b.sign() == num_bigint::Sign::Minus { -b.clone() } else { b.clone() }
}
/// truncating division
fn div_trunc(a: &BigInt, b: &BigInt) -> BigInt {
    a / b // num-bigint `/` truncates toward zero like Rust integers
}
/// division rounding half away from zero (b > 0)
fn div_round_half_away(a: &BigInt, b: &BigInt) -> BigInt {
    let q = a / b;
    let r = a % b; // sign of a
    let twice = big_abs(&r) * 2;
    if twice >= *b {
        if a.sign() == num_bigint::Sign::Minus { q - 1 } else { q + 1 }
    } else {
        q
    }
}
fn div_floor(a: &BigInt, b: &BigInt) -> BigInt {
    let q = a / b;
    let r = a % b;
    if r.sign() == num_bigint::Sign::Minus { q - 1 } else { q }
}

fn max_precision(width: u16) -> u8 {
    match width {
        32 => 9,
        64 => 18,
        128 => 38,
        _ => 76,
    }
}

fn tz_offset_secs(tz: &str) -> i64 {
    match tz {
        "+05:30" => 19_800,
        "-08:00" => -28_800,
        _ => 0, // "UTC", "+00:00"
    }
}

/// value range of the integer-backed types
fn backing_range(ty: &LType) -> Option<(BigInt, BigInt)> {
    let (bits, signed) = match ty {
        LType::Int { bits, signed } => (*bits, *signed),
        LType::Date32 | LType::Time32(_) | LType::IntervalYM => (32, true),
        LType::Date64 | LType::Time64(_) | LType::Timestamp(..) | LType::Duration(_) => (64, true),
        _ => return None,
    };
    let (lo, hi) = int_range(bits, signed);
    Some((BigInt::from(lo), BigInt::from(hi)))
}
fn in_range(x: &BigInt, ty: &LType) -> bool {
    match backing_range(ty) {
        Some((lo, hi)) => *x >= lo && *x <= hi,
        None => false,
    }
}

// =====================================================================================================
// the type grid

fn grid() -> Vec<LType> {
    use LType::*;
    let mut g: Vec<LType> = vec![Null, Bool];
    for bits in [8u8, 16, 32, 64] {
        g.push(int(bits, true));
        g.push(int(bits, false));
    }
    g.extend([F16, F32, F64]);
    g.extend([
        dec(32, 9, 0),
        dec(32, 5, 2),
        dec(64, 18, 0),
        dec(64, 10, 3),
        dec(64, 18, 18),
        dec(128, 38, 0),
        dec(128, 10, 2),
        dec(128, 38, 38),
        dec(128, 5, -2),
        dec(256, 76, 0),
        dec(256, 40, 10),
        dec(256, 20, -3),
    ]);
    g.extend([Date32, Date64, Time32(Unit::S), Time32(Unit::Ms), Time64(Unit::Us), Time64(Unit::Ns)]);
    for u in [Unit::S, Unit::Ms, Unit::Us, Unit::Ns] {
        g.push(ts(u.clone(), None));
    }
    g.extend([ts(Unit::S, Some("UTC")), ts(Unit::Ms, Some("+05:30")), ts(Unit::Us, Some("-08:00")), ts(Unit::Ns, Some("UTC")), ts(Unit::Ns, Some("+05:30"))]);
    for u in [Unit::S, Unit::Ms, Unit::Us, Unit::Ns] {
        g.push(Duration(u));
    }
    g.extend([IntervalYM, IntervalDT, IntervalMDN]);
    g.extend([Utf8(Enc::O32), Utf8(Enc::O64), Utf8(Enc::View), Binary(Enc::O32), Binary(Enc::O64), Binary(Enc::View), FixedBinary(4), FixedBinary(1)]);
    g.extend([
        dict(8, true, Utf8(Enc::O32)),
        dict(32, true, Utf8(Enc::O32)),
        dict(8, false, int(32, true)),
        dict(16, false, int(64, true)),
        dict(16, true, dec(128, 10, 2)),
        dict(32, true, ts(Unit::Ms, None)),
        dict(64, true, F64),
        dict(32, false, Binary(Enc::O32)),
    ]);
    g.extend([ree(16, int(32, true)), ree(32, Utf8(Enc::O32)), ree(64, F64), ree(32, dec(128, 10, 2))]);
    g.extend([
        list(ListEnc::O32, int(32, true)),
        list(ListEnc::O32, Utf8(Enc::O32)),
        list(ListEnc::O64, int(64, true)),
        list(ListEnc::V32, int(32, true)),
        list(ListEnc::V64, Utf8(Enc::O32)),
        List(lf("item", int(32, true), false), ListEnc::O32),
        list(ListEnc::O32, list(ListEnc::O32, int(32, true))),
        FixedList(lf("item", int(32, true), true), 1),
        FixedList(lf("item", int(32, true), true), 3),
        FixedList(lf("item", Utf8(Enc::O32), true), 1),
    ]);
    g.extend([
        Struct(vec![*lf("a", int(32, true), true), *lf("b", Utf8(Enc::O32), true)]),
        Struct(vec![*lf("b", Utf8(Enc::O64), true), *lf("a", int(64, true), true)]),
        Struct(vec![*lf("x", F64, true)]),
        Map { key: lf("key", Utf8(Enc::O32), false), val: lf("value", int(32, true), true), sorted: false },
        Map { key: lf("key", int(32, true), false), val: lf("value", Utf8(Enc::O32), true), sorted: false },
        Union { dense: false, fields: vec![(0, *lf("a", int(32, true), true)), (1, *lf("b", Utf8(Enc::O32), true))] },
        Union { dense: true, fields: vec![(0, *lf("a", int(32, true), true)), (3, *lf("b", Utf8(Enc::O32), true))] },
    ]);
    g
}

fn unsupported_style(msg: &str) -> bool {
    let m = msg.to_ascii_lowercase();
    m.contains("not supported") || m.contains("unsupported") || m.contains("not implemented") || m.contains("cannot cast list to non-list")
}

// =====================================================================================================
// 1. support matrix

fn is_struct_nullability_error(msg: &str) -> bool {
    // documented in can_cast_types: "Assume that nullability between two structs are compatible, if not, cast kernel will return error"
    let m = msg.to_ascii_lowercase();
    m.contains("non-nullable") || m.contains("not nullable") || m.contains("contains null") || m.contains("contain null")
}

/// leaf type after stripping list / dictionary / run-end wrappers (where a cast to the wrapper routes the values)
fn routed_leaf(t: &LType) -> &LType {
    match t {
        LType::List(f, _) => routed_leaf(&f.ty),
        LType::FixedList(f, 1) => routed_leaf(&f.ty),
        LType::Dict { value, .. } => routed_leaf(value),
        LType::Ree { value, .. } => routed_leaf(&value.ty),
        t => t,
    }
}

/// type pairs that are rejected as a whole although `can_cast_types` accepts them (reported defects)
fn matrix_known_pair(a: &LType, b: &LType) -> Option<&'static str> {
    use LType::*;
    match (routed_leaf(a), routed_leaf(b)) {
        (IntervalYM | IntervalDT, Int { bits: 64, signed: true }) if matches!(a, IntervalYM | IntervalDT) => Some("C13f13-interval-to-int64-unsupported"),
        (Utf8(_), Decimal { s, .. }) if *s < 0 => Some("C13f14-utf8-to-negative-scale-decimal-rejected"),
        _ => match (a, b) {
            (FixedList(..), List(f, _)) if !f.nullable => Some("C13f11-fixedsizelist-to-nonnull-list-invalid-output"),
            _ => None,
        },
    }
}

/// storage that no valid row refers to (child slots under null parents or outside the offsets, unused dictionary
/// values, bytes outside the offset range) exists only for these types
fn has_unreferenced_storage(t: &LType) -> bool {
    t.any(&|x| matches!(x, LType::List(..) | LType::FixedList(..) | LType::Struct(_) | LType::Map { .. } | LType::Union { .. } | LType::Dict { .. } | LType::Ree { .. } | LType::Binary(_)))
}
fn is_listlike(t: &LType) -> bool {
    matches!(t, LType::List(..) | LType::FixedList(..))
}
/// number of ordered grid pairs accepted by `can_cast_types` on the reviewed tree: support must not shrink silently
/// (a pair that is dropped from `can_cast_types` would otherwise just move to the "uncastable" class)
const CASTABLE_PAIRS: usize = 3840;

fn sub_census(c: &mut Case) -> CaseResult {
    let g = grid();
    let mut n = 0usize;
    for a in &g {
        for b in &g {
            if can_cast_types(&a.arrow(), &b.arrow()) {
                n += 1;
            }
        }
    }
    c.describe(json!({"grid": g.len(), "castable_pairs": n}));
    c.evals((g.len() * g.len()) as u64);
    c.nontrivial();
    ensure!(n >= CASTABLE_PAIRS, "matrix:castable-census", "can_cast_types accepts {} ordered pairs of the grid, {} when the grid was reviewed", n, CASTABLE_PAIRS);
    Ok(())
}

fn sub_matrix(c: &mut Case) -> CaseResult {
    let g = grid();
    let n = g.len();
    let _ = c.tape.bytes(8);
    let idx = c.index as usize % (n * n);
    let (ta, tb) = (&g[idx / n], &g[idx % n]);
    let (da, db) = (ta.arrow(), tb.arrow());
    let can = no_panic("can_cast_types", || can_cast_types(&da, &db))?;
    c.class(format!("from:{}", ta.family()));
    c.class(format!("to:{}", tb.family()));
    // the four input columns
    let mut cols: Vec<(&'static str, Vec<LValue>)> = vec![("empty", vec![])];
    if !matches!(ta, LType::Union { .. }) {
        cols.push(("all-null", vec![LValue::Null; 3]));
    }
    let len = 1 + c.tape.below(24);
    cols.push(("random", gen_column(&mut c.tape, ta, true, len, &ValCfg::default())));
    let wide = ValCfg { sane_temporal: false, ..ValCfg::default() };
    let len = 1 + c.tape.below(16);
    cols.push(("wide", gen_column(&mut c.tape, ta, true, len, &wide)));
    c.describe(json!({"from": da.to_string(), "to": db.to_string(), "can_cast": can,
        "random": short_vec(&cols[cols.len() - 2].1), "wide": short_vec(&cols[cols.len() - 1].1)}));
    if !can {
        c.class("uncastable");
        // must be rejected (or handled) cleanly: no panic; an Ok result must still be a valid array of type b
        for (_, col) in cols.iter().take(3) {
            let arr = realise(&mut c.tape, ta, col, true, &Lay::fancy());
            for safe in [true, false] {
                if let Ok(out) = do_cast("cast(uncastable)", arr.as_ref(), &db, safe)? {
                    ensure!(out.data_type() == &db, "matrix:uncastable-ok-type", "cast {} -> {} (can_cast_types=false) returned type {}", da, db, out.data_type());
                    check_valid(out.as_ref(), "cast(uncastable)")?;
                }
                c.evals(1);
            }
        }
        return Ok(());
    }
    c.class("castable");
    if ta != tb {
        c.class("castable:a!=b");
    }
    // ---- known defect shapes are avoided by construction (disabled when replaying)
    let mut lay_safe = Lay::fancy();
    let mut lay_strict = Lay::fancy();
    let mut zero_payload = false;
    if !c.strict {
        if let Some(key) = matrix_known_pair(ta, tb) {
            c.exclude(key);
            c.class("excluded-known-pair");
            return Ok(());
        }
        if ta != tb && has_unreferenced_storage(ta) {
            c.exclude("C13f9-strict-cast-converts-unreferenced-storage");
            lay_strict = Lay::plain();
        }
        if ta != tb && ta.any(&|x| is_dec(x)) && tb.any(&|x| is_dec(x)) {
            c.exclude("C13f10-decimal-rescale-panics-on-null-slot-payload");
            if is_dec(ta) {
                zero_payload = true;
            } else {
                lay_safe = Lay::plain();
                lay_strict = Lay::plain();
            }
        }
        if is_listlike(ta) && matches!(tb, LType::FixedList(..)) && ta != tb {
            c.exclude("C13f12-list-to-fixedsizelist-ignores-offsets");
            lay_safe = Lay::plain();
            lay_strict = Lay::plain();
        }
        if matches!(ta, LType::FixedList(_, 1)) && !is_listlike(tb) {
            c.exclude("C13f15-fixedsizelist1-to-values-drops-list-nulls");
            lay_safe = Lay::plain();
            lay_strict = Lay::plain();
        }
    }
    let same_layout = lay_safe.fancy == lay_strict.fancy;
    let mut saw_value_err = false;
    let mut saw_added_null = false;
    let mut saw_ok_values = false;
    for (kind, col) in &cols {
        let arr_safe = no_panic("realise", || realise(&mut c.tape, ta, col, true, &lay_safe))?;
        let arr_safe = if zero_payload { zero_null_payload(&arr_safe) } else { arr_safe };
        let arr_strict = if same_layout { arr_safe.clone() } else { no_panic("realise", || realise(&mut c.tape, ta, col, true, &lay_strict))? };
        let mut outs: Vec<Option<Vec<LValue>>> = vec![];
        for safe in [true, false] {
            let arr = if safe { &arr_safe } else { &arr_strict };
            let res = do_cast("cast", arr.as_ref(), &db, safe)?;
            c.evals(1);
            match res {
                Err(e) => {
                    let msg = e.to_string();
                    ensure!(!unsupported_style(&msg), "matrix:unsupported-error", "can_cast_types({}, {}) is true but cast(safe={}) of a {} column fails as unsupported: {}", da, db, safe, kind, msg);
                    if *kind == "empty" || *kind == "all-null" {
                        // decimal upscaling by more digits than the target width holds is documented (rescale_decimal) to be
                        // treated as an overflow of every value; the kernel raises it before looking at the rows
                        if !is_struct_nullability_error(&msg) && !msg.contains("Value overflows for output scale") {
                            fail!("matrix:valueless-input-rejected", "can_cast_types({}, {}) is true but cast(safe={}) of an {} column (no value can be unrepresentable) fails: {}", da, db, safe, kind, msg);
                        }
                    }
                    saw_value_err = true;
                    outs.push(None);
                }
                Ok(out) => {
                    ensure!(out.data_type() == &db, "matrix:result-type", "cast {} -> {} (safe={}) returned type {}", da, db, safe, out.data_type());
                    ensure!(out.len() == col.len(), "matrix:result-len", "cast {} -> {} (safe={}) returned {} rows for {} input rows", da, db, safe, out.len(), col.len());
                    check_valid(out.as_ref(), "cast")?;
                    let got = no_panic("extract", || extract(out.as_ref()))?;
                    outs.push(Some(got));
                }
            }
        }
        if let (Some(s), Some(t)) = (&outs[0], &outs[1]) {
            if let Some(i) = first_diff_nan(s, t) {
                fail!("matrix:safe-strict-differ", "cast {} -> {}: both modes succeed but row {} differs: safe {:?} strict {:?} (input {:?})", da, db, i, s.get(i), t.get(i), col.get(i));
            }
            if s.iter().any(|v| !v.is_null()) {
                saw_ok_values = true;
            }
        }
        if let (Some(s), None) = (&outs[0], &outs[1]) {
            // strict failed: safe turned at least one valid row into null (top level; nested nulls are not counted)
            let in_nulls = col.iter().filter(|v| v.is_null()).count();
            let out_nulls = s.iter().filter(|v| v.is_null()).count();
            if out_nulls > in_nulls {
                saw_added_null = true;
            }
            if s.iter().any(|v| !v.is_null()) {
                saw_ok_values = true;
            }
        }
        if let (None, Some(_)) = (&outs[0], &outs[1]) {
            if same_layout {
                fail!("matrix:safe-err-strict-ok", "cast {} -> {} of a {} column: safe mode fails but strict mode succeeds", da, db, kind);
            }
        }
    }
    if saw_value_err {
        c.class("some-value-error");
    }
    if ta != tb && saw_added_null && saw_ok_values {
        c.nontrivial();
        c.class("both-sides-of-limit");
    } else if ta != tb && saw_ok_values && c.index % 7 == 0 {
        // keep a sample of plain value-preserving pairs in the non-trivial set as well
        c.nontrivial();
    }
    Ok(())
}

// =====================================================================================================
// 2. strict/safe duality against exact reference conversions

enum R {
    V(LValue),
    /// not representable in the target: null in safe mode, error in strict mode
    No,
}

fn f64_of(v: &LValue) -> Option<f64> {
    match v {
        LValue::F16(b) => Some(half::f16::from_bits(*b).to_f64()),
        LValue::F32(b) => Some(f32::from_bits(*b) as f64),
        LValue::F64(b) => Some(f64::from_bits(*b)),
        _ => None,
    }
}
fn is_float(t: &LType) -> bool {
    matches!(t, LType::F16 | LType::F32 | LType::F64)
}
fn is_int(t: &LType) -> bool {
    matches!(t, LType::Int { .. })
}
fn is_dec(t: &LType) -> bool {
    matches!(t, LType::Decimal { .. })
}
fn float_lv(t: &LType, f: f64) -> LValue {
    match t {
        LType::F16 => LValue::F16(half::f16::from_f64(f).to_bits()),
        LType::F32 => LValue::F32((f as f32).to_bits()),
        _ => LValue::F64(f.to_bits()),
    }
}
/// exact integer value of an integral finite f64
fn big_of_integral_f64(f: f64) -> BigInt {
    let bits = f.to_bits();
    let neg = bits >> 63 == 1;
    let exp = ((bits >> 52) & 0x7ff) as i64;
    let frac = bits & ((1u64 << 52) - 1);
    if exp == 0 {
        return BigInt::from(0); // subnormal or zero: integral means zero
    }
    let mant = BigInt::from(frac | (1u64 << 52));
    let e = exp - 1075;
    let v = if e >= 0 { mant << (e as usize) } else { mant >> ((-e) as usize) };
    if neg { -v } else { v }
}

/// Is (a, b) a pair whose exact reference conversion is known?
fn ref_supported(a: &LType, b: &LType) -> bool {
    use LType::*;
    match (a, b) {
        (Int { .. }, Int { .. }) => true,
        (Int { .. }, F16 | F32 | F64) => true,
        (F16 | F32 | F64, Int { .. }) => true,
        (F16, F32 | F64) | (F32, F64) | (F64, F32) | (F32, F16) => true,
        (F16, F16) | (F32, F32) | (F64, F64) => true,
        (Bool, Int { .. } | F16 | F32 | F64) => true,
        (Int { .. } | F16 | F32 | F64, Bool) => true,
        (Int { .. }, Decimal { .. }) => true,
        (Decimal { .. }, Int { .. }) => true,
        (Decimal { s: s1, .. }, Decimal { width: w2, s: s2, .. }) => (*s2 as i32 - *s1 as i32) <= max_precision(*w2) as i32,
        (F16 | F32 | F64, Decimal { s, .. }) => (0..=22).contains(s),
        (Timestamp(..), Timestamp(..)) => true,
        (Duration(_), Duration(_)) => true,
        (Date32, Date64) | (Date64, Date32) => true,
        (Date32 | Date64, Timestamp(..)) => true,
        (Timestamp(..), Date32 | Date64) => true,
        _ => false,
    }
}
/// pairs whose reference is only written for calendar years 0001-9999 (timezone arithmetic through chrono)
fn needs_sane(a: &LType, b: &LType) -> bool {
    use LType::*;
    match (a, b) {
        (Timestamp(_, None), Timestamp(_, Some(_))) => true,
        (Date32 | Date64, Timestamp(_, Some(_))) => true,
        (Timestamp(..), Date32) => true,
        _ => false,
    }
}

fn unit_of(t: &LType) -> i64 {
    match t {
        LType::Timestamp(u, _) | LType::Duration(u) => u.per_second(),
        _ => 1,
    }
}

fn ref_cast(a: &LType, b: &LType, v: &LValue) -> R {
    use LType::*;
    let rng = |x: BigInt, t: &LType| -> R { if in_range(&x, t) { R::V(from_big(t, &x)) } else { R::No } };
    let precision_ok = |x: &BigInt, p: u8| big_abs(x) < pow10(p as u32);
    match (a, b) {
        (Int { .. }, Int { .. }) => rng(to_big(v), b),
        (Int { .. }, F16 | F32 | F64) => {
            let LValue::Int(i) = v else { return R::No };
            R::V(match b {
                F16 => LValue::F16(half::f16::from_f64(*i as f64).to_bits()),
                F32 => LValue::F32((*i as f32).to_bits()),
                _ => LValue::F64((*i as f64).to_bits()),
            })
        }
        (F16 | F32 | F64, Int { .. }) => {
            let f = f64_of(v).unwrap();
            if !f.is_finite() {
                return R::No;
            }
            rng(big_of_integral_f64(f.trunc()), b)
        }
        (F16 | F32 | F64, F16 | F32 | F64) => {
            let f = f64_of(v).unwrap();
            match (a, b) {
                (F32, F16) => {
                    let LValue::F32(bits) = v else { return R::No };
                    R::V(LValue::F16(half::f16::from_f32(f32::from_bits(*bits)).to_bits()))
                }
                _ => R::V(float_lv(b, f)),
            }
        }
        (Bool, Int { .. }) => {
            let LValue::Bool(x) = v else { return R::No };
            R::V(LValue::Int(*x as i128))
        }
        (Bool, F16 | F32 | F64) => {
            let LValue::Bool(x) = v else { return R::No };
            R::V(float_lv(b, if *x { 1.0 } else { 0.0 }))
        }
        (Int { .. }, Bool) => R::V(LValue::Bool(to_big(v) != BigInt::from(0))),
        (F16 | F32 | F64, Bool) => R::V(LValue::Bool(f64_of(v).unwrap() != 0.0)),
        (Int { .. }, Decimal { p, s, .. }) => {
            let x = to_big(v);
            let r = if *s >= 0 { x * pow10(*s as u32) } else { div_trunc(&x, &pow10(s.unsigned_abs() as u32)) };
            if precision_ok(&r, *p) { R::V(from_big(b, &r)) } else { R::No }
        }
        (Decimal { s, .. }, Int { .. }) => {
            let x = to_big(v);
            let r = if *s >= 0 { div_trunc(&x, &pow10(*s as u32)) } else { x * pow10(s.unsigned_abs() as u32) };
            rng(r, b)
        }
        (Decimal { s: s1, .. }, Decimal { p: p2, s: s2, .. }) => {
            let x = to_big(v);
            let d = *s2 as i32 - *s1 as i32;
            let r = if d >= 0 { x * pow10(d as u32) } else { div_round_half_away(&x, &pow10((-d) as u32)) };
            if precision_ok(&r, *p2) { R::V(from_big(b, &r)) } else { R::No }
        }
        (F16 | F32 | F64, Decimal { p, s, .. }) => {
            // documented: "rounds to the `scale` decimals"; 10^s is exact in f64 for 0 <= s <= 22
            let f = f64_of(v).unwrap();
            let r = (10f64.powi(*s as i32) * f).round();
            if !r.is_finite() {
                return R::No;
            }
            let x = big_of_integral_f64(r);
            if precision_ok(&x, *p) { R::V(from_big(b, &x)) } else { R::No }
        }
        (Timestamp(_, tz1), Timestamp(_, tz2)) => {
            let x = to_big(v);
            let (u1, u2) = (unit_of(a), unit_of(b));
            let conv = if u2 >= u1 { x * BigInt::from(u2 / u1) } else { div_trunc(&x, &BigInt::from(u1 / u2)) };
            if !in_range(&conv, b) {
                return R::No;
            }
            match (tz1, tz2) {
                (None, Some(tz)) => rng(conv - BigInt::from(tz_offset_secs(tz)) * BigInt::from(u2), b),
                _ => R::V(from_big(b, &conv)),
            }
        }
        (Duration(_), Duration(_)) => {
            let x = to_big(v);
            let (u1, u2) = (unit_of(a), unit_of(b));
            let conv = if u2 >= u1 { x * BigInt::from(u2 / u1) } else { div_trunc(&x, &BigInt::from(u1 / u2)) };
            rng(conv, b)
        }
        (Date32, Date64) => R::V(from_big(b, &(to_big(v) * BigInt::from(86_400_000i64)))),
        (Date64, Date32) => rng(div_trunc(&to_big(v), &BigInt::from(86_400_000i64)), b),
        (Date32 | Date64, Timestamp(_, tz)) => {
            let x = to_big(v);
            let u2 = unit_of(b);
            let conv = match a {
                Date32 => x * BigInt::from(86_400i64) * BigInt::from(u2),
                _ => {
                    if u2 >= 1000 { x * BigInt::from(u2 / 1000) } else { div_trunc(&x, &BigInt::from(1000i64)) }
                }
            };
            if !in_range(&conv, b) {
                return R::No;
            }
            match tz {
                Some(tz) => rng(conv - BigInt::from(tz_offset_secs(tz)) * BigInt::from(u2), b),
                None => R::V(from_big(b, &conv)),
            }
        }
        (Timestamp(..), Date64) => {
            let x = to_big(v);
            let u1 = unit_of(a);
            let conv = if u1 >= 1000 { div_trunc(&x, &BigInt::from(u1 / 1000)) } else { x * BigInt::from(1000i64) };
            rng(conv, b)
        }
        (Timestamp(_, tz), Date32) => {
            // calendar date in the displayed zone (only used for years 0001-9999)
            let x = to_big(v);
            let u1 = unit_of(a);
            let off = tz.as_ref().map(|t| tz_offset_secs(t)).unwrap_or(0);
            let local = x + BigInt::from(off) * BigInt::from(u1);
            rng(div_floor(&local, &(BigInt::from(86_400i64) * BigInt::from(u1))), b)
        }
        _ => R::No,
    }
}

fn clamp_big(x: BigInt, ty: &LType) -> BigInt {
    // domain of the *source* type (decimals: declared precision)
    match ty {
        LType::Decimal { p, .. } => {
            let lim = pow10(*p as u32) - 1;
            if x > lim { lim } else if x < -lim.clone() { -lim } else { x }
        }
        _ => match backing_range(ty) {
            Some((lo, hi)) => {
                if x < lo { lo } else if x > hi { hi } else { x }
            }
            None => x,
        },
    }
}

/// values of `a` near the representability limits of `b` (the bias the property asks for)
fn limit_candidates(t: &mut Tape, a: &LType, b: &LType) -> Vec<LValue> {
    use LType::*;
    let mut out: Vec<LValue> = vec![];
    let near = |x: &BigInt| -> Vec<BigInt> { vec![x.clone() - 2, x.clone() - 1, x.clone(), x.clone() + 1, x.clone() + 2] };
    // limits of b expressed as integers in b's own unit
    let b_limits: Vec<BigInt> = match b {
        Decimal { p, .. } => {
            let m: BigInt = pow10(*p as u32) - 1;
            vec![m.clone(), -m]
        }
        _ => match backing_range(b) {
            Some((lo, hi)) => vec![lo, hi],
            None => vec![],
        },
    };
    // scale factor between a's integer unit and b's integer unit: value_b = value_a * num / den
    let (num, den): (BigInt, BigInt) = match (a, b) {
        (Int { .. }, Decimal { s, .. }) => if *s >= 0 { (pow10(*s as u32), 1.into()) } else { (1.into(), pow10(s.unsigned_abs() as u32)) },
        (Decimal { s, .. }, Int { .. }) => if *s >= 0 { (1.into(), pow10(*s as u32)) } else { (pow10(s.unsigned_abs() as u32), 1.into()) },
        (Decimal { s: s1, .. }, Decimal { s: s2, .. }) => {
            let d = *s2 as i32 - *s1 as i32;
            if d >= 0 { (pow10(d as u32), 1.into()) } else { (1.into(), pow10((-d) as u32)) }
        }
        (Timestamp(..) | Duration(_), Timestamp(..) | Duration(_)) => {
            let (u1, u2) = (unit_of(a), unit_of(b));
            if u2 >= u1 { (BigInt::from(u2 / u1), 1.into()) } else { (1.into(), BigInt::from(u1 / u2)) }
        }
        (Date32, Date64) => (BigInt::from(86_400_000i64), 1.into()),
        (Date64, Date32) => (1.into(), BigInt::from(86_400_000i64)),
        (Date32, Timestamp(..)) => (BigInt::from(86_400i64 * unit_of(b)), 1.into()),
        (Date64, Timestamp(..)) => if unit_of(b) >= 1000 { (BigInt::from(unit_of(b) / 1000), 1.into()) } else { (1.into(), BigInt::from(1000)) },
        (Timestamp(..), Date64) => if unit_of(a) >= 1000 { (1.into(), BigInt::from(unit_of(a) / 1000)) } else { (BigInt::from(1000), 1.into()) },
        _ => (1.into(), 1.into()),
    };
    if is_float(a) {
        // float sources: floats around the integer limits of b
        let lims: Vec<f64> = match b {
            Int { .. } => {
                let (lo, hi) = backing_range(b).unwrap();
                vec![lo.to_string().parse().unwrap(), hi.to_string().parse().unwrap()]
            }
            Decimal { p, s, .. } => {
                let mb: BigInt = pow10(*p as u32) - 1;
                let m: f64 = mb.to_string().parse().unwrap();
                let sc = 10f64.powi(*s as i32);
                vec![m / sc, -m / sc]
            }
            _ => vec![0.0],
        };
        for l in lims {
            for d in [-1.5, -1.0, -0.75, -0.5, -0.25, 0.0, 0.25, 0.5, 0.75, 1.0, 1.5] {
                out.push(float_lv(a, l + d));
            }
            let bits = (l as f64).to_bits();
            out.push(float_lv(a, f64::from_bits(bits.wrapping_add(1))));
            out.push(float_lv(a, f64::from_bits(bits.wrapping_sub(1))));
            out.push(float_lv(a, l * 2.0));
        }
        for f in [f64::NAN, f64::INFINITY, f64::NEG_INFINITY, -0.0, 0.0, -0.9, 0.9, 0.5, -0.5, 1.5, 2.5, -1.5, -2.5, 0.05, 0.15, 0.25, 6.4999, 1e-7, 1e22, -1e22, 1e38, 3e38] {
            out.push(float_lv(a, f));
        }
        return out;
    }
    if !(is_int(a) || is_dec(a) || backing_range(a).is_some()) {
        return out;
    }
    for l in &b_limits {
        // a-values that map to the neighbourhood of the limit
        let base = div_trunc(&(l * &den), &num);
        for x in near(&base) {
            out.push(norm(a, from_big(a, &clamp_big(x, a))));
        }
    }
    // rounding ties at the dropped digits (…5, …49, …50, …51 with both signs)
    if den > BigInt::from(1) {
        let k = BigInt::from(t.below(1000) as i64);
        let half = &den / 2;
        for sign in [1i32, -1] {
            for delta in [-1i32, 0, 1] {
                let x = (&k * &den + &half + delta) * sign;
                out.push(norm(a, from_big(a, &clamp_big(x, a))));
            }
        }
    }
    out
}

fn sane_range(ty: &LType) -> Option<(i128, i128)> {
    match ty {
        LType::Date32 => Some((MIN_DAY as i128, MAX_DAY as i128)),
        LType::Date64 => Some((MIN_DAY as i128 * 86_400_000, MAX_DAY as i128 * 86_400_000)),
        LType::Timestamp(u, _) => {
            let per = u.per_second() as i128;
            Some((((MIN_DAY as i128 + 1) * 86_400 * per).max(i64::MIN as i128), ((MAX_DAY as i128 - 1) * 86_400 * per).min(i64::MAX as i128)))
        }
        _ => None,
    }
}

fn gen_duality_column(t: &mut Tape, a: &LType, b: &LType, len: usize, strict: bool) -> Vec<LValue> {
    let sane = needs_sane(a, b);
    let cfg = ValCfg { sane_temporal: sane, ..ValCfg::default() };
    let mut cands = limit_candidates(t, a, b);
    if sane {
        if let Some((lo, hi)) = sane_range(a) {
            cands.retain(|v| matches!(v, LValue::Int(x) if *x >= lo && *x <= hi));
        }
    }
    // C13f16: i256::to_i64 wraps for values outside the i64 range; keep Decimal256 -> signed integer quotients inside it
    let f16_lim: Option<BigInt> = match (a, b) {
        // (fixed finding C13f16: values outside the i64 range are generated again)
        _ => None,
    };
    (0..len)
        .map(|_| {
            let v = if t.chance(36) {
                LValue::Null
            } else if !cands.is_empty() && t.chance(120) {
                t.pick(&cands).clone()
            } else {
                norm(a, gen_nonnull(t, a, &cfg))
            };
            match (&f16_lim, &v) {
                (Some(lim), LValue::Big(_) | LValue::Int(_)) => {
                    let x = to_big(&v);
                    let x = if x > *lim { lim.clone() } else if x < -lim.clone() { -lim.clone() } else { x };
                    norm(a, from_big(a, &x))
                }
                _ => v,
            }
        })
        .collect()
}

/// the duality oracle for one input column
fn check_duality(c: &mut Case, a: &LType, b: &LType, col: &[LValue], lay: &Lay, zero_payload: bool) -> CaseResult {
    let (da, db) = (a.arrow(), b.arrow());
    ensure!(can_cast_types(&da, &db), "duality:can-cast", "can_cast_types({}, {}) is false for a pair of the numeric/temporal families", da, db);
    let arr = no_panic("realise", || realise(&mut c.tape, a, col, true, lay))?;
    let arr = if zero_payload { zero_null_payload(&arr) } else { arr };
    let expect: Vec<Option<LValue>> = col
        .iter()
        .map(|v| {
            if v.is_null() {
                Some(LValue::Null)
            } else {
                match ref_cast(a, b, v) {
                    R::V(x) => Some(x),
                    R::No => None,
                }
            }
        })
        .collect();
    let n_no = expect.iter().filter(|e| e.is_none()).count();
    let n_yes = expect.iter().filter(|e| matches!(e, Some(v) if !v.is_null())).count();
    let safe = do_cast("cast(safe)", arr.as_ref(), &db, true)?;
    let strict = do_cast("cast(strict)", arr.as_ref(), &db, false)?;
    c.evals(2);
    let first_no = expect.iter().position(|e| e.is_none());
    match (&strict, first_no) {
        (Ok(_), Some(i)) => fail!("duality:strict-ok-on-unrepresentable", "cast {} -> {} safe=false succeeded although row {} = {:?} is not representable", da, db, i, col[i]),
        (Err(e), None) => fail!("duality:strict-err-on-representable", "cast {} -> {} safe=false failed ({}) although every valid row is representable; column {}", da, db, e, short_vec(col)),
        _ => {}
    }
    let safe = match safe {
        Ok(s) => s,
        Err(e) => fail!("duality:safe-err", "cast {} -> {} safe=true failed: {} ; column {}", da, db, e, short_vec(col)),
    };
    let want: Vec<LValue> = expect.iter().map(|e| e.clone().unwrap_or(LValue::Null)).collect();
    for (mode, out) in [("safe", Some(&safe)), ("strict", strict.as_ref().ok())] {
        let Some(out) = out else { continue };
        ensure!(out.data_type() == &db, "duality:result-type", "cast {} -> {} returned type {}", da, db, out.data_type());
        check_valid(out.as_ref(), "cast")?;
        let got = no_panic("extract", || extract(out.as_ref()))?;
        if let Some(i) = first_diff_nan(&got, &want) {
            let sig = if want.get(i).map(|w| w.is_null()).unwrap_or(false) && !col[i].is_null() {
                "duality:value-for-unrepresentable"
            } else if got.get(i).map(|w| w.is_null()).unwrap_or(false) {
                "duality:null-for-representable"
            } else {
                "duality:value"
            };
            fail!(sig, "cast {} -> {} ({}): row {} input {:?} gives {:?}, reference {:?}", da, db, mode, i, col.get(i), got.get(i), want.get(i));
        }
    }
    if n_no > 0 && n_yes > 0 && a != b {
        c.nontrivial();
        c.class("both-sides-of-limit");
    }
    if n_no > 0 {
        c.class("has-unrepresentable");
    }
    Ok(())
}

/// F10 avoidance that keeps the layout variation: same logical column and validity bitmap, zero payload under null slots
fn zero_null_payload(arr: &ArrayRef) -> ArrayRef {
    use arrow_array::cast::AsArray;
    use arrow_array::types::*;
    use arrow_array::PrimitiveArray;
    macro_rules! z {
        ($T:ty, $p:expr, $s:expr) => {{
            let a = arr.as_primitive::<$T>();
            let vals: Vec<<$T as arrow_array::ArrowPrimitiveType>::Native> = (0..a.len()).map(|i| if a.is_null(i) { Default::default() } else { a.value(i) }).collect();
            Arc::new(PrimitiveArray::<$T>::new(vals.into(), a.nulls().cloned()).with_precision_and_scale(*$p, *$s).unwrap()) as ArrayRef
        }};
    }
    match arr.data_type() {
        DataType::Decimal32(p, s) => z!(Decimal32Type, p, s),
        DataType::Decimal64(p, s) => z!(Decimal64Type, p, s),
        DataType::Decimal128(p, s) => z!(Decimal128Type, p, s),
        DataType::Decimal256(p, s) => z!(Decimal256Type, p, s),
        _ => arr.clone(),
    }
}

fn some_decimal(t: &mut Tape) -> LType {
    gen_decimal(t, &TypeCfg::all())
}
fn some_int(t: &mut Tape) -> LType {
    int(*t.pick(&[8u8, 16, 32, 64]), t.bool())
}
fn some_float(t: &mut Tape) -> LType {
    t.pick(&[LType::F64, LType::F32, LType::F16]).clone()
}
fn some_unit(t: &mut Tape) -> Unit {
    t.pick(&[Unit::S, Unit::Ms, Unit::Us, Unit::Ns]).clone()
}
fn some_tz(t: &mut Tape) -> Option<String> {
    t.pick(&[None, Some("UTC"), Some("+05:30"), Some("-08:00")]).map(|s| s.to_string())
}

/// known defect shapes (see the report): excluded from generated pairs unless replaying
fn known_shape(a: &LType, b: &LType) -> Option<&'static str> {
    use LType::*;
    match (a, b) {
        // decimal with negative scale -> integer multiplies in the decimal's native width
        (Decimal { s, .. }, Int { .. }) if *s < 0 => Some("C13f7-negscale-decimal-to-int-native-overflow"),
        // Date64 -> Timestamp(us|ns) multiplies unchecked
        (Date64, Timestamp(Unit::Us | Unit::Ns, _)) => Some("C13f8-date64-to-timestamp-unchecked-mul"),
        _ => None,
    }
}

fn gen_duality_pair(t: &mut Tape) -> (LType, LType, &'static str) {
    use LType::*;
    match t.below(16) {
        0 => (some_int(t), some_int(t), "int->int"),
        1 => (some_int(t), some_float(t), "int->float"),
        2 => (some_float(t), some_int(t), "float->int"),
        3 => {
            let (a, b) = (some_float(t), some_float(t));
            if ref_supported(&a, &b) { (a, b, "float->float") } else { (F32, F64, "float->float") }
        }
        4 | 5 => (some_int(t), some_decimal(t), "int->decimal"),
        6 => (some_decimal(t), some_int(t), "decimal->int"),
        7 | 8 | 9 => {
            let (a, b) = (some_decimal(t), some_decimal(t));
            if ref_supported(&a, &b) { (a, b, "decimal->decimal") } else { (b, a, "decimal->decimal") }
        }
        10 => {
            let n = if t.bool() { some_int(t) } else { some_float(t) };
            if t.bool() { (Bool, n, "bool->numeric") } else { (n, Bool, "numeric->bool") }
        }
        11 => {
            let mut d = some_decimal(t);
            if let Decimal { s, p, .. } = &mut d {
                if !(0..=22).contains(s) {
                    *s = (*s).clamp(0, 22).min(*p as i8);
                }
            }
            (some_float(t), d, "float->decimal")
        }
        12 => (Timestamp(some_unit(t), some_tz(t)), Timestamp(some_unit(t), some_tz(t)), "timestamp->timestamp"),
        13 => (Duration(some_unit(t)), Duration(some_unit(t)), "duration->duration"),
        14 => {
            let d = if t.bool() { Date32 } else { Date64 };
            match t.below(3) {
                0 => (Date32, Date64, "date->date"),
                1 => (Date64, Date32, "date->date"),
                _ => (d, Timestamp(some_unit(t), some_tz(t)), "date->timestamp"),
            }
        }
        _ => (Timestamp(some_unit(t), some_tz(t)), if t.bool() { Date32 } else { Date64 }, "timestamp->date"),
    }
}

fn sub_duality(c: &mut Case) -> CaseResult {
    let (mut a, mut b, fam) = gen_duality_pair(&mut c.tape);
    let lay = Lay::fancy();
    let mut zero_payload = false;
    if !c.strict {
        if let Some(key) = known_shape(&a, &b) {
            c.exclude(key);
            // steer to the neighbouring sound shape
            match (&mut a, &mut b) {
                (LType::Decimal { s, .. }, _) => *s = 0,
                (_, LType::Timestamp(u, _)) => *u = Unit::Ms,
                _ => {}
            }
        }
        if let (LType::Decimal { p: p1, s: s1, .. }, LType::Decimal { s: s2, .. }) = (&a, &mut b) {
            // C13f17: `input_precision as i8 + delta_scale` overflows i8 and the cast is taken for infallible
            if *p1 as i32 + (*s2 as i32 - *s1 as i32) > 127 {
                c.exclude("C13f17-decimal-upscale-i8-overflow-taken-as-infallible");
                *s2 = (*s1 as i32 + 127 - *p1 as i32) as i8;
            }
            // C13f10: the infallible rescale paths unwrap on the payload of null slots
            zero_payload = true;
        }
    }
    c.class(fam);
    let len = c.tape.len(24, 90);
    let col = gen_duality_column(&mut c.tape, &a, &b, len, c.strict);
    c.describe(json!({"from": a.arrow().to_string(), "to": b.arrow().to_string(), "column": short_vec(&col)}));
    if zero_payload && col.iter().any(|v| v.is_null()) {
        c.exclude("C13f10-decimal-rescale-panics-on-null-slot-payload");
    }
    check_duality(c, &a, &b, &col, &lay, zero_payload)
}

/// sources enumerated exhaustively over all of their values
fn exhaustive_sources(tier: Tier) -> Vec<LType> {
    let mut v = vec![int(8, true), int(8, false)];
    if tier == Tier::Thorough {
        v.extend([int(16, true), int(16, false), LType::F16]);
    }
    v
}
fn exhaustive_targets() -> Vec<LType> {
    let mut v = vec![LType::Bool, LType::F16, LType::F32, LType::F64];
    for bits in [8u8, 16, 32, 64] {
        v.push(int(bits, true));
        v.push(int(bits, false));
    }
    v.extend([
        dec(32, 9, 0), dec(32, 2, 0), dec(32, 3, 1), dec(32, 9, 7), dec(32, 5, -1), dec(32, 4, -2),
        dec(64, 18, 0), dec(64, 4, 2), dec(64, 18, 16), dec(64, 6, -3),
        dec(128, 38, 0), dec(128, 3, 0), dec(128, 38, 36), dec(128, 38, 34), dec(128, 5, -2),
        dec(256, 76, 0), dec(256, 76, 74), dec(256, 5, 1), dec(256, 76, 72), dec(256, 7, -4),
    ]);
    v
}
const N_EXH_TARGETS: u64 = 32;

fn sub_duality_exhaustive(c: &mut Case) -> CaseResult {
    let _ = c.tape.bytes(8);
    let srcs = exhaustive_sources(c.tier);
    let tgts = exhaustive_targets();
    debug_assert_eq!(tgts.len() as u64, N_EXH_TARGETS);
    let idx = c.index as usize % (srcs.len() * tgts.len());
    let (a, b) = (&srcs[idx / tgts.len()], &tgts[idx % tgts.len()]);
    if !ref_supported(a, b) {
        c.class("skipped:no-reference");
        return Ok(());
    }
    let col: Vec<LValue> = match a {
        LType::Int { bits, signed } => {
            let (lo, hi) = int_range(*bits, *signed);
            (lo..=hi).map(LValue::Int).collect()
        }
        _ => (0..=u16::MAX).map(LValue::F16).collect(),
    };
    c.class(format!("all-values:{}", a.arrow()));
    c.describe(json!({"from": a.arrow().to_string(), "to": b.arrow().to_string(), "rows": col.len()}));
    check_duality(c, a, b, &col, &Lay::plain(), false)?;
    c.evals(col.len() as u64);
    Ok(())
}

// =====================================================================================================
// 3. lossless cast followed by its inverse

fn digits_of_int(bits: u8, signed: bool) -> u8 {
    match (bits, signed) {
        (8, _) => 3,
        (16, _) => 5,
        (32, _) => 10,
        (64, true) => 19,
        _ => 20,
    }
}

fn other_enc(t: &mut Tape, e: Enc) -> Enc {
    let all = [Enc::O32, Enc::O64, Enc::View];
    let o: Vec<Enc> = all.iter().copied().filter(|x| *x != e).collect();
    *t.pick(&o)
}

/// a type `b` such that cast a -> b is lossless for every generated value of `a` (None = leave as is)
fn lossless_target(t: &mut Tape, a: &LType, depth: u32, tags: &mut Vec<&'static str>) -> LType {
    use LType::*;
    let leave = t.chance(if depth == 0 { 16 } else { 110 });
    if leave {
        return a.clone();
    }
    match a {
        Int { bits, signed } => {
            let mut cands: Vec<LType> = vec![];
            for b2 in [8u8, 16, 32, 64] {
                if b2 > *bits {
                    cands.push(int(b2, true));
                    if !*signed {
                        cands.push(int(b2, false));
                    }
                }
            }
            if depth == 0 {
                if *bits <= 16 {
                    cands.push(F32);
                }
                if *bits <= 32 {
                    cands.push(F64);
                }
                if *bits == 8 {
                    cands.push(F16);
                }
                let dg = digits_of_int(*bits, *signed);
                for (w, s) in [(128u16, 0i8), (128, 5), (256, 30), (64, 0), (32, 0), (64, 4)] {
                    let mp = max_precision(w);
                    if dg as i32 + s as i32 <= mp as i32 {
                        let p = (dg + s as u8 + t.below(3) as u8).min(mp);
                        cands.push(dec(w, p, s));
                    }
                }
            }
            if cands.is_empty() {
                return a.clone();
            }
            let b = t.pick(&cands).clone();
            tags.push(match b {
                Int { .. } => "int-widen",
                Decimal { .. } => "int->decimal",
                _ => "int->float-exact",
            });
            b
        }
        F16 => {
            tags.push("float-widen");
            t.pick(&[F32, F64]).clone()
        }
        F32 => {
            tags.push("float-widen");
            F64
        }
        Bool if depth == 0 => {
            tags.push("bool->int");
            some_int(t)
        }
        Decimal { width, p, s } => {
            let w2 = *t.pick(&[128u16, 256, *width, 64]);
            let mp = max_precision(w2) as i32;
            let room = mp - *p as i32;
            if room < 0 || *s as i32 > mp {
                return a.clone();
            }
            let ds = t.below(room.min(6) as usize + 1) as i32;
            let extra = t.below((room - ds).min(3) as usize + 1) as i32;
            let (p2, s2) = ((*p as i32 + ds + extra) as u8, (*s as i32 + ds) as i8);
            if s2 > 0 && s2 as u8 > p2 {
                return a.clone();
            }
            tags.push("decimal-upscale");
            dec(w2, p2, s2)
        }
        Date32 => {
            tags.push("temporal-finer");
            if t.bool() { Date64 } else { Timestamp(t.pick(&[Unit::S, Unit::Ms, Unit::Us]).clone(), None) }
        }
        Date64 => {
            tags.push("temporal-finer");
            Timestamp(t.pick(&[Unit::Ms, Unit::Us]).clone(), None)
        }
        Time32(Unit::S) => {
            tags.push("temporal-finer");
            t.pick(&[Time32(Unit::Ms), Time64(Unit::Us), Time64(Unit::Ns)]).clone()
        }
        Time32(_) => {
            tags.push("temporal-finer");
            t.pick(&[Time64(Unit::Us), Time64(Unit::Ns)]).clone()
        }
        Time64(Unit::Us) => {
            tags.push("temporal-finer");
            Time64(Unit::Ns)
        }
        Timestamp(u, _) | Duration(u) => {
            let finer: Vec<Unit> = [Unit::S, Unit::Ms, Unit::Us, Unit::Ns].into_iter().filter(|x| x.per_second() > u.per_second()).collect();
            if finer.is_empty() {
                return a.clone();
            }
            tags.push("temporal-finer");
            let u2 = t.pick(&finer).clone();
            match a {
                Timestamp(_, tz) => Timestamp(u2, tz.clone()),
                _ => Duration(u2),
            }
        }
        Utf8(e) => {
            if t.chance(64) {
                tags.push("utf8->binary");
                Binary(*t.pick(&[Enc::O32, Enc::O64, Enc::View]))
            } else {
                tags.push("string-reencode");
                Utf8(other_enc(t, *e))
            }
        }
        Binary(e) => {
            tags.push("binary-reencode");
            Binary(other_enc(t, *e))
        }
        FixedBinary(_) => {
            tags.push("fixedbinary->binary");
            Binary(*t.pick(&[Enc::O32, Enc::O64, Enc::View]))
        }
        List(f, e) => {
            let all = [ListEnc::O32, ListEnc::O64, ListEnc::V32, ListEnc::V64];
            let e2 = if t.chance(200) { *t.pick(&all) } else { *e };
            if e2 != *e {
                tags.push("list-reencode");
            }
            let child = lossless_target(t, &f.ty, depth + 1, tags);
            List(Box::new(LField { name: f.name.clone(), ty: child, nullable: f.nullable }), e2)
        }
        FixedList(f, n) => {
            let child = lossless_target(t, &f.ty, depth + 1, tags);
            let nf = Box::new(LField { name: f.name.clone(), ty: child, nullable: f.nullable });
            if t.bool() {
                tags.push("fixedlist->list");
                List(nf, *t.pick(&[ListEnc::O32, ListEnc::O64, ListEnc::V32, ListEnc::V64]))
            } else {
                FixedList(nf, *n)
            }
        }
        Struct(fs) => {
            tags.push("struct-children");
            Struct(fs.iter().map(|f| LField { name: f.name.clone(), ty: lossless_target(t, &f.ty, depth + 1, tags), nullable: f.nullable }).collect())
        }
        Map { key, val, sorted } => {
            tags.push("map-children");
            Map { key: key.clone(), val: Box::new(LField { name: val.name.clone(), ty: lossless_target(t, &val.ty, depth + 1, tags), nullable: val.nullable }), sorted: *sorted }
        }
        Dict { kbits, ksigned, value } => match t.below(3) {
            0 => {
                tags.push("dict-unpack");
                (**value).clone()
            }
            1 => {
                tags.push("dict-rekey");
                let k2 = *t.pick(&[16u8, 32, 64]);
                Dict { kbits: k2.max(*kbits), ksigned: t.bool(), value: value.clone() }
            }
            _ => {
                tags.push("dict-values");
                Dict { kbits: *kbits, ksigned: *ksigned, value: Box::new(lossless_target(t, value, depth + 1, tags)) }
            }
        },
        Ree { rbits, value } => match t.below(3) {
            0 => {
                tags.push("ree-unpack");
                value.ty.clone()
            }
            1 => {
                tags.push("ree-reindex");
                Ree { rbits: *t.pick(&[16u8, 32, 64]), value: value.clone() }
            }
            _ => {
                tags.push("ree-values");
                Ree { rbits: *rbits, value: Box::new(LField { name: value.name.clone(), ty: lossless_target(t, &value.ty, depth + 1, tags), nullable: value.nullable }) }
            }
        },
        _ => a.clone(),
    }
}

/// wrap a leaf column type into a dictionary / run-end encoding (top level only)
fn maybe_encode(t: &mut Tape, b: LType, tags: &mut Vec<&'static str>) -> LType {
    use LType::*;
    let leaf_ok = matches!(b, Int { .. } | Utf8(_) | Binary(_) | F32 | F64 | Decimal { width: 128 | 256, .. } | Timestamp(..) | Date32 | Date64);
    if !leaf_ok {
        return b;
    }
    match t.below(8) {
        0 => {
            tags.push("pack-dict");
            Dict { kbits: *t.pick(&[32u8, 8, 16, 64]), ksigned: t.bool(), value: Box::new(b) }
        }
        1 => {
            tags.push("pack-ree");
            Ree { rbits: *t.pick(&[32u8, 16, 64]), value: lf("values", b, true) }
        }
        _ => b,
    }
}

/// restrict generated values so that the lossless claim holds (temporal multiplication must not overflow)
fn clamp_for_inverse(a: &LType, b: &LType, v: LValue) -> LValue {
    use LType::*;
    match (a, b, &v) {
        (Timestamp(u1, _) | Duration(u1), Timestamp(u2, _) | Duration(u2), LValue::Int(x)) if u2.per_second() > u1.per_second() => {
            let lim = (i64::MAX / (u2.per_second() / u1.per_second())) as i128;
            LValue::Int((*x).clamp(-lim, lim))
        }
        (Date32, Timestamp(u2, _), LValue::Int(x)) => {
            let lim = (i64::MAX / (86_400 * u2.per_second())) as i128;
            LValue::Int((*x).clamp(-lim, lim))
        }
        (Date64, Timestamp(u2, _), LValue::Int(x)) if u2.per_second() > 1000 => {
            let lim = (i64::MAX / (u2.per_second() / 1000)) as i128;
            LValue::Int((*x).clamp(-lim, lim))
        }
        (List(f, _), List(g, _), LValue::List(items)) | (FixedList(f, _), List(g, _) | FixedList(g, _), LValue::List(items)) => {
            LValue::List(items.iter().map(|i| clamp_for_inverse(&f.ty, &g.ty, i.clone())).collect())
        }
        (Struct(fs), Struct(gs), LValue::Struct(items)) if fs.len() == gs.len() => {
            LValue::Struct(items.iter().enumerate().map(|(j, i)| clamp_for_inverse(&fs[j].ty, &gs[j].ty, i.clone())).collect())
        }
        (Map { val: f, .. }, Map { val: g, .. }, LValue::Map(es)) => LValue::Map(es.iter().map(|(k, x)| (k.clone(), clamp_for_inverse(&f.ty, &g.ty, x.clone()))).collect()),
        (Dict { value, .. }, _, _) => clamp_for_inverse(value, b, v),
        (Ree { value, .. }, _, _) => clamp_for_inverse(&value.ty, b, v),
        (_, Dict { value, .. }, _) => clamp_for_inverse(a, value, v),
        (_, Ree { value, .. }, _) => clamp_for_inverse(a, &value.ty, v),
        _ => v,
    }
}

/// value types `cast_to_dictionary` can pack
fn dict_packable(t: &LType) -> bool {
    use LType::*;
    matches!(t, Int { .. } | F16 | F32 | F64 | Decimal { .. } | Date32 | Date64 | Time32(_) | Time64(_) | Timestamp(..) | Utf8(_) | Binary(_) | FixedBinary(_))
}
fn is_temporal(t: &LType) -> bool {
    use LType::*;
    matches!(t, Date32 | Date64 | Time32(_) | Time64(_) | Timestamp(..) | Duration(_))
}

// =====================================================================================================
// re-encoding differential: the same logical column as a plain array, as a dictionary (sparse, permuted, with unused,
// duplicated and null dictionary entries, null keys, sliced) and as a run-end array must cast to the same values, nulls
// and Ok/Err outcome for every leaf target type ("dictionary/run-end ... re-encodings preserve values")
const REENC_TARGETS: usize = 30;
fn reencode_targets() -> Vec<DataType> {
    use arrow_schema::TimeUnit::*;
    vec![
        DataType::Int8, DataType::Int16, DataType::Int32, DataType::Int64, DataType::UInt8, DataType::UInt16, DataType::UInt32, DataType::UInt64,
        DataType::Float32, DataType::Float64, DataType::Boolean, DataType::Utf8, DataType::LargeUtf8, DataType::Utf8View, DataType::Binary,
        DataType::LargeBinary, DataType::BinaryView, DataType::Decimal128(20, 3), DataType::Decimal128(38, 10), DataType::Decimal256(40, 2),
        DataType::Decimal32(9, 2), DataType::Decimal64(18, 0), DataType::Date32, DataType::Date64, DataType::Timestamp(Second, None),
        DataType::Timestamp(Nanosecond, Some("UTC".into())), DataType::Time32(Second), DataType::Time64(Nanosecond), DataType::Duration(Millisecond),
        DataType::Float16,
    ]
}

/// dictionary encoding built by hand (garbage-free values array): (array, has fresh unreferenced entries)
fn encode_dict(t: &mut Tape, value: &LType, vals: &[LValue], kbits: u8) -> (ArrayRef, bool) {
    use arrow_array::types::*;
    use arrow_array::{DictionaryArray, PrimitiveArray};
    let vc = ValCfg::default();
    let mut dict: Vec<LValue> = vec![];
    for v in vals {
        if !v.is_null() && !dict.contains(v) {
            dict.push(v.clone());
        }
    }
    let cap = if kbits == 8 { 127 } else { 1 << 20 };
    let mut fresh = false;
    // unused entries: duplicates of used ones, fresh values, null entries; sometimes many (sparse dictionary)
    let extra = match t.below(4) {
        0 => 0,
        1 => t.below(3),
        _ => t.below(2 * vals.len() + 8),
    };
    for _ in 0..extra.min(cap - dict.len().min(cap)) {
        match t.below(4) {
            0 if !dict.is_empty() => {
                let d = dict[t.below(dict.len())].clone();
                dict.push(d)
            }
            1 => dict.push(LValue::Null),
            2 => {
                fresh = true;
                dict.push(gen_nonnull(t, value, &vc))
            }
            _ => dict.push(LValue::Null),
        }
    }
    let p = t.perm(dict.len());
    let mut d2 = dict.clone();
    for (i, j) in p.iter().enumerate() {
        d2[*j] = dict[i].clone();
    }
    let dict = d2;
    let null_entries: Vec<usize> = dict.iter().enumerate().filter(|(_, d)| d.is_null()).map(|(i, _)| i).collect();
    // leading / trailing rows that are sliced away again
    let lead = if t.chance(80) { 1 + t.below(3) } else { 0 };
    let trail = if t.chance(80) { 1 + t.below(3) } else { 0 };
    let mut keys: Vec<Option<i64>> = vec![];
    let any = |t: &mut Tape, dict: &Vec<LValue>| if dict.is_empty() { None } else { Some(t.below(dict.len()) as i64) };
    for _ in 0..lead {
        keys.push(any(t, &dict));
    }
    for v in vals {
        if v.is_null() {
            if !null_entries.is_empty() && t.bool() {
                keys.push(Some(*t.pick(&null_entries) as i64));
            } else {
                keys.push(None);
            }
        } else {
            let cands: Vec<usize> = dict.iter().enumerate().filter(|(_, d)| *d == v).map(|(i, _)| i).collect();
            keys.push(Some(*t.pick(&cands) as i64));
        }
    }
    for _ in 0..trail {
        keys.push(any(t, &dict));
    }
    let values = realise(t, value, &dict, true, &Lay::plain());
    let arr: ArrayRef = match kbits {
        8 => Arc::new(DictionaryArray::<Int8Type>::try_new(PrimitiveArray::<Int8Type>::from(keys.iter().map(|k| k.map(|x| x as i8)).collect::<Vec<_>>()), values).unwrap()),
        16 => Arc::new(DictionaryArray::<UInt16Type>::try_new(PrimitiveArray::<UInt16Type>::from(keys.iter().map(|k| k.map(|x| x as u16)).collect::<Vec<_>>()), values).unwrap()),
        32 => Arc::new(DictionaryArray::<Int32Type>::try_new(PrimitiveArray::<Int32Type>::from(keys.iter().map(|k| k.map(|x| x as i32)).collect::<Vec<_>>()), values).unwrap()),
        _ => Arc::new(DictionaryArray::<UInt64Type>::try_new(PrimitiveArray::<UInt64Type>::from(keys.iter().map(|k| k.map(|x| x as u64)).collect::<Vec<_>>()), values).unwrap()),
    };
    (arr.slice(lead, vals.len()), fresh)
}

fn sub_reencode(c: &mut Case) -> CaseResult {
    let mut cfg = TypeCfg::primitive();
    cfg.interval = false;
    let v = gen_type(&mut c.tape, &cfg);
    let n = match c.tape.below(6) {
        0 => 0,
        1 => 1,
        2 => 1 + c.tape.below(3),
        _ => c.tape.below(14),
    };
    let vals = gen_column(&mut c.tape, &v, true, n, &ValCfg::default());
    let plain = no_panic("reencode:realise", || realise(&mut c.tape, &v, &vals, true, &Lay::plain()))?;
    let kbits = *c.tape.pick(&[32u8, 8, 16, 64]);
    let distinct = {
        let mut d: Vec<&LValue> = vec![];
        for x in &vals {
            if !x.is_null() && !d.contains(&x) {
                d.push(x);
            }
        }
        d.len()
    };
    if kbits == 8 && distinct > 100 {
        return Ok(());
    }
    let (dict, fresh) = no_panic("reencode:encode_dict", || encode_dict(&mut c.tape, &v, &vals, kbits))?;
    let ree_ty = LType::Ree { rbits: *c.tape.pick(&[32u8, 16, 64]), value: lf("values", v.clone(), true) };
    // (RunArray::try_new occasionally rejects a sliced values child with arrow's "null_bit_buffer size too small" rule,
    // see DESIGN.md section 4: fall back to the plain layout then)
    let ree_lay = if is_dec(&v) && !c.strict {
        // open finding C13f10: decimal rescaling unwraps the undefined payload of null slots (fancy layouts put garbage there)
        c.exclude("C13f10-decimal-rescale-panics-on-null-slot-payload");
        Lay::plain()
    } else {
        Lay::fancy()
    };
    let ree = match catch(|| realise(&mut c.tape, &ree_ty, &vals, true, &ree_lay)) {
        Ok(a) => a,
        Err(_) => no_panic("reencode:realise-ree", || realise(&mut c.tape, &ree_ty, &vals, true, &Lay::plain()))?,
    };
    // both encodings read back as the logical column (ties the hand-made dictionary to the model)
    for (name, a) in [("dict", &dict), ("ree", &ree)] {
        let got = no_panic("reencode:extract", || extract(a.as_ref()))?;
        ensure!(first_diff(&got, &vals).is_none(), format!("reencode:{}:harness-readback", name), "hand-made {} encoding does not read back as the model column", name);
    }
    let dvals = dict.as_any_dictionary_opt().map(|d| d.values().len()).unwrap_or(0);
    if dvals > 2 * n {
        c.class("dict:sparse");
    }
    if dict.as_any_dictionary_opt().map(|d| d.values().null_count() > 0).unwrap_or(false) {
        c.class("dict:null-values");
    }
    let targets = reencode_targets();
    let picks = 1 + c.tape.below(3);
    let mut compared = 0;
    let mut desc = vec![];
    for _ in 0..picks {
        let t = targets[c.tape.below(REENC_TARGETS)].clone();
        if !can_cast_types(plain.data_type(), &t) {
            continue;
        }
        for safe in [true, false] {
            let o = opts(safe);
            let rp = catch(|| cast_with_options(plain.as_ref(), &t, &o));
            let Ok(rp) = rp else {
                c.class("plain-cast-panics");
                continue;
            };
            for (name, enc) in [("dict", &dict), ("ree", &ree)] {
                if !can_cast_types(enc.data_type(), &t) {
                    continue;
                }
                if !safe && name == "ree" && ree_lay.fancy && !c.strict {
                    // same finding: padded / sliced-away runs are converted as well
                    c.exclude("C13f9-strict-cast-converts-unreferenced-storage");
                    continue;
                }
                if !safe && name == "dict" && fresh && !c.strict {
                    // open finding C13f9: strict casts also convert dictionary entries no key refers to
                    c.exclude("C13f9-strict-cast-converts-unreferenced-storage");
                    continue;
                }
                let what = format!("reencode:{}", name);
                let re = no_panic(&format!("{}:cast", what), || cast_with_options(enc.as_ref(), &t, &o))?;
                match (&rp, &re) {
                    (Ok(a), Ok(b)) => {
                        ensure!(b.data_type() == &t, format!("{}:type", what), "cast({} -> {}) returned {}", enc.data_type(), t, b.data_type());
                        check_valid(b.as_ref(), &what)?;
                        let ga = no_panic("extract", || extract(a.as_ref()))?;
                        let gb = no_panic("extract", || extract(b.as_ref()))?;
                        if let Some(i) = first_diff(&ga, &gb) {
                            fail!(format!("{}:row", what), "cast({} -> {}, safe={}) row {} is {:?} but the plain {} array casts to {:?} (source value {:?})", enc.data_type(), t, safe, i, gb.get(i).map(|x| x.short()), plain.data_type(), ga.get(i).map(|x| x.short()), vals.get(i).map(|x| x.short()));
                        }
                    }
                    (Err(_), Err(_)) => {}
                    (Ok(_), Err(e)) => fail!(format!("{}:err-only-encoded", what), "cast({} -> {}, safe={}) fails ({}) but the plain {} array with the same values casts fine", enc.data_type(), t, safe, e, plain.data_type()),
                    (Err(e), Ok(_)) => fail!(format!("{}:err-only-plain", what), "cast({} -> {}, safe={}) succeeds but the plain {} array with the same values fails: {}", enc.data_type(), t, safe, plain.data_type(), e),
                }
                compared += 1;
                c.eval();
            }
        }
        desc.push(t.to_string());
        c.class(format!("target:{}", fam_of_dt(&t)));
    }
    c.class(format!("source:{}", v.family()));
    c.describe(json!({"value_type": v.arrow().to_string(), "rows": short_vec(&vals), "dictionary_values": dvals, "key_bits": kbits, "targets": desc}));
    if compared >= 2 && n >= 2 {
        c.nontrivial();
    }
    Ok(())
}
fn fam_of_dt(t: &DataType) -> &'static str {
    match t {
        DataType::Utf8 | DataType::LargeUtf8 => "string",
        DataType::Utf8View => "string-view",
        DataType::Binary | DataType::LargeBinary => "binary",
        DataType::BinaryView => "binary-view",
        x if x.is_integer() => "int",
        x if x.is_floating() => "float",
        DataType::Boolean => "bool",
        DataType::Decimal32(..) | DataType::Decimal64(..) | DataType::Decimal128(..) | DataType::Decimal256(..) => "decimal",
        _ => "temporal",
    }
}

fn sub_inverse(c: &mut Case) -> CaseResult {
    let mut cfg = TypeCfg::all();
    cfg.depth = 2;
    cfg.union = false;
    cfg.null = false;
    cfg.interval = false;
    let nested = c.tape.chance(90);
    cfg.nested = nested;
    cfg.map = nested;
    let a = gen_type(&mut c.tape, &cfg);
    let mut tags: Vec<&'static str> = vec![];
    let b0 = lossless_target(&mut c.tape, &a, 0, &mut tags);
    let mut b = maybe_encode(&mut c.tape, b0.clone(), &mut tags);
    let mut lay = Lay::fancy();
    let safe = c.tape.bool();
    if !c.strict {
        // C13f18: packing into a dictionary with a temporal value type skips the unit conversion
        if let LType::Dict { value, .. } = &b {
            if is_temporal(value) && a.denoted() != &**value {
                c.exclude("C13f18-cast-to-temporal-dictionary-skips-unit-conversion");
                tags.retain(|t| *t != "pack-dict");
                b = b0.clone();
            }
        }
        // C13f19: can_cast_types(T, Dictionary(K, T)) holds for every T but only some value types can be packed
        let unpackable = |t: &LType| t.any(&|x| matches!(x, LType::Dict { value, .. } if !dict_packable(value)));
        if unpackable(&a) || unpackable(&b) {
            c.exclude("C13f19-dictionary-packing-unsupported-value-type");
            c.class("excluded-known-shape");
            return Ok(());
        }
        // C13f20: FixedSizeList(0 x T) loses its length when the child type is cast
        if a.any(&|x| matches!(x, LType::FixedList(_, 0))) {
            c.exclude("C13f20-fixedsizelist0-cast-loses-length");
            c.class("excluded-known-shape");
            return Ok(());
        }
        // C13f12: list -> FixedSizeList ignores the offsets of the source
        if a.any(&|x| matches!(x, LType::FixedList(..))) {
            c.exclude("C13f12-list-to-fixedsizelist-ignores-offsets");
            lay = Lay::plain();
        }
        if a.any(&|x| is_dec(x)) {
            c.exclude("C13f10-decimal-rescale-panics-on-null-slot-payload");
            lay = Lay::plain();
        }
        // (in safe mode the converted garbage becomes null, which a non-nullable child field then rejects)
        let value_sensitive = tags.iter().any(|t| matches!(*t, "temporal-finer" | "decimal-upscale"));
        if (!safe || value_sensitive) && (has_unreferenced_storage(&a) || has_unreferenced_storage(&b)) {
            c.exclude("C13f9-strict-cast-converts-unreferenced-storage");
            lay = Lay::plain();
        }
    }
    let (da, db) = (a.arrow(), b.arrow());
    let len = c.tape.len(12, 40);
    let col: Vec<LValue> = gen_column(&mut c.tape, &a, true, len, &ValCfg::default()).into_iter().map(|v| clamp_for_inverse(&a, &b, v)).collect();
    c.describe(json!({"a": da.to_string(), "b": db.to_string(), "tags": tags, "safe": safe, "column": short_vec(&col)}));
    if a == b {
        c.class("identity");
    }
    if !(can_cast_types(&da, &db) && can_cast_types(&db, &da)) {
        c.class("skipped:not-castable-both-ways");
        return Ok(());
    }
    for tg in &tags {
        c.class(*tg);
    }
    c.class(format!("a:{}", a.family()));
    let arr = no_panic("realise", || realise(&mut c.tape, &a, &col, true, &lay))?;
    let fwd = match do_cast("cast(a->b)", arr.as_ref(), &db, safe)? {
        Ok(x) => x,
        Err(e) => fail!("inverse:forward-err", "lossless cast {} -> {} (safe={}) failed: {} ; column {}", da, db, safe, e, short_vec(&col)),
    };
    ensure!(fwd.data_type() == &db, "inverse:forward-type", "cast {} -> {} returned type {}", da, db, fwd.data_type());
    ensure!(fwd.len() == col.len(), "inverse:forward-len", "cast {} -> {} returned {} rows for {}", da, db, fwd.len(), col.len());
    check_valid(fwd.as_ref(), "cast(a->b)")?;
    let back = match do_cast("cast(b->a)", fwd.as_ref(), &da, safe)? {
        Ok(x) => x,
        Err(e) => fail!("inverse:backward-err", "inverse cast {} -> {} (safe={}) failed: {} ; column {}", db, da, safe, e, short_vec(&col)),
    };
    ensure!(back.data_type() == &da, "inverse:backward-type", "cast {} -> {} returned type {}", db, da, back.data_type());
    check_valid(back.as_ref(), "cast(b->a)")?;
    let got = no_panic("extract", || extract(back.as_ref()))?;
    c.evals(2);
    if let Some(i) = first_diff_nan(&got, &col) {
        fail!("inverse:value", "cast(cast(x, {}), {}) != x at row {}: got {:?} expected {:?} (intermediate {:?})", db, da, i, got.get(i), col.get(i), extract(fwd.as_ref()).get(i));
    }
    if a != b && col.iter().filter(|v| !v.is_null()).count() >= 3 {
        c.nontrivial();
    }
    Ok(())
}

// =====================================================================================================
// 4. text round trip

fn gen_text_type(t: &mut Tape) -> LType {
    use LType::*;
    match t.below(20) {
        0 | 1 => some_int(t),
        2 | 3 => some_float(t),
        4 => Bool,
        5 | 6 | 7 => {
            // decimals: max precision of each width at several scales, and arbitrary ones
            match t.below(3) {
                0 => {
                    let w = *t.pick(&[128u16, 256, 32, 64]);
                    let p = max_precision(w);
                    let s = *t.pick(&[0i8, 1, p as i8, (p / 2) as i8, p as i8 - 1]);
                    dec(w, p, s)
                }
                _ => {
                    let mut c = TypeCfg::all();
                    c.neg_scale = false;
                    gen_decimal(t, &c)
                }
            }
        }
        8 => Date32,
        9 => Date64,
        10 => t.pick(&[Time32(Unit::S), Time32(Unit::Ms), Time64(Unit::Us), Time64(Unit::Ns)]).clone(),
        11..=15 => Timestamp(some_unit(t), some_tz(t)),
        16 => t.pick(&[IntervalYM, IntervalDT, IntervalMDN]).clone(),
        17 => Utf8(*t.pick(&[Enc::O32, Enc::O64, Enc::View])),
        _ => some_int(t),
    }
}

/// values over the full range the textual form can express
fn gen_text_value(t: &mut Tape, ty: &LType, extreme: &mut bool, strict: bool, excluded: &mut bool) -> LValue {
    use LType::*;
    let cfg = ValCfg::default(); // years 0001-9999 in the displayed zone, decimals within precision
    match ty {
        Date64 => {
            // any millisecond of the day (the default datetime format prints the time part)
            let d = gen_int_in(t, MIN_DAY as i128, MAX_DAY as i128);
            if d == MIN_DAY as i128 || d == MAX_DAY as i128 {
                *extreme = true;
            }
            let ms = match t.below(4) {
                0 => 0,
                1 => 86_399_999,
                2 => 1,
                _ => t.below(86_400_000) as i128,
            };
            LValue::Int(d * 86_400_000 + ms)
        }
        Timestamp(u, _) => {
            let per = u.per_second() as i128;
            let lo = ((MIN_DAY as i128 + 1) * 86_400 * per).max(i64::MIN as i128);
            let hi = ((MAX_DAY as i128 - 1) * 86_400 * per + 86_400 * per - 1).min(i64::MAX as i128);
            let v = match t.below(8) {
                0 => lo,
                1 => hi,
                2 => -1,
                3 => -(t.below(2_000_000_000) as i128) * per / 1000 - 1, // negative epoch with sub-second digits
                4 => gen_int_in(t, lo, hi) / per * per + t.below(1000) as i128 * (per / 1000).max(1) % per,
                _ => gen_int_in(t, lo, hi),
            }
            .clamp(lo, hi);
            if v == lo || v == hi || v < 0 {
                *extreme = true;
            }
            LValue::Int(v)
        }
        IntervalYM => match gen_nonnull(t, ty, &cfg) {
            // C13f21: the eight smallest values print as "-178956971 years N mons", which the parser cannot take
            LValue::Int(m) if !strict && m < i32::MIN as i128 + 8 => {
                *excluded = true;
                LValue::Int(i32::MIN as i128 + 8)
            }
            v => v,
        },
        IntervalDT | IntervalMDN => gen_nonnull(t, ty, &cfg),
        _ => {
            let v = gen_nonnull(t, ty, &cfg);
            let ext = match (ty, &v) {
                (Int { bits, signed }, LValue::Int(x)) => {
                    let (lo, hi) = int_range(*bits, *signed);
                    *x == lo || *x == hi
                }
                (Decimal { p, .. }, LValue::Int(x)) => x.unsigned_abs() + 1 == 10u128.pow((*p).min(38) as u32),
                (Decimal { .. }, LValue::Big(_)) => true,
                (F64, LValue::F64(b)) => !f64::from_bits(*b).is_normal(),
                (F32, LValue::F32(b)) => !f32::from_bits(*b).is_normal(),
                (F16, LValue::F16(b)) => !half::f16::from_bits(*b).is_normal(),
                (Date32, LValue::Int(x)) => *x == MIN_DAY as i128 || *x == MAX_DAY as i128 || *x < 0,
                _ => false,
            };
            if ext {
                *extreme = true;
            }
            norm(ty, v)
        }
    }
}

/// strings whose meaning as text is the string itself: Utf8 <-> Utf8 carriers
fn sub_text(c: &mut Case) -> CaseResult {
    let ty = gen_text_type(&mut c.tape);
    let carrier = LType::Utf8(*c.tape.pick(&[Enc::O32, Enc::O64, Enc::View]));
    let (dt, dc) = (ty.arrow(), carrier.arrow());
    let len = c.tape.len(16, 60);
    let mut extreme = false;
    let mut excluded = false;
    let strict_mode = c.strict;
    let col: Vec<LValue> = (0..len).map(|_| if c.tape.chance(30) { LValue::Null } else { gen_text_value(&mut c.tape, &ty, &mut extreme, strict_mode, &mut excluded) }).collect();
    if excluded {
        c.exclude("C13f21-interval-yearmonth-min-text-not-parseable");
    }
    c.describe(json!({"type": dt.to_string(), "carrier": dc.to_string(), "column": short_vec(&col)}));
    if !(can_cast_types(&dt, &dc) && can_cast_types(&dc, &dt)) {
        c.class("skipped:not-castable-both-ways");
        return Ok(());
    }
    c.class(format!("type:{}", ty.family()));
    if let LType::Timestamp(u, tz) = &ty {
        c.class(format!("timestamp:{:?}:{}", u, if tz.is_some() { "tz" } else { "naive" }));
    }
    if let LType::Decimal { width, p, .. } = &ty {
        if *p == max_precision(*width) {
            c.class(format!("decimal{}:max-precision", width));
        }
    }
    let arr = no_panic("realise", || realise(&mut c.tape, &ty, &col, true, &Lay::fancy()))?;
    let safe = c.tape.bool();
    let text = match do_cast("cast(->text)", arr.as_ref(), &dc, safe)? {
        Ok(x) => x,
        Err(e) => fail!("text:format-err", "formatting {} as {} (safe={}) failed: {} ; column {}", dt, dc, safe, e, short_vec(&col)),
    };
    ensure!(text.data_type() == &dc && text.len() == col.len(), "text:format-shape", "cast {} -> {} returned {} x {}", dt, dc, text.data_type(), text.len());
    check_valid(text.as_ref(), "cast(->text)")?;
    let strings = no_panic("extract", || extract(text.as_ref()))?;
    // ArrayFormatter with default options is the same textual form
    let fmt_opts = FormatOptions::default();
    let formatter = match no_panic("ArrayFormatter::try_new", || ArrayFormatter::try_new(arr.as_ref(), &fmt_opts))? {
        Ok(f) => f,
        Err(e) => fail!("text:formatter-err", "ArrayFormatter::try_new({}) failed: {}", dt, e),
    };
    for (i, v) in col.iter().enumerate() {
        match (&strings[i], v.is_null()) {
            (LValue::Null, true) => {}
            (LValue::Str(s), false) => {
                let f = no_panic("ArrayFormatter::value", || formatter.value(i).try_to_string())?;
                match f {
                    Ok(f) => ensure!(&f == s, "text:formatter-vs-cast", "{} row {}: ArrayFormatter writes {:?}, cast to {} writes {:?}", dt, i, f, dc, s),
                    Err(e) => fail!("text:formatter-err", "ArrayFormatter::value({}) of {:?} failed: {}", i, v, e),
                }
            }
            (got, _) => fail!("text:format-nulls", "formatting {} row {} value {:?} gives {:?}", dt, i, v, got),
        }
    }
    let back = match do_cast("cast(text->)", text.as_ref(), &dt, false)? {
        Ok(x) => x,
        Err(e) => fail!("text:parse-err", "parsing the text of {} back (strict) failed: {} ; texts {}", dt, e, short_vec(&strings)),
    };
    ensure!(back.data_type() == &dt, "text:parse-type", "cast {} -> {} returned {}", dc, dt, back.data_type());
    check_valid(back.as_ref(), "cast(text->)")?;
    let got = no_panic("extract", || extract(back.as_ref()))?;
    c.evals(2 + col.len() as u64);
    if let Some(i) = first_diff_nan(&got, &col) {
        fail!("text:value", "{}: value {:?} formats as {:?} which parses back as {:?}", dt, col.get(i), strings.get(i), got.get(i));
    }
    if extreme {
        c.nontrivial();
        c.class("extreme-value");
    }
    Ok(())
}

/// 4b. the text of a value parsed as a *different* numeric type: the parse must agree with the direct cast semantics
/// (integer range checks; string -> decimal documented to round half away from zero at the target scale)
fn sub_text_cross(c: &mut Case) -> CaseResult {
    use LType::*;
    let pos_dec = |t: &mut Tape| {
        let mut cfg = TypeCfg::all();
        cfg.neg_scale = false;
        gen_decimal(t, &cfg)
    };
    let (a, b, fam) = match c.tape.below(6) {
        0 => (some_int(&mut c.tape), some_int(&mut c.tape), "int-text->int"),
        1 => (some_int(&mut c.tape), pos_dec(&mut c.tape), "int-text->decimal"),
        2 => (some_int(&mut c.tape), c.tape.pick(&[F64, F32]).clone(), "int-text->float"),
        _ => {
            let a = pos_dec(&mut c.tape);
            let mut b = pos_dec(&mut c.tape);
            if !ref_supported(&a, &b) {
                b = a.clone();
            }
            (a, b, "decimal-text->decimal")
        }
    };
    let carrier = Utf8(*c.tape.pick(&[Enc::O32, Enc::O64, Enc::View]));
    let (da, db, dc) = (a.arrow(), b.arrow(), carrier.arrow());
    c.class(fam);
    let len = c.tape.len(16, 60);
    let mut col = gen_duality_column(&mut c.tape, &a, &b, len, c.strict);
    if !c.strict && b == int(16, true) {
        // C13f22: atoi 3.1.0 treats five digits of a negative i16 as overflow-free: the first five digits are
        // accumulated with wrapping arithmetic, so every negative text whose leading five digits exceed 32768 wraps there
        // ("-32769".."-99999" always give a wrong value; longer ones such as "-6586368" do when the remaining digits
        // happen not to overflow the wrapped prefix: 263 818 texts down to -65 568 768 are accepted with a wrong value)
        let wraps = |x: i128| -> bool {
            if x > -32_769 {
                return false;
            }
            let mut m = x.unsigned_abs();
            while m >= 100_000 {
                m /= 10;
            }
            m > 32_768
        };
        let mut hit = false;
        for v in col.iter_mut() {
            if let LValue::Int(x) = v {
                if wraps(*x) {
                    *x = -100_000 - (*x).rem_euclid(1000);
                    hit = true;
                }
            }
        }
        if hit {
            c.exclude("C13f22-atoi-i16-negative-five-digit-wrap");
        }
    }
    c.describe(json!({"from": da.to_string(), "via": dc.to_string(), "to": db.to_string(), "column": short_vec(&col)}));
    ensure!(can_cast_types(&da, &dc) && can_cast_types(&dc, &db), "textcross:can-cast", "can_cast_types({} -> {} -> {}) is false", da, dc, db);
    let arr = no_panic("realise", || realise(&mut c.tape, &a, &col, true, &Lay::fancy()))?;
    let text = match do_cast("cast(->text)", arr.as_ref(), &dc, false)? {
        Ok(t) => t,
        Err(e) => fail!("textcross:format-err", "formatting {} as {} failed: {}", da, dc, e),
    };
    let expect: Vec<Option<LValue>> = col.iter().map(|v| if v.is_null() { Some(LValue::Null) } else { match ref_cast(&a, &b, v) { R::V(x) => Some(x), R::No => None } }).collect();
    let n_no = expect.iter().filter(|e| e.is_none()).count();
    let n_yes = expect.iter().filter(|e| matches!(e, Some(v) if !v.is_null())).count();
    let want: Vec<LValue> = expect.iter().map(|e| e.clone().unwrap_or(LValue::Null)).collect();
    let strict = do_cast("cast(text->, strict)", text.as_ref(), &db, false)?;
    let safe = do_cast("cast(text->, safe)", text.as_ref(), &db, true)?;
    c.evals(2);
    let texts = extract(text.as_ref());
    match (&strict, expect.iter().position(|e| e.is_none())) {
        (Ok(_), Some(i)) => fail!("textcross:strict-ok-on-unrepresentable", "parsing {:?} (text of {} {:?}) as {} safe=false succeeded although it is not representable", texts.get(i), da, col[i], db),
        (Err(e), None) => fail!("textcross:strict-err-on-representable", "parsing the text of {} as {} safe=false failed ({}) although every value is representable; texts {}", da, db, e, short_vec(&texts)),
        _ => {}
    }
    let safe = match safe {
        Ok(s) => s,
        Err(e) => fail!("textcross:safe-err", "parsing the text of {} as {} safe=true failed: {}", da, db, e),
    };
    for (mode, out) in [("safe", Some(&safe)), ("strict", strict.as_ref().ok())] {
        let Some(out) = out else { continue };
        ensure!(out.data_type() == &db, "textcross:result-type", "cast {} -> {} returned type {}", dc, db, out.data_type());
        check_valid(out.as_ref(), "cast")?;
        let got = extract(out.as_ref());
        if let Some(i) = first_diff_nan(&got, &want) {
            fail!("textcross:value", "text {:?} of {} {:?} parsed as {} ({}) gives {:?}, reference {:?}", texts.get(i), da, col.get(i), db, mode, got.get(i), want.get(i));
        }
    }
    if n_no > 0 && n_yes > 0 {
        c.nontrivial();
        c.class("both-sides-of-limit");
    }
    Ok(())
}

// =====================================================================================================
// 5. DataType Display -> FromStr

const NAME_PARTS: [&str; 22] = ["a", "b", "col", "X", "0", "_", " ", "é", "中", "😀", "İ", "ß", "(", ")", ",", ":", "-", ".", "'", "\"", "\\", "\u{301}"];

fn gen_name(t: &mut Tape) -> String {
    match t.below(12) {
        0 => "a".to_string(),
        1 => String::new(),
        2 => "item".to_string(),
        3 => "\n".to_string(),
        _ => {
            let n = 1 + t.below(5);
            (0..n).map(|_| *t.pick(&NAME_PARTS[..])).collect()
        }
    }
}

/// Display writes struct-like field names with `{:?}`; the parser keeps the characters between the quotes as they are
fn dq_needs_escape(name: &str) -> bool {
    format!("{:?}", name) != format!("\"{}\"", name)
}
/// list-like field names are written between single quotes without any escaping
fn sq_breaks(name: &str) -> bool {
    name.contains('\'') || name.contains('\\')
}

struct Namer<'a> {
    t: &'a mut Tape,
    strict: bool,
    excluded: Vec<&'static str>,
    escaped: bool,
    empty: bool,
    named: usize,
}
impl Namer<'_> {
    fn name(&mut self, single_quoted: bool) -> String {
        let mut n = gen_name(self.t);
        self.named += 1;
        let bad = if single_quoted { sq_breaks(&n) } else { dq_needs_escape(&n) };
        if bad {
            if self.strict {
                self.escaped = true;
            } else {
                self.excluded.push("F5-field-name-needs-escaping");
                n = n.chars().filter(|c| !matches!(c, '\'' | '"' | '\\') && !dq_needs_escape(&c.to_string())).collect();
            }
        }
        if n.is_empty() {
            if self.strict {
                self.empty = true;
            } else {
                self.excluded.push("F5b-empty-field-name");
                n = "f".to_string();
            }
        }
        n
    }
}

fn rename(dt: &DataType, nm: &mut Namer) -> DataType {
    use DataType as D;
    let fld = |f: &Field, nm: &mut Namer, sq: bool| -> Field {
        let name = if nm.t.chance(60) { f.name().clone() } else { nm.name(sq) };
        Field::new(name, rename(f.data_type(), nm), f.is_nullable())
    };
    match dt {
        D::List(f) => D::List(Arc::new(fld(f, nm, true))),
        D::LargeList(f) => D::LargeList(Arc::new(fld(f, nm, true))),
        D::ListView(f) => D::ListView(Arc::new(fld(f, nm, true))),
        D::LargeListView(f) => D::LargeListView(Arc::new(fld(f, nm, true))),
        D::FixedSizeList(f, n) => D::FixedSizeList(Arc::new(fld(f, nm, true)), *n),
        D::Struct(fs) => D::Struct(Fields::from(fs.iter().map(|f| fld(f, nm, false)).collect::<Vec<_>>())),
        D::Map(e, sorted) => {
            let sorted = if nm.t.chance(64) { !*sorted } else { *sorted };
            D::Map(Arc::new(fld(e, nm, false)), sorted)
        }
        D::Union(uf, mode) => {
            let ids: Vec<i8> = uf.iter().map(|(i, _)| i).collect();
            let fs: Vec<Field> = uf.iter().map(|(_, f)| fld(f, nm, false)).collect();
            D::Union(UnionFields::try_new(ids, fs).unwrap(), *mode)
        }
        D::Dictionary(k, v) => D::Dictionary(k.clone(), Box::new(rename(v, nm))),
        D::RunEndEncoded(r, v) => D::RunEndEncoded(Arc::new(fld(r, nm, false)), Arc::new(fld(v, nm, false))),
        other => other.clone(),
    }
}

fn roundtrip_datatype(dt: &DataType, escaped: bool, empty: bool) -> CaseResult {
    let text = no_panic("DataType::to_string", || dt.to_string())?;
    let parsed = no_panic("DataType::from_str", || text.parse::<DataType>())?;
    let sig = if escaped {
        "datatype:roundtrip:escaped-name"
    } else if empty {
        "datatype:roundtrip:empty-name"
    } else {
        "datatype:roundtrip"
    };
    match parsed {
        Ok(p) => {
            if &p != dt {
                fail!(sig, "DataType {:?} prints as `{}` which parses as a different type {:?}", dt, text, p);
            }
        }
        Err(e) => fail!(sig, "DataType {:?} prints as `{}` which does not parse: {}", dt, text, e),
    }
    Ok(())
}

fn sub_datatype(c: &mut Case) -> CaseResult {
    let mut cfg = TypeCfg::all();
    cfg.depth = 1 + c.tape.below(3) as u32;
    let lt = gen_type(&mut c.tape, &cfg);
    let strict = c.strict;
    let mut nm = Namer { t: &mut c.tape, strict, excluded: vec![], escaped: false, empty: false, named: 0 };
    let dt = rename(&lt.arrow(), &mut nm);
    let (excluded, escaped, empty, named) = (std::mem::take(&mut nm.excluded), nm.escaped, nm.empty, nm.named);
    for k in excluded {
        c.exclude(k);
    }
    c.class(lt.family());
    if named > 0 {
        c.class("generated-field-names");
    }
    let text = dt.to_string();
    if !text.is_ascii() {
        c.class("unicode-name");
    }
    c.describe(json!({"datatype": text}));
    roundtrip_datatype(&dt, escaped, empty)?;
    c.evals(1);
    let parametrised = lt.any(&|x| matches!(x, LType::Decimal { .. } | LType::Timestamp(..) | LType::FixedBinary(_) | LType::FixedList(..) | LType::Dict { .. } | LType::Ree { .. } | LType::Union { .. } | LType::Map { .. }));
    if lt.is_nested() && (named > 0 || parametrised) {
        c.nontrivial();
    }
    Ok(())
}

/// reproduction of the known non-invertible shapes (only run through the known-findings replay: no generated cases)
fn sub_datatype_known_shapes(c: &mut Case) -> CaseResult {
    let k = c.tape.u8();
    let (dt, escaped, empty) = match k {
        0 => (DataType::Struct(Fields::from(vec![Field::new("a\"b", DataType::Int32, true)])), true, false),
        1 => (DataType::Struct(Fields::from(vec![Field::new("a\\b", DataType::Int32, true)])), true, false),
        2 => (DataType::List(Arc::new(Field::new("it'em", DataType::Int32, true))), true, false),
        3 => (DataType::Struct(Fields::from(vec![Field::new("e\u{301}", DataType::Int32, true)])), true, false),
        4 => (DataType::Struct(Fields::from(vec![Field::new("", DataType::Int32, true)])), false, true),
        _ => (DataType::List(Arc::new(Field::new("", DataType::Int32, true))), false, true),
    };
    c.describe(json!({"datatype": dt.to_string()}));
    c.evals(1);
    roundtrip_datatype(&dt, escaped, empty)
}

/// Reproduction of the cast defects that the generators avoid by construction (only run through the known-findings
/// replay: no generated cases). Each shape asserts the behaviour the property demands, with its own signature.
fn sub_cast_known_shapes(c: &mut Case) -> CaseResult {

    use arrow_array::*;
    use arrow_buffer::{Buffer, NullBuffer, OffsetBuffer, ScalarBuffer};
    let k = c.tape.u8();
    let strict = |a: &dyn Array, to: &DataType| do_cast("cast", a, to, false);
    let safe = |a: &dyn Array, to: &DataType| do_cast("cast", a, to, true);
    let want = |sig: &'static str, what: &str, r: Result<ArrayRef, ArrowError>, exp: Vec<LValue>| -> CaseResult {
        match r {
            Err(e) => Err(Fail::new(sig, format!("{}: failed: {}", what, e))),
            Ok(out) => {
                check_valid(out.as_ref(), "cast").map_err(|f| Fail::new(sig, format!("{}: {}", what, f.msg)))?;
                let got = extract(out.as_ref());
                if first_diff_nan(&got, &exp).is_some() {
                    return Err(Fail::new(sig, format!("{}: got {} expected {}", what, short_vec(&got), short_vec(&exp))));
                }
                Ok(())
            }
        }
    };
    c.evals(1);
    c.describe(json!({"shape": k}));
    match k {
        0 => {
            let a = Decimal32Array::from(vec![999_999_999, 1]).with_precision_and_scale(9, -3).unwrap();
            want("known:decimal-negscale-to-int", "Decimal32(9,-3) [999999999, 1] -> Int64 (strict)", strict(&a, &DataType::Int64)?, vec![LValue::Int(999_999_999_000), LValue::Int(1000)])
        }
        1 => {
            let a = Date64Array::from(vec![i64::MAX / 1000 + 1, 86_400_000]);
            let to = ts(Unit::Us, None).arrow();
            if let Ok(out) = strict(&a, &to)? {
                return Err(Fail::new("known:date64-to-timestamp-wrap", format!("Date64 [{}] -> Timestamp(us) strict succeeded with {}", i64::MAX / 1000 + 1, short_vec(&extract(out.as_ref())))));
            }
            want("known:date64-to-timestamp-wrap", "Date64 -> Timestamp(us) (safe)", safe(&a, &to)?, vec![LValue::Null, LValue::Int(86_400_000_000)])
        }
        2 => {
            let a = IntervalYearMonthArray::from(vec![13]);
            ensure!(can_cast_types(a.data_type(), &DataType::Int64), "known:precondition", "can_cast_types(Interval(YearMonth), Int64) is now false");
            want("known:interval-to-int64-unsupported", "Interval(YearMonth) [13] -> Int64", safe(&a, &DataType::Int64)?, vec![LValue::Int(13)])
        }
        3 => {
            let a = StringArray::from(vec!["1200"]);
            let to = DataType::Decimal128(5, -2);
            ensure!(can_cast_types(a.data_type(), &to), "known:precondition", "can_cast_types(Utf8, Decimal128(5,-2)) is now false");
            want("known:utf8-to-negscale-decimal", "Utf8 [\"1200\"] -> Decimal128(5,-2)", safe(&a, &to)?, vec![LValue::Int(12)])
        }
        4 => {
            let a = Decimal128Array::new(ScalarBuffer::from(vec![1i128, i128::MAX]), Some(NullBuffer::from(vec![true, false]))).with_precision_and_scale(5, 2).unwrap();
            let r = catch(|| cast_with_options(&a, &DataType::Decimal32(9, 2), &opts(true)));
            match r {
                Err(p) => Err(Fail::new("known:decimal-rescale-null-payload-panic", format!("Decimal128(5,2) [1, null(payload i128::MAX)] -> Decimal32(9,2) panicked at {}: {}", p.loc, p.msg))),
                Ok(r) => want("known:decimal-rescale-null-payload-panic", "Decimal128(5,2) -> Decimal32(9,2)", r, vec![LValue::Int(1), LValue::Null]),
            }
        }
        5 => {
            let child = Int32Array::from(vec![Some(1), Some(2), None, None]);
            let a = FixedSizeListArray::try_new(Arc::new(Field::new("item", DataType::Int32, true)), 2, Arc::new(child), Some(NullBuffer::from(vec![true, false]))).unwrap();
            let to = DataType::List(Arc::new(Field::new("item", DataType::Int32, false)));
            match safe(&a, &to)? {
                Err(_) => Ok(()), // a clean rejection is what the other list kernels do
                Ok(out) => check_valid(out.as_ref(), "cast").map_err(|f| Fail::new("known:fsl-to-nonnull-list-invalid", format!("FixedSizeList(2 x Int32) [[1, 2], null (children null)] -> List(non-null Int32) returned Ok with an invalid array: {}", f.msg))),
            }
        }
        6 => {
            let values = StringArray::from(vec!["x"]);
            let a = ListArray::try_new(Arc::new(Field::new("item", DataType::Utf8, true)), OffsetBuffer::new(ScalarBuffer::from(vec![0i32, 1])), Arc::new(values), Some(NullBuffer::from(vec![false]))).unwrap();
            let to = DataType::List(Arc::new(Field::new("item", DataType::Int32, true)));
            want("known:strict-unreferenced-child", "List(Utf8) [null (covering child \"x\")] -> List(Int32) (strict)", strict(&a, &to)?, vec![LValue::Null])
        }
        7 => {
            let values = Int32Array::from(vec![9, 9, 1, 2, 3, 4]);
            let a = ListArray::try_new(Arc::new(Field::new("item", DataType::Int32, true)), OffsetBuffer::new(ScalarBuffer::from(vec![2i32, 4, 6])), Arc::new(values), None).unwrap();
            let to = DataType::FixedSizeList(Arc::new(Field::new("item", DataType::Int32, true)), 2);
            let l = |x: i128, y: i128| LValue::List(vec![LValue::Int(x), LValue::Int(y)]);
            want("known:list-to-fsl-ignores-offsets", "List(Int32) [[1,2],[3,4]] with first offset 2 -> FixedSizeList(2)", safe(&a, &to)?, vec![l(1, 2), l(3, 4)])
        }
        9 => {
            let child = Int32Array::from(vec![7, 8]);
            let a = FixedSizeListArray::try_new(Arc::new(Field::new("item", DataType::Int32, true)), 1, Arc::new(child), Some(NullBuffer::from(vec![false, true]))).unwrap();
            want("known:fsl1-to-values-drops-list-nulls", "FixedSizeList(1 x Int32) [null (child 7), [8]] -> Int32", safe(&a, &DataType::Int32)?, vec![LValue::Null, LValue::Int(8)])
        }
        10 => {
            let v = arrow_buffer::i256::from_i128((1i128 << 64) + 5);
            let a = Decimal256Array::from(vec![v]).with_precision_and_scale(38, 0).unwrap();
            want("known:i256-to-i64-wraps", "Decimal256(38,0) [2^64+5] -> Int64 (safe)", safe(&a, &DataType::Int64)?, vec![LValue::Null])
        }
        11 => {
            let v = arrow_buffer::i256::from_i128(10i128.pow(30));
            let a = Decimal256Array::from(vec![v]).with_precision_and_scale(76, 0).unwrap();
            let to = DataType::Decimal256(76, 52);
            if let Ok(out) = strict(&a, &to)? {
                return Err(Fail::new("known:decimal-upscale-i8-overflow", format!("Decimal256(76,0) [10^30] -> Decimal256(76,52) strict succeeded with {} (10^82 does not fit)", short_vec(&extract(out.as_ref())))));
            }
            want("known:decimal-upscale-i8-overflow", "Decimal256(76,0) [10^30] -> Decimal256(76,52) (safe)", safe(&a, &to)?, vec![LValue::Null])
        }
        12 => {
            let a = Date64Array::from(vec![86_400_000i64]);
            let to = DataType::Dictionary(Box::new(DataType::Int32), Box::new(ts(Unit::Us, None).arrow()));
            want("known:cast-to-temporal-dictionary-skips-conversion", "Date64 [1970-01-02] -> Dictionary(Int32, Timestamp(us))", safe(&a, &to)?, vec![LValue::Int(86_400_000_000)])
        }
        13 => {
            let a = DurationSecondArray::from(vec![1i64]);
            let to = DataType::Dictionary(Box::new(DataType::Int32), Box::new(a.data_type().clone()));
            ensure!(can_cast_types(a.data_type(), &to), "known:precondition", "can_cast_types(Duration(s), Dictionary(Int32, Duration(s))) is now false");
            want("known:dictionary-packing-unsupported", "Duration(s) [1] -> Dictionary(Int32, Duration(s))", safe(&a, &to)?, vec![LValue::Int(1)])
        }
        14 => {
            let f = |dt: DataType| Arc::new(Field::new("item", dt, true));
            let a = FixedSizeListArray::try_new_with_length(f(DataType::Int32), 0, Arc::new(Int32Array::from(Vec::<i32>::new())), None, 3).unwrap();
            let to = DataType::FixedSizeList(f(DataType::Int64), 0);
            want("known:fixedsizelist0-cast-loses-length", "FixedSizeList(0 x Int32) with 3 rows -> FixedSizeList(0 x Int64)", safe(&a, &to)?, vec![LValue::List(vec![]); 3])
        }
        15 => {
            let a = IntervalYearMonthArray::from(vec![i32::MIN]);
            let text = match safe(&a, &DataType::Utf8)? {
                Ok(t) => t,
                Err(e) => return Err(Fail::new("known:interval-yearmonth-min-text", format!("formatting failed: {}", e))),
            };
            want("known:interval-yearmonth-min-text", &format!("Interval(YearMonth) [i32::MIN] -> Utf8 {} -> Interval(YearMonth)", short_vec(&extract(text.as_ref()))), strict(text.as_ref(), a.data_type())?, vec![LValue::Int(i32::MIN as i128)])
        }
        16 => {
            let a = StringArray::from(vec!["-32769", "-40000", "-32768"]);
            want("known:utf8-to-int16-negative-wrap", "Utf8 [\"-32769\", \"-40000\", \"-32768\"] -> Int16 (safe)", safe(&a, &DataType::Int16)?, vec![LValue::Null, LValue::Null, LValue::Int(-32768)])
        }
        _ => {
            let a = BinaryArray::try_new(OffsetBuffer::new(ScalarBuffer::from(vec![1i32, 2])), Buffer::from_vec(vec![0xffu8, b'a']), None).unwrap();
            want("known:strict-unreferenced-bytes", "Binary [\"a\"] (invalid byte before the first offset) -> Utf8 (strict)", strict(&a, &DataType::Utf8)?, vec![LValue::Str("a".into())])
        }
    }
}

fn main() {
    let n = grid().len() as u64;
    Check::new(
        "C13",
        "exploration",
        "cases = (ordered type pair of an 84-type grid | numeric/temporal pair with an exact reference | lossless pair | text-capable type | nested DataType) x generated columns (empty, all-null, range limits of the target, rounding ties, random; realised with layout variation) x safe in {true,false}. Non-trivial = a != b and the column has a value on each side of b's representability limit (strict fails or safe adds nulls while other rows convert), or a text round trip of an extreme value (range limit, negative epoch, subnormal/non-finite float, max-precision decimal), or a lossless pair with >= 3 valid rows, or a nested DataType with generated names/parameters. Distinct = distinct consumed entropy tape.",
    )
    .assume("can_cast_types true does not promise success for values: value errors (overflow, parse, invalid utf-8, wrong list length, struct nullability) are accepted in `matrix`; only 'not supported'-style errors, and any error on an empty or all-null column, are violations")
    .assume("duality only for pairs with an exact reference: int<->int, int<->float, float->int (NumCast: truncate toward zero then range check; NaN/inf unrepresentable), f16/f32 widening, f64->f32, f32->f16 (f64->f16 skipped: double rounding unspecified), bool<->int/float, int->decimal (negative scale: truncating division as implemented), decimal->int (truncation toward zero), decimal->decimal (half away from zero, precision check; upscale by more than the target's max precision is rejected for the whole array and skipped), float->decimal for 0<=scale<=22 ((10^s*x).round() then precision check), timestamp<->timestamp and duration<->duration (multiply checked / truncating division; None->tz re-interprets local time per the cast_with_options docs), date32<->date64, date->timestamp, timestamp->date")
    .assume("decimal inputs lie within their declared precision (arrow kernels document precision as a value-level precondition); timezone re-interpretation and timestamp->Date32 only for calendar years 0001-9999; Time values within a day")
    .assume("decimal->float is documented lossy and is not compared; lossless pairs are constructed (widening ints, exact int->float, int->decimal with room, decimal upscale with room, string/binary/list re-encodings, dictionary/run-end packing and unpacking, temporal to finer unit with values clamped below the overflow limit, same timezone on both sides)")
    .assume("text round trip uses default FormatOptions; types castable to Utf8 but not back (Duration, Binary as hex, nested) are skipped by can_cast_types in both directions; Utf8 -> Decimal with negative scale is rejected by the kernel (reported) so text decimals have scale >= 0; timestamps/dates restricted to years 0001-9999 in the displayed zone")
    .assume("text_cross: the text of an integer/decimal parsed as another integer width, a float or a decimal with scale >= 0 is judged by the int->int, int->float, int->decimal and decimal->decimal references (string->decimal is documented to round half away from zero; unparseable/overflowing strings give null or error)")
    .assume("known defects avoided by construction (each counted under excluded_by_known_finding and reproduced by *_known_shapes): unreferenced child storage converted by strict casts (plain layout used instead), decimal rescale panic on null-slot payload (payload zeroed), List->FixedSizeList ignoring offsets, FixedSizeList(1)->values dropping list nulls, FixedSizeList->List(non-null) invalid output, Interval->Int64 and Utf8->Decimal(negative scale) and Dictionary packing of unsupported value types accepted by can_cast_types, Decimal(negative scale)->int native overflow, Date64->Timestamp(us|ns) unchecked multiply, i256::to_i64 wrap, Decimal256 upscale i8 overflow, temporal dictionary packing without unit conversion, FixedSizeList(0) length loss, Interval(YearMonth) minimum text, atoi i16 negative wrap")
    .assume("DataType round trip for metadata-free fields (the parser documents field metadata as TODO); names needing escaping (F5) and empty names are excluded by construction and reproduced in datatype_known_shapes")
    .sub(Sub::new("census", 0, 0, sub_census).enumerate(1, 1))
    .sub(Sub::new("matrix", 0, 0, sub_matrix).enumerate(n * n * 16, n * n * 250).require(&["castable:a!=b", "uncastable", "both-sides-of-limit"]))
    .sub(Sub::new("duality_exhaustive", 0, 0, sub_duality_exhaustive).enumerate(2 * N_EXH_TARGETS, 5 * N_EXH_TARGETS))
    .sub(Sub::new("duality", 250_000, 4_000_000, sub_duality).tape(128, 4000).require(&["int->int", "float->int", "decimal->decimal", "int->decimal", "decimal->int", "float->decimal", "timestamp->timestamp", "date->timestamp", "timestamp->date", "both-sides-of-limit"]))
    .sub(Sub::new("inverse", 120_000, 2_000_000, sub_inverse).tape(256, 6000).require(&["int-widen", "int->decimal", "decimal-upscale", "string-reencode", "binary-reencode", "list-reencode", "pack-dict", "pack-ree", "dict-unpack", "ree-unpack", "temporal-finer"]))
    .sub(Sub::new("reencode", 120_000, 2_000_000, sub_reencode).tape(128, 4000).require(&["dict:sparse", "dict:null-values", "target:string-view", "target:string", "target:int", "target:decimal", "target:temporal", "source:bytes", "source:view", "source:int", "source:decimal"]))
    .sub(Sub::new("text", 120_000, 2_000_000, sub_text).tape(256, 5000).require(&["type:int", "type:float", "type:decimal", "type:temporal", "type:bool", "extreme-value", "decimal128:max-precision", "decimal256:max-precision"]))
    .sub(Sub::new("text_cross", 60_000, 1_000_000, sub_text_cross).tape(256, 5000).require(&["int-text->int", "int-text->decimal", "int-text->float", "decimal-text->decimal", "both-sides-of-limit"]))
    .sub(Sub::new("datatype", 100_000, 1_500_000, sub_datatype).tape(64, 1500).require(&["struct", "union", "map", "generated-field-names", "unicode-name"]))
    .sub(Sub::new("datatype_known_shapes", 0, 0, sub_datatype_known_shapes).tape(1, 8))
    .sub(Sub::new("cast_known_shapes", 0, 0, sub_cast_known_shapes).tape(1, 8))
    .run()
}
