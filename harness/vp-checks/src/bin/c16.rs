//! C16 — shared buffers are immutable and their memory is released exactly once.
//! Model-based histories over a table of live handles (buffers, boolean buffers, arrays, ArrayData, exported FFI
//! structs, mutable buffers, vectors) that refer to a small set of memory regions (standard allocation, custom owner
//! that scribbles 0xDD when released, bytes::Bytes-backed). After EVERY step: every live handle still reads its
//! expected bytes, custom owners are released exactly when the model says the last reference is gone (never twice),
//! and pool accounting equals the capacity of live claimed regions.
use arrow_array::ffi::{from_ffi, to_ffi, FFI_ArrowArray, FFI_ArrowSchema};
use arrow_array::types::UInt8Type;
use arrow_array::{make_array, Array, PrimitiveArray, UInt8Array};
use arrow_buffer::{BooleanBuffer, Buffer, MemoryPool, MutableBuffer, ScalarBuffer, TrackingMemoryPool};
use arrow_data::ArrayData;
use serde_json::json;
use std::ptr::NonNull;
use std::sync::atomic::{AtomicUsize, Ordering};
use std::sync::{Arc, Mutex};
use vp_engine::ensure;
use vp_engine::runner::*;
use vp_engine::tape::Tape;

/// Owner of a custom allocation. On release it scribbles 0xDD over the bytes, counts the release and moves the
/// memory to a graveyard (never freed), so a use-after-release is a well-defined read of 0xDD bytes.
struct TrackedOwner {
    data: Mutex<Option<Vec<u8>>>,
    drops: Arc<AtomicUsize>,
}
static GRAVEYARD: Mutex<Vec<Vec<u8>>> = Mutex::new(Vec::new());
impl Drop for TrackedOwner {
    fn drop(&mut self) {
        self.drops.fetch_add(1, Ordering::SeqCst);
        if let Some(mut v) = self.data.lock().unwrap().take() {
            for b in v.iter_mut() {
                *b = 0xDD;
            }
            let mut g = GRAVEYARD.lock().unwrap();
            if g.len() < 4096 {
                g.push(v);
            } else {
                std::mem::forget(v);
            }
        }
    }
}

#[derive(Clone, Copy, PartialEq, Debug)]
enum Kind {
    Std,
    Mutable,
    Custom,
    BytesCrate,
}

struct Region {
    kind: Kind,
    drops: Option<Arc<AtomicUsize>>,
    live: usize,
    /// (pool index, capacity claimed)
    claimed: Option<(usize, usize)>,
    /// the region's allocation was handed over to a Vec/MutableBuffer (no longer a shared region)
    consumed: bool,
    /// a region imported over the C Data Interface is a distinct owner (the imported struct) that keeps a reference to
    /// the exported region alive until it is released
    parent: Option<usize>,
}

enum H {
    Buf { b: Buffer, r: usize, expect: Vec<u8> },
    Bool { b: BooleanBuffer, r: usize, expect: Vec<bool> },
    Arr { a: UInt8Array, r: usize, expect: Vec<u8> },
    Data { d: ArrayData, r: usize, expect: Vec<u8> },
    Ffi { a: FFI_ArrowArray, s: FFI_ArrowSchema, r: usize, expect: Vec<u8> },
    Mut { m: MutableBuffer, expect: Vec<u8>, claimed: Option<(usize, usize)> },
    VecU8 { v: Vec<u8>, expect: Vec<u8> },
}
impl H {
    fn region(&self) -> Option<usize> {
        match self {
            H::Buf { r, .. } | H::Bool { r, .. } | H::Arr { r, .. } | H::Data { r, .. } | H::Ffi { r, .. } => Some(*r),
            _ => None,
        }
    }
    fn kind(&self) -> &'static str {
        match self {
            H::Buf { .. } => "buffer",
            H::Bool { .. } => "boolean-buffer",
            H::Arr { .. } => "array",
            H::Data { .. } => "array-data",
            H::Ffi { .. } => "ffi-exported",
            H::Mut { .. } => "mutable-buffer",
            H::VecU8 { .. } => "vec",
        }
    }
}

fn bits_of(bytes: &[u8], off: usize, len: usize) -> Vec<bool> {
    (0..len).map(|i| bytes[(off + i) / 8] >> ((off + i) % 8) & 1 == 1).collect()
}

struct World {
    regions: Vec<Region>,
    handles: Vec<H>,
    pools: [TrackingMemoryPool; 2],
    trace: Vec<String>,
}

impl World {
    fn new_region(&mut self, t: &mut Tape) {
        let n = *t.pick(&[8usize, 1, 16, 64, 3, 100, 0]);
        let content: Vec<u8> = (0..n).map(|i| (i as u8).wrapping_mul(37) ^ t.u8()).collect();
        let kind = *t.pick(&[Kind::Std, Kind::Custom, Kind::Mutable, Kind::BytesCrate]);
        let (b, drops) = match kind {
            Kind::Std => (Buffer::from_vec(content.clone()), None),
            Kind::Mutable => {
                let mut m = MutableBuffer::new(n);
                m.extend_from_slice(&content);
                (Buffer::from(m), None)
            }
            Kind::BytesCrate => (Buffer::from(bytes::Bytes::from(content.clone())), None),
            Kind::Custom => {
                let drops = Arc::new(AtomicUsize::new(0));
                let mut v = content.clone();
                if v.is_empty() {
                    v.reserve(1);
                }
                let ptr = NonNull::new(v.as_mut_ptr()).unwrap();
                let owner = Arc::new(TrackedOwner { data: Mutex::new(Some(v)), drops: drops.clone() });
                let b = unsafe { Buffer::from_custom_allocation(ptr, n, owner) };
                (b, Some(drops))
            }
        };
        self.regions.push(Region { kind, drops, live: 1, claimed: None, consumed: false, parent: None });
        let r = self.regions.len() - 1;
        self.trace.push(format!("new {:?} region #{} of {} bytes", kind, r, n));
        self.handles.push(H::Buf { b, r, expect: content });
    }

    /// bookkeeping is recomputed from the handle table (see `recount`), so retiring is a no-op
    fn retire(&mut self, _r: usize) {}

    /// live[r] = handles referring to region r + live imported regions whose exporter is r;
    /// nonempty[r] = whether any of them covers at least one byte
    fn recount(&mut self) -> Vec<bool> {
        let n = self.regions.len();
        let mut live = vec![0usize; n];
        let mut nonempty = vec![false; n];
        for h in &self.handles {
            if let Some(r) = h.region() {
                live[r] += 1;
                let ne = match h {
                    H::Buf { expect, .. } | H::Arr { expect, .. } | H::Data { expect, .. } | H::Ffi { expect, .. } => !expect.is_empty(),
                    H::Bool { b, .. } => !b.inner().is_empty(),
                    _ => false,
                };
                nonempty[r] |= ne;
            }
        }
        for r in (0..n).rev() {
            if live[r] > 0 {
                if let Some(p) = self.regions[r].parent {
                    live[p] += 1;
                    nonempty[p] |= nonempty[r];
                }
            }
        }
        for r in 0..n {
            self.regions[r].live = live[r];
        }
        nonempty
    }

    /// invariant after every step
    fn check(&mut self, step: usize) -> CaseResult {
        let nonempty = self.recount();
        let last = self.trace.last().cloned().unwrap_or_default();
        for (i, h) in self.handles.iter().enumerate() {
            let ok = match h {
                H::Buf { b, expect, .. } => b.as_slice() == &expect[..],
                H::Bool { b, expect, .. } => b.len() == expect.len() && b.iter().zip(expect).all(|(x, y)| x == *y),
                H::Arr { a, expect, .. } => a.values().as_ref() == &expect[..],
                H::Data { d, expect, .. } => {
                    let b = &d.buffers()[0];
                    &b.as_slice()[d.offset()..d.offset() + d.len()] == &expect[..]
                }
                H::Ffi { .. } => true,
                H::Mut { m, expect, .. } => m.as_slice() == &expect[..],
                H::VecU8 { v, expect } => v == expect,
            };
            ensure!(ok, format!("content-changed:{}", h.kind()), "step {} ({}): handle {} ({}) no longer reads the bytes it was created with", step, last, i, h.kind());
        }
        for (ri, r) in self.regions.iter().enumerate() {
            if let Some(d) = &r.drops {
                let n = d.load(Ordering::SeqCst);
                if r.live > 0 && !nonempty[ri] {
                    // only zero-length views refer to the region: the owner may or may not have been released yet
                    ensure!(n <= 1, "owner-released-twice", "custom owner of region #{} released {} times", ri, n);
                } else if r.live > 0 {
                    ensure!(n == 0, "owner-released-early", "step {} ({}): custom owner of region #{} released {} time(s) while {} handle(s) are alive", step, last, ri, n, r.live);
                } else {
                    ensure!(n == 1, if n == 0 { "owner-not-released" } else { "owner-released-twice" }, "step {} ({}): custom owner of region #{} released {} time(s) after the last handle was dropped", step, last, ri, n);
                }
            }
        }
        for p in 0..2 {
            let mut want = 0usize;
            for r in &self.regions {
                if let Some((pi, cap)) = r.claimed {
                    if pi == p && r.live > 0 && !r.consumed {
                        want += cap;
                    }
                }
            }
            for h in &self.handles {
                if let H::Mut { claimed: Some((pi, cap)), .. } = h {
                    if *pi == p {
                        want += cap;
                    }
                }
            }
            let used = self.pools[p].used();
            ensure!(used == want, "pool-accounting", "step {} ({}): pool {} reports {} bytes used, model expects {} (live claimed regions)", step, last, p, used, want);
        }
        Ok(())
    }
}

fn sub_history(c: &mut Case) -> CaseResult {
    let mut w = World { regions: vec![], handles: vec![], pools: [TrackingMemoryPool::default(), TrackingMemoryPool::default()], trace: vec![] };
    let nops = 4 + c.tape.below(56);
    let (mut shared3, mut inplace_shared, mut inplace_unique, mut ffi_roundtrip) = (false, false, false, false);
    let r = no_panic("history", || -> CaseResult {
        w.new_region(&mut c.tape);
        for step in 0..nops {
            let t = &mut c.tape;
            if w.handles.is_empty() {
                w.new_region(t);
                w.check(step)?;
                continue;
            }
            let hi = t.below(w.handles.len());
            let op = t.below(16);
            match op {
                0 => w.new_region(t),
                1 | 2 => {
                    // clone (optionally on another thread)
                    let other_thread = t.chance(60);
                    let newh = match &w.handles[hi] {
                        H::Buf { b, r, expect } => Some(H::Buf { b: if other_thread { std::thread::scope(|s| s.spawn(|| b.clone()).join().unwrap()) } else { b.clone() }, r: *r, expect: expect.clone() }),
                        H::Bool { b, r, expect } => Some(H::Bool { b: b.clone(), r: *r, expect: expect.clone() }),
                        H::Arr { a, r, expect } => Some(H::Arr { a: a.clone(), r: *r, expect: expect.clone() }),
                        H::Data { d, r, expect } => Some(H::Data { d: d.clone(), r: *r, expect: expect.clone() }),
                        _ => None,
                    };
                    if let Some(h) = newh {
                        let r = h.region().unwrap();
                        w.trace.push(format!("clone handle {} ({}){}", hi, h.kind(), if other_thread { " on a worker thread" } else { "" }));
                        w.handles.push(h);
                    }
                }
                3 => {
                    // slice
                    let newh = match &w.handles[hi] {
                        H::Buf { b, r, expect } => {
                            let o = t.below(expect.len() + 1);
                            let l = t.below(expect.len() - o + 1);
                            Some(H::Buf { b: b.slice_with_length(o, l), r: *r, expect: expect[o..o + l].to_vec() })
                        }
                        H::Bool { b, r, expect } => {
                            let o = t.below(expect.len() + 1);
                            let l = t.below(expect.len() - o + 1);
                            Some(H::Bool { b: b.slice(o, l), r: *r, expect: expect[o..o + l].to_vec() })
                        }
                        H::Arr { a, r, expect } => {
                            let o = t.below(expect.len() + 1);
                            let l = t.below(expect.len() - o + 1);
                            Some(H::Arr { a: a.slice(o, l), r: *r, expect: expect[o..o + l].to_vec() })
                        }
                        _ => None,
                    };
                    if let Some(h) = newh {
                        w.trace.push(format!("slice handle {}", hi));
                        w.handles.push(h);
                    }
                }
                4 => {
                    // wrap (consumes the handle, same region)
                    let h = w.handles.swap_remove(hi);
                    let nh = match h {
                        H::Buf { b, r, expect } => {
                            if t.bool() {
                                let len = expect.len();
                                H::Arr { a: UInt8Array::new(ScalarBuffer::new(b, 0, len), None), r, expect }
                            } else {
                                let off = t.below(expect.len() * 8 + 1);
                                let l = t.below(expect.len() * 8 - off + 1);
                                let bits = bits_of(&expect, off, l);
                                H::Bool { b: BooleanBuffer::new(b, off, l), r, expect: bits }
                            }
                        }
                        H::Arr { a, r, expect } => H::Data { d: if t.bool() { a.to_data() } else { a.into_data() }, r, expect },
                        other => other,
                    };
                    w.trace.push(format!("wrap handle {} into {}", hi, nh.kind()));
                    w.handles.push(nh);
                }
                5 => {
                    // unwrap
                    let h = w.handles.swap_remove(hi);
                    let nh = match h {
                        H::Arr { a, r, expect } => {
                            let (_, values, _) = a.into_parts();
                            H::Buf { b: values.into_inner(), r, expect }
                        }
                        H::Data { d, r, expect } => {
                            let arr = make_array(d);
                            let a = arr.as_any().downcast_ref::<UInt8Array>().unwrap().clone();
                            H::Arr { a, r, expect }
                        }
                        other => other,
                    };
                    w.trace.push(format!("unwrap handle {} into {}", hi, nh.kind()));
                    w.handles.push(nh);
                }
                6 | 7 => {
                    // in-place attempt on a buffer: into_mutable / into_vec
                    let h = w.handles.swap_remove(hi);
                    match h {
                        H::Buf { b, r, expect } => {
                            let shared = w.regions[r].live > 1;
                            let claimed = w.regions[r].claimed;
                            if op == 6 {
                                match b.into_mutable() {
                                    Ok(mut m) => {
                                        // the model hands the region over; every other live handle must stay intact
                                        for x in m.as_slice_mut() {
                                            *x = 0xEE;
                                        }
                                        let e = vec![0xEE; m.len()];
                                        ensure!(m.len() == expect.len(), "into_mutable:len", "into_mutable returned {} bytes for a buffer of {}", m.len(), expect.len());
                                        w.retire(r);
                                        w.regions[r].consumed = true;
                                        let cap = m.capacity();
                                        w.trace.push(format!("into_mutable(handle {}) succeeded (region #{} {}) and was overwritten", hi, r, if shared { "SHARED" } else { "unique" }));
                                        w.handles.push(H::Mut { m, expect: e, claimed: claimed.map(|(p, _)| (p, cap)) });
                                        if shared {
                                            inplace_shared = true;
                                        } else {
                                            inplace_unique = true;
                                        }
                                    }
                                    Err(b) => {
                                        w.trace.push(format!("into_mutable(handle {}) declined", hi));
                                        if shared {
                                            inplace_shared = true;
                                        }
                                        w.handles.push(H::Buf { b, r, expect });
                                    }
                                }
                            } else {
                                {
                                    match b.into_vec::<u8>() {
                                        Ok(mut v) => {
                                            ensure!(v.len() == expect.len(), "into_vec:len", "into_vec length");
                                            for x in v.iter_mut() {
                                                *x = 0xEE;
                                            }
                                            let e = vec![0xEE; v.len()];
                                            w.retire(r);
                                            w.regions[r].consumed = true;
                                            w.trace.push(format!("into_vec(handle {}) succeeded (region #{} {}) and was overwritten", hi, r, if shared { "SHARED" } else { "unique" }));
                                            w.handles.push(H::VecU8 { v, expect: e });
                                            if !shared {
                                                inplace_unique = true;
                                            }
                                        }
                                        Err(b) => {
                                            w.trace.push(format!("into_vec(handle {}) declined", hi));
                                            w.handles.push(H::Buf { b, r, expect });
                                        }
                                    }
                                }
                            }
                        }
                        H::Mut { m, expect, claimed } => {
                            // freeze back into a shared region
                            let b: Buffer = m.into();
                            w.regions.push(Region { kind: Kind::Mutable, drops: None, live: 1, claimed, consumed: false, parent: None });
                            let r = w.regions.len() - 1;
                            w.trace.push(format!("freeze mutable buffer into region #{}", r));
                            w.handles.push(H::Buf { b, r, expect });
                        }
                        other => w.handles.push(other),
                    }
                }
                8 => {
                    // in-place unary kernel / into_builder on an array
                    let h = w.handles.swap_remove(hi);
                    match h {
                        H::Arr { a, r, expect } => {
                            let shared = w.regions[r].live > 1;
                            if t.bool() {
                                match a.unary_mut(|x| x.wrapping_add(1)) {
                                    Ok(a2) => {
                                        let e: Vec<u8> = expect.iter().map(|x| x.wrapping_add(1)).collect();
                                        w.trace.push(format!("unary_mut(handle {}) succeeded in place (region #{} {})", hi, r, if shared { "SHARED" } else { "unique" }));
                                        // memory is reused: the region now holds the new content (only this handle may refer to it).
                                        // unary_mut goes through into_builder/Buffer::into_vec, which releases the pool reservation
                                        if w.regions[r].live == 1 {
                                            w.regions[r].claimed = None;
                                        }
                                        w.handles.push(H::Arr { a: a2, r, expect: e });
                                        if shared {
                                            inplace_shared = true;
                                        } else {
                                            inplace_unique = true;
                                        }
                                    }
                                    Err(a) => {
                                        w.trace.push(format!("unary_mut(handle {}) declined", hi));
                                        if shared {
                                            inplace_shared = true;
                                        }
                                        w.handles.push(H::Arr { a, r, expect });
                                    }
                                }
                            } else {
                                match a.into_builder() {
                                    Ok(mut bld) => {
                                        for v in bld.values_slice_mut() {
                                            *v = 0xEE;
                                        }
                                        let a2: PrimitiveArray<UInt8Type> = bld.finish();
                                        let e = vec![0xEE; expect.len()];
                                        ensure!(a2.len() == expect.len(), "into_builder:len", "into_builder changed the length");
                                        w.retire(r);
                                        w.regions[r].consumed = true;
                                                                                // (the values go through Buffer::into_vec, which releases the reservation: the rebuilt
                                        // array is an untracked allocation)
                                        let claimed = None;
                                        w.regions.push(Region { kind: Kind::Mutable, drops: None, live: 1, claimed, consumed: false, parent: None });
                                        let nr = w.regions.len() - 1;
                                        w.trace.push(format!("into_builder(handle {}) succeeded (region #{} {}), values overwritten", hi, r, if shared { "SHARED" } else { "unique" }));
                                        w.handles.push(H::Arr { a: a2, r: nr, expect: e });
                                    }
                                    Err(a) => {
                                        w.trace.push(format!("into_builder(handle {}) declined", hi));
                                        w.handles.push(H::Arr { a, r, expect });
                                    }
                                }
                            }
                        }
                        H::Bool { mut b, r, expect } => {
                            // bit-mask assignment: in place only when uniquely owned (standard allocation, zero pointer offset)
                            let zeros = BooleanBuffer::new_unset(expect.len());
                            let before = b.inner().data_ptr();
                            b &= &zeros;
                            let e = vec![false; expect.len()];
                            let in_place = b.inner().data_ptr() == before;
                            if in_place {
                                // same allocation: same region, same reservation; any other live handle of the region would now
                                // read zeros and fail the content check
                                w.trace.push(format!("boolean &= on handle {} (region #{}) in place", hi, r));
                                w.handles.push(H::Bool { b, r, expect: e });
                                if w.regions[r].live > 1 {
                                    inplace_shared = true;
                                } else {
                                    inplace_unique = true;
                                }
                            } else {
                                w.retire(r);
                                w.regions.push(Region { kind: Kind::Mutable, drops: None, live: 1, claimed: None, consumed: false, parent: None });
                                let nr = w.regions.len() - 1;
                                w.trace.push(format!("boolean &= on handle {} (region #{}) copied into region #{}", hi, r, nr));
                                w.handles.push(H::Bool { b, r: nr, expect: e });
                            }
                        }
                        other => w.handles.push(other),
                    }
                }
                9 => {
                    // export over the C Data Interface (the array handle stays alive)
                    // zero-length arrays are exported/imported without retaining the exporter's buffers (nothing to refer to);
                    // they are covered by the ffi_types sub-check, the ownership model here uses non-empty exports only
                    if let H::Arr { a, r, expect } = &w.handles[hi] {
                        if expect.is_empty() {
                            // skip
                        } else if let Ok((fa, fs)) = to_ffi(&a.to_data()) {
                            let h = H::Ffi { a: fa, s: fs, r: *r, expect: expect.clone() };
                            w.trace.push(format!("export handle {} over the C Data Interface", hi));
                            w.handles.push(h);
                        }
                    }
                }
                10 => {
                    // import an exported struct
                    if matches!(w.handles[hi], H::Ffi { .. }) {
                        let H::Ffi { a, s, r, expect } = w.handles.swap_remove(hi) else { unreachable!() };
                        let d = match unsafe { from_ffi(a, &s) } {
                            Ok(d) => d,
                            Err(e) => return Err(Fail::new("ffi:import-err", format!("from_ffi of an exported array failed: {}", e))),
                        };
                        drop(s);
                        ensure!(d.validate_full().is_ok(), "ffi:import-invalid", "imported ArrayData fails validate_full");
                        ensure!(d.len() == expect.len(), "ffi:import-len", "imported length {} != {}", d.len(), expect.len());
                        ffi_roundtrip = true;
                        // the imported data is owned by the imported struct: a new region whose release drops the export's reference
                        w.regions.push(Region { kind: Kind::Custom, drops: None, live: 1, claimed: None, consumed: false, parent: Some(r) });
                        let nr = w.regions.len() - 1;
                        w.trace.push(format!("import exported handle {} as region #{} (keeps region #{} alive)", hi, nr, r));
                        w.handles.push(H::Data { d, r: nr, expect });
                    }
                }
                11 | 12 => {
                    // claim into a pool
                    let p = t.below(2);
                    let reg = match &w.handles[hi] {
                        H::Buf { b, r, .. } => {
                            b.claim(&w.pools[p]);
                            Some((*r, b.capacity()))
                        }
                        H::Arr { a, r, .. } => {
                            a.claim(&w.pools[p]);
                            Some((*r, a.values().inner().capacity()))
                        }
                        _ => None,
                    };
                    if let Some((r, cap)) = reg {
                        w.regions[r].claimed = Some((p, cap));
                        w.trace.push(format!("claim handle {} (region #{}, {} bytes) into pool {}", hi, r, cap, p));
                    }
                }
                13 => {
                    // shrink_to_fit
                    if let H::Buf { b, r, .. } = &mut w.handles[hi] {
                        b.shrink_to_fit();
                        let cap = b.capacity();
                        let r = *r;
                        if w.regions[r].live == 1 {
                            if let Some((p, _)) = w.regions[r].claimed {
                                w.regions[r].claimed = Some((p, cap));
                            }
                        }
                        w.trace.push(format!("shrink_to_fit handle {}", hi));
                    }
                }
                _ => {
                    // drop (optionally on another thread)
                    let h = w.handles.swap_remove(hi);
                    let other_thread = t.chance(60);
                    if let Some(r) = h.region() {
                        w.retire(r);
                    }
                    w.trace.push(format!("drop handle {} ({}){}", hi, h.kind(), if other_thread { " on a worker thread" } else { "" }));
                    if other_thread {
                        // FFI structs hold raw pointers (not Send): released on this thread
                        match h {
                            H::Buf { b, .. } => std::thread::scope(|s| {
                                s.spawn(move || drop(b));
                            }),
                            H::Arr { a, .. } => std::thread::scope(|s| {
                                s.spawn(move || drop(a));
                            }),
                            H::Data { d, .. } => std::thread::scope(|s| {
                                s.spawn(move || drop(d));
                            }),
                            other => drop(other),
                        }
                    } else {
                        drop(h);
                    }
                }
            }
            for r in &w.regions {
                if r.live >= 3 {
                    shared3 = true;
                }
            }
            w.check(step)?;
        }
        // drop everything in a generated order
        while !w.handles.is_empty() {
            let hi = c.tape.below(w.handles.len());
            let h = w.handles.swap_remove(hi);
            if let Some(r) = h.region() {
                w.retire(r);
            }
            w.trace.push(format!("final drop of a {}", h.kind()));
            drop(h);
            w.check(nops)?;
        }
        for p in 0..2 {
            ensure!(w.pools[p].used() == 0, "pool-accounting:final", "pool {} still reports {} bytes after every handle was dropped", p, w.pools[p].used());
        }
        Ok(())
    });
    c.describe(json!({"history": w.trace.iter().take(40).collect::<Vec<_>>(), "ops": nops}));
    match r {
        Ok(inner) => inner?,
        Err(f) => return Err(f),
    }
    if shared3 {
        c.class("region-shared-by>=3");
    }
    if inplace_shared {
        c.class("in-place-attempt-while-shared");
    }
    if inplace_unique {
        c.class("in-place-success-when-unique");
    }
    if ffi_roundtrip {
        c.class("ffi-export-import");
    }
    if shared3 && inplace_shared && inplace_unique {
        c.nontrivial();
    }
    c.evals(nops as u64);
    Ok(())
}

/// FFI round trip of arrays of every type and layout: imported == exported, valid, owner released once
fn sub_ffi_types(c: &mut Case) -> CaseResult {
    use vp_engine::extract::extract;
    use vp_engine::model::*;
    use vp_engine::r#gen::*;
    use vp_engine::realise::*;
    let mut cfg = TypeCfg::all();
    cfg.depth = 2;
    let ty = gen_type(&mut c.tape, &cfg);
    let n = gen_len(&mut c.tape).min(40);
    let col = gen_column(&mut c.tape, &ty, true, n, &ValCfg::default());
    let arr = realise(&mut c.tape, &ty, &col, true, &Lay { fancy: true, dict_value_nulls: true, slice_chance: 128 });
    c.class(format!("type:{}", ty.family()));
    c.describe(json!({"type": ty.arrow().to_string(), "len": n}));
    let data = arr.to_data();
    // release accounting: one retained clone of every buffer reachable from the exported data (children and dictionary
    // values included); when every array handle is gone, nothing but these clones may keep an allocation alive
    let mut held: Vec<Buffer> = vec![];
    fn collect(d: &arrow_data::ArrayData, out: &mut Vec<Buffer>) {
        out.extend(d.buffers().iter().cloned());
        if let Some(n) = d.nulls() {
            out.push(n.buffer().clone());
        }
        for c in d.child_data() {
            collect(c, out);
        }
    }
    collect(&data, &mut held);
    let exported = no_panic("to_ffi", || to_ffi(&data))?;
    let (fa, fs) = match exported {
        Ok(x) => x,
        Err(e) => {
            // types the C Data Interface exporter documents as unsupported are rejected cleanly
            c.class("export-rejected");
            let _ = e;
            return Ok(());
        }
    };
    let drop_original_first = c.tape.bool();
    let original = if drop_original_first {
        drop(arr);
        drop(data);
        None
    } else {
        drop(data);
        Some(arr)
    };
    let imported = no_panic("from_ffi", || unsafe { from_ffi(fa, &fs) })?;
    let d = match imported {
        Ok(d) => d,
        Err(e) => return Err(Fail::new(format!("ffi:import-err:{}", ty.family()), format!("from_ffi of an array exported by to_ffi failed: {}", e))),
    };
    drop(fs);
    // an empty array may legitimately be exported with a non-zero first offset; the importer cannot know the values
    // length then (it uses 0), which validate_full reports - from_ffi is unchecked by contract, equality is what the
    // property states, so validity is demanded for non-empty arrays only
    if d.len() == 0 {
        // nothing to validate
    } else if let Err(e) = no_panic("validate_full", || d.validate_full())? {
        let m = e.to_string();
        let empty_child = m.contains("First offset") && m.contains("values length 0");
        if !m.contains("null_bit_buffer size too small") && !empty_child {
            return Err(Fail::new(format!("ffi:import-invalid:{}", ty.family()), format!("imported data fails validate_full: {}", m)));
        }
    }
    let back = no_panic("make_array", || make_array(d))?;
    ensure!(back.data_type() == &ty.arrow(), format!("ffi:type:{}", ty.family()), "imported type {} != exported {}", back.data_type(), ty.arrow());
    let got = no_panic("extract", || extract(back.as_ref()))?;
    if let Some(i) = first_diff(&got, &col) {
        return Err(Fail::new(format!("ffi:row:{}", ty.family()), format!("imported row {} is {:?}, exported {:?}", i, got.get(i).map(|v| v.short()), col.get(i).map(|v| v.short()))));
    }
    if let Some(o) = &original {
        ensure!(no_panic("eq", || back.as_ref() == o.as_ref())?, format!("ffi:eq:{}", ty.family()), "imported array != exported array");
    }
    drop(original);
    let again = no_panic("extract-after-drop", || extract(back.as_ref()))?;
    ensure!(first_diff(&again, &col).is_none(), format!("ffi:use-after-free:{}", ty.family()), "imported array changed after the exporter dropped its handles");
    // released exactly once: after the last handle is dropped only the retained clones own the exporter's allocations
    drop(again);
    drop(got);
    drop(back);
    let mut per_alloc: std::collections::HashMap<usize, usize> = std::collections::HashMap::new();
    for b in &held {
        *per_alloc.entry(b.data_ptr().as_ptr() as usize).or_default() += 1;
    }
    for b in &held {
        let mine = per_alloc[&(b.data_ptr().as_ptr() as usize)];
        let sc = b.strong_count();
        ensure!(sc <= mine, format!("ffi:leak:{}", ty.family()), "an allocation of {} bytes of the exported array is still owned by {} handle(s) besides the {} retained clone(s) after exporter, importer and FFI structs were dropped (never released)", b.len(), sc - mine, mine);
    }
    if n >= 3 && col.iter().any(|v| v.is_null()) {
        c.nontrivial();
    }
    c.evals(3);
    Ok(())
}

/// reproductions of fixed findings
fn sub_findings(c: &mut Case) -> CaseResult {
    let _ = c.tape.u64();
    c.nontrivial();
    c.describe(json!({"finding_case": c.index}));
    match c.index {
        // fixed 6136842 (F2): Buffer::into_vec leaked the pool reservation of a claimed buffer
        0 => {
            let pool = TrackingMemoryPool::default();
            let b = Buffer::from_vec(vec![1u8; 32]);
            b.claim(&pool);
            ensure!(pool.used() == 32, "pool:claim", "claim did not reserve");
            let v = b.into_vec::<u8>();
            drop(v);
            ensure!(pool.used() == 0, "into_vec:reservation-leak", "pool still reports {} bytes after claim -> into_vec -> drop", pool.used());
        }
        1 => {
            let pool = TrackingMemoryPool::default();
            let a = UInt8Array::from(vec![1u8; 32]);
            a.claim(&pool);
            let b = a.into_builder();
            drop(b);
            ensure!(pool.used() == 0, "into_vec:reservation-leak", "pool still reports {} bytes after claim -> into_builder -> drop", pool.used());
        }
        _ => {}
    }
    Ok(())
}

fn main() {
    Check::new(
        "C16",
        "exploration",
        "cases = operation histories (4..60 ops) over live handles (Buffer, BooleanBuffer, UInt8Array, ArrayData, exported FFI struct, MutableBuffer, Vec) referring to regions of four owner kinds (Vec, MutableBuffer, custom Allocation that scribbles 0xDD and counts releases, bytes::Bytes): new/clone/slice/wrap/unwrap/into_mutable/into_vec/unary_mut/into_builder/bit-mask &=/export/import/claim(pool a|b)/shrink_to_fit/drop, clones and drops optionally on a worker thread, final drops in generated order; invariant checked after every step. Second sub-check: C Data Interface round trip of arrays of every type/layout (equal values and validity, nothing changes when the exporter drops its handles, no owner of any exported buffer is left once every handle and FFI struct is dropped). Non-trivial history = a region shared by >=3 handles, an in-place attempt while shared and an in-place success when unique.",
    )
    .assume("in-place operations may decline for any reason; only success on shared memory (observed as another live handle changing) is a violation")
    .assume("threads are sequenced by join (the harness owns the order): instruction-level interleavings of Arc/Mutex operations are outside this technique (DESIGN §5)")
    .assume("pool accounting is checked at quiescent points (after each completed operation)")
    .sub(Sub::new("findings", 0, 0, sub_findings).enumerate(2, 2))
    .sub(Sub::new("history", 25000, 600000, sub_history).tape(64, 2000).require(&["region-shared-by>=3", "in-place-attempt-while-shared", "in-place-success-when-unique", "ffi-export-import"]))
    .sub(Sub::new("ffi_types", 8000, 200000, sub_ffi_types).tape(256, 6000))
    .run()
}
