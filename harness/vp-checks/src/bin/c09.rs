//! C09 — checked constructors never accept a malformed array layout.
//! Near-valid layouts: a valid realised array is decomposed into (type, len, offset, validity, buffers, children),
//! one or two layout mutations are applied, and the result is fed to every validating entry point.
//! Oracle: implementation accepts  =>  the independent validator accepts (and a bounded accessor walk does not panic).
use arrow_array::types::*;
use arrow_array::*;
use arrow_buffer::{BooleanBuffer, Buffer, NullBuffer, OffsetBuffer, RunEndBuffer, ScalarBuffer};
use arrow_cast::display::{ArrayFormatter, FormatOptions};
use arrow_data::{ArrayData, ArrayDataBuilder};
use arrow_schema::{DataType, Field, Fields, Schema, UnionFields, UnionMode};
use serde_json::json;
use std::sync::Arc;
use vp_engine::ensure;
use vp_engine::extract::extract;
use vp_engine::model::*;
use vp_engine::r#gen::*;
use vp_engine::realise::*;
use vp_engine::runner::*;
use vp_engine::tape::Tape;
use vp_engine::validate::{spec_validate, spec_validate_layout};

#[derive(Clone)]
struct Parts {
    dt: DataType,
    len: usize,
    offset: usize,
    /// validity bitmap positioned at `offset` (as ArrayData::try_new expects)
    nullbuf: Option<Buffer>,
    null_count: Option<usize>,
    buffers: Vec<Buffer>,
    children: Vec<ArrayData>,
}

fn getb(d: &[u8], i: usize) -> bool {
    // out-of-range (after an earlier mutation) reads as "valid"
    d.get(i / 8).map(|b| b >> (i % 8) & 1 == 1).unwrap_or(true)
}

fn aligned(bytes: &[u8]) -> Buffer {
    Buffer::from_slice_ref(bytes)
}

fn parts_of(d: &ArrayData) -> Parts {
    let nullbuf = d.nulls().map(|n| {
        let total = d.offset() + d.len();
        let mut v = vec![0xA5u8; total.div_ceil(8)];
        for i in 0..d.len() {
            let p = d.offset() + i;
            if n.is_valid(i) {
                v[p / 8] |= 1 << (p % 8)
            } else {
                v[p / 8] &= !(1 << (p % 8))
            }
        }
        aligned(&v)
    });
    Parts { dt: d.data_type().clone(), len: d.len(), offset: d.offset(), nullbuf, null_count: None, buffers: d.buffers().to_vec(), children: d.child_data().to_vec() }
}

#[derive(Clone, Copy, Debug, PartialEq)]
enum Entry {
    TryNew,
    Builder,
    BuilderAlign,
    UncheckedThenValidateFull,
}
const ENTRIES: [Entry; 4] = [Entry::TryNew, Entry::Builder, Entry::BuilderAlign, Entry::UncheckedThenValidateFull];

enum Outcome {
    Accepted(ArrayData),
    RejectedErr(String),
    RejectedPanic(String),
}

fn builder_of(p: &Parts) -> ArrayDataBuilder {
    let mut b = ArrayData::builder(p.dt.clone()).len(p.len).offset(p.offset).buffers(p.buffers.clone()).child_data(p.children.clone()).null_bit_buffer(p.nullbuf.clone());
    if let Some(n) = p.null_count {
        b = b.null_count(n);
    }
    b
}

fn feed(p: &Parts, e: Entry) -> Outcome {
    let r = catch(|| -> Result<ArrayData, String> {
        match e {
            Entry::TryNew => ArrayData::try_new(p.dt.clone(), p.len, p.nullbuf.clone(), p.offset, p.buffers.clone(), p.children.clone()).map_err(|e| e.to_string()),
            Entry::Builder => builder_of(p).build().map_err(|e| e.to_string()),
            Entry::BuilderAlign => builder_of(p).align_buffers(true).build().map_err(|e| e.to_string()),
            Entry::UncheckedThenValidateFull => {
                // documented use: build without validation, then validate explicitly before any accessor is used
                let d = unsafe { builder_of(p).build_unchecked() };
                d.validate_full().map_err(|e| e.to_string())?;
                Ok(d)
            }
        }
    });
    match r {
        Ok(Ok(d)) => Outcome::Accepted(d),
        Ok(Err(e)) => Outcome::RejectedErr(e),
        Err(pn) => Outcome::RejectedPanic(format!("{} at {}", pn.msg, pn.loc)),
    }
}

/// bounded exercise of safe accessors and kernels on an accepted array
fn accessor_walk(d: &ArrayData, what: &str) -> CaseResult {
    // bounded: layouts without buffers (Null, empty structs) are valid at any length
    if d.len() > 1 << 16 {
        return Ok(());
    }
    let arr = match catch(|| make_array(d.clone())) {
        Ok(a) => a,
        Err(p) => {
            // known finding F1 (struct offset convention): any layout containing a struct node below an offset
            let has_struct = {
                fn any_struct(dt: &DataType) -> bool {
                    match dt {
                        DataType::Struct(_) | DataType::Map(..) => true,
                        DataType::List(f) | DataType::LargeList(f) | DataType::ListView(f) | DataType::LargeListView(f) | DataType::FixedSizeList(f, _) => any_struct(f.data_type()),
                        DataType::Union(uf, _) => uf.iter().any(|(_, f)| any_struct(f.data_type())),
                        DataType::Dictionary(_, v) => any_struct(v),
                        DataType::RunEndEncoded(_, v) => any_struct(v.data_type()),
                        _ => false,
                    }
                }
                any_struct(d.data_type())
            };
            if has_struct && p.msg.contains("end <= self.len()") {
                return Err(Fail::new("make_array:struct:sliced-arraydata", format!("make_array panics on a layout validate_full accepts (struct child sliced twice): {} at {}", p.msg, p.loc)));
            }
            return Err(Fail::new(format!("{}:make_array:{}", what, p.sig()), format!("{}: make_array panicked at {}: {}", what, p.loc, p.msg)));
        }
    };
    no_panic(&format!("{}:walk", what), || {
        let _ = extract(arr.as_ref());
        if let Ok(f) = ArrayFormatter::try_new(arr.as_ref(), &FormatOptions::default()) {
            for i in 0..arr.len() {
                let _ = f.value(i).try_to_string();
            }
        }
        let n = arr.len();
        let all = BooleanArray::from(vec![true; n]);
        let _ = arrow_select::filter::filter(arr.as_ref(), &all);
        let idx = UInt32Array::from((0..n as u32).rev().collect::<Vec<_>>());
        let _ = arrow_select::take::take(arr.as_ref(), &idx, None);
        let _ = arrow_select::concat::concat(&[arr.as_ref(), arr.as_ref()]);
        let _ = arr.as_ref() == arr.as_ref();
        if n > 1 {
            let s = arr.slice(1, n - 1);
            let _ = extract(s.as_ref());
        }
        let _ = arr.logical_nulls();
    })
}

fn reason_class(m: &str) -> String {
    let m = m.split("]: ").last().unwrap_or(m);
    m.chars().filter(|c| !c.is_ascii_digit()).take(36).collect()
}

// ------------------------------------------------------------------------------------------------
// mutations
fn le(v: i128, w: usize) -> Vec<u8> {
    v.to_le_bytes()[..w].to_vec()
}
fn rd(b: &[u8], i: usize, w: usize) -> i128 {
    let mut x = [0u8; 16];
    x[..w].copy_from_slice(&b[i * w..(i + 1) * w]);
    let v = i128::from_le_bytes(x);
    let sh = 128 - 8 * w as u32;
    (v << sh) >> sh
}
fn with_elem(buf: &Buffer, i: usize, w: usize, v: i128) -> Buffer {
    let mut b = buf.as_slice().to_vec();
    if (i + 1) * w <= b.len() {
        b[i * w..(i + 1) * w].copy_from_slice(&le(v, w));
    }
    aligned(&b)
}
fn key_width(dt: &DataType) -> usize {
    dt.primitive_width().unwrap_or(4)
}

/// valid slot indices (relative) of the node
fn valid_slots(p: &Parts) -> Vec<usize> {
    (0..p.len).filter(|i| p.nullbuf.as_ref().map(|b| getb(b.as_slice(), p.offset + i)).unwrap_or(true)).collect()
}

/// Apply one mutation; returns (kind, description) or None when no mutation of the drawn kind applies.
fn mutate(t: &mut Tape, p: &mut Parts, strict: bool, excluded: &mut Vec<String>) -> Option<(String, String)> {
    use DataType as D;
    let generic = t.chance(110);
    if generic {
        match t.below(10) {
            0 => {
                let k = 1 + t.below(70);
                p.len += k;
                return Some(("len-increase".into(), format!("len += {}", k)));
            }
            1 => {
                p.len = usize::MAX - p.offset - t.below(3) + 1 - 1;
                if p.offset == 0 {
                    p.offset = 1 + t.below(8);
                }
                return Some(("len-overflow".into(), format!("len = {} offset = {}", p.len, p.offset)));
            }
            2 => {
                let k = 1 + t.below(70);
                p.offset += k;
                return Some(("offset-increase".into(), format!("offset += {}", k)));
            }
            3 if !p.buffers.is_empty() => {
                let i = t.below(p.buffers.len());
                let cut = 1 + t.below(8);
                let b = &p.buffers[i];
                if b.len() >= cut {
                    p.buffers[i] = b.slice_with_length(0, b.len() - cut);
                    return Some(("buffer-short".into(), format!("buffer {} shortened by {} bytes", i, cut)));
                }
                None
            }
            4 if !p.buffers.is_empty() => {
                let i = t.below(p.buffers.len());
                p.buffers.remove(i);
                Some(("buffer-missing".into(), format!("buffer {} removed", i)))
            }
            5 => {
                p.buffers.push(aligned(&[0u8; 16]));
                Some(("buffer-extra".into(), "extra buffer appended".into()))
            }
            6 if !p.buffers.is_empty() => {
                let i = t.below(p.buffers.len());
                let k = 1 + t.below(7);
                let mut v = vec![0u8; k];
                v.extend_from_slice(p.buffers[i].as_slice());
                p.buffers[i] = aligned(&v).slice(k);
                Some(("buffer-misaligned".into(), format!("buffer {} base pointer misaligned by {}", i, k)))
            }
            7 if p.nullbuf.is_some() => {
                let b = p.nullbuf.clone().unwrap();
                let cut = 1 + t.below(3);
                if b.len() >= cut {
                    p.nullbuf = Some(b.slice_with_length(0, b.len() - cut));
                    return Some(("validity-short".into(), format!("validity bitmap shortened by {} bytes", cut)));
                }
                None
            }
            8 if p.nullbuf.is_some() && p.len <= 1 << 16 => {
                let actual = (0..p.len).filter(|i| !getb(p.nullbuf.as_ref().unwrap().as_slice(), p.offset + i)).count();
                let wrong = if t.bool() { actual + 1 + t.below(3) } else { actual.saturating_sub(1 + t.below(2)) };
                if wrong != actual {
                    p.null_count = Some(wrong);
                    return Some(("null-count-wrong".into(), format!("explicit null_count {} (actual {})", wrong, actual)));
                }
                None
            }
            9 if !p.children.is_empty() => {
                let i = t.below(p.children.len());
                match t.below(3) {
                    0 => {
                        // child of a different type
                        let other: ArrayRef = if p.children[i].data_type() == &D::Int8 { Arc::new(Int16Array::from(vec![0i16; p.children[i].len()])) } else { Arc::new(Int8Array::from(vec![0i8; p.children[i].len()])) };
                        p.children[i] = other.to_data();
                        Some(("child-wrong-type".into(), format!("child {} replaced by an array of another type", i)))
                    }
                    1 => {
                        p.children.remove(i);
                        Some(("child-missing".into(), format!("child {} removed", i)))
                    }
                    _ => {
                        let extra = p.children[i].clone();
                        p.children.push(extra);
                        Some(("child-extra".into(), "extra child".into()))
                    }
                }
            }
            _ => None,
        }
    } else {
        // type-directed single-value corruption (not after a length/offset blow-up by an earlier mutation)
        if p.len > 1 << 16 || p.offset > 1 << 16 {
            return None;
        }
        let valid = valid_slots(p);
        match p.dt.clone() {
            D::Utf8 | D::Binary | D::LargeUtf8 | D::LargeBinary | D::List(_) | D::LargeList(_) | D::Map(..) => {
                let w = if matches!(p.dt, D::LargeUtf8 | D::LargeBinary | D::LargeList(_)) { 8 } else { 4 };
                if p.buffers.is_empty() || p.buffers[0].len() < (p.offset + p.len + 1) * w {
                    return None;
                }
                let limit = match &p.dt {
                    D::Utf8 | D::Binary | D::LargeUtf8 | D::LargeBinary => p.buffers.get(1).map(|b| b.len()).unwrap_or(0),
                    _ => p.children.first().map(|c| c.len()).unwrap_or(0),
                } as i128;
                let k = t.below(p.len + 1);
                let i = p.offset + k;
                let cur = rd(p.buffers[0].as_slice(), i, w);
                let prev = if k > 0 { rd(p.buffers[0].as_slice(), i - 1, w) } else { 0 };
                let (v, kind) = match t.below(6) {
                    0 => (-1 - t.below(5) as i128, "offset-negative"),
                    1 if k > 0 && prev > 0 => (prev - 1, "offset-non-monotone"),
                    2 => (limit + 1 + t.below(9) as i128, "offset-beyond-values"),
                    3 => (if w == 4 { i32::MAX as i128 } else { i64::MAX as i128 }, "offset-huge"),
                    4 if matches!(p.dt, D::Utf8 | D::LargeUtf8) && k < p.len => {
                        // move a boundary into the middle of a multi-byte character, if there is one
                        let vals = p.buffers[1].as_slice();
                        let next = rd(p.buffers[0].as_slice(), i + 1, w);
                        let mut hit = None;
                        for pos in (cur.max(0) as usize + 1)..(next.max(0) as usize).min(vals.len()) {
                            if vals[pos] & 0xC0 == 0x80 {
                                hit = Some(pos as i128);
                                break;
                            }
                        }
                        match hit {
                            Some(h) if k + 1 <= p.len => {
                                // set offset k+1?? no: split slot k at h by moving offsets[k+1]... keep monotone: set offsets[k+1] = h only if k+1 < len or h <= last
                                p.buffers[0] = with_elem(&p.buffers[0], i + 1, w, h);
                                return Some(("utf8-boundary-split".into(), format!("offset {} moved to {} (inside a multi-byte character)", k + 1, h)));
                            }
                            _ => return None,
                        }
                    }
                    _ => (cur + 1000 + limit, "offset-beyond-values"),
                };
                if v == cur {
                    return None;
                }
                p.buffers[0] = with_elem(&p.buffers[0], i, w, v);
                Some((kind.into(), format!("offsets[{}] {} -> {}", k, cur, v)))
            }
            D::Dictionary(k, _) => {
                let w = key_width(&k);
                let dict_len = p.children.first().map(|c| c.len()).unwrap_or(0) as i128;
                if valid.is_empty() || p.buffers.is_empty() || p.buffers[0].len() < (p.offset + p.len) * w {
                    return None;
                }
                let s = *t.pick(&valid);
                let signed = matches!(*k, D::Int8 | D::Int16 | D::Int32 | D::Int64);
                let max: i128 = if signed { (1i128 << (8 * w - 1)) - 1 } else { (1i128 << (8 * w)) - 1 };
                let (v, kind) = match t.below(3) {
                    0 if dict_len <= max => (dict_len, "key-eq-dict-len"),
                    1 if signed => (-1, "key-negative"),
                    _ if max >= dict_len => (max, "key-max"),
                    _ => return None,
                };
                p.buffers[0] = with_elem(&p.buffers[0], p.offset + s, w, v);
                Some((kind.into(), format!("key of valid slot {} set to {} (dictionary has {} values)", s, v, dict_len)))
            }
            D::Utf8View | D::BinaryView => {
                if valid.is_empty() || p.buffers.is_empty() || p.buffers[0].len() < (p.offset + p.len) * 16 {
                    return None;
                }
                let s = *t.pick(&valid);
                let i = p.offset + s;
                let mut b = p.buffers[0].as_slice().to_vec();
                let v = &mut b[i * 16..(i + 1) * 16];
                let l = u32::from_le_bytes([v[0], v[1], v[2], v[3]]) as usize;
                let nbuf = p.buffers.len() - 1;
                let kind = if l <= 12 {
                    match t.below(3) {
                        0 if l < 12 => {
                            v[4 + l] = 0x41;
                            "view-inline-padding"
                        }
                        1 => {
                            v[0..4].copy_from_slice(&13u32.to_le_bytes());
                            v[8..12].copy_from_slice(&(nbuf as u32 + t.below(3) as u32).to_le_bytes());
                            "view-buffer-index"
                        }
                        _ if matches!(p.dt, D::Utf8View) && l > 0 => {
                            v[4] = 0xFF;
                            "view-inline-invalid-utf8"
                        }
                        _ => return None,
                    }
                } else {
                    match t.below(4) {
                        0 => {
                            v[8..12].copy_from_slice(&(nbuf as u32 + t.below(3) as u32).to_le_bytes());
                            "view-buffer-index"
                        }
                        1 => {
                            let bi = u32::from_le_bytes([v[8], v[9], v[10], v[11]]) as usize;
                            let bl = p.buffers.get(bi + 1).map(|x| x.len()).unwrap_or(0) as u32;
                            v[12..16].copy_from_slice(&(bl.saturating_sub(l as u32) + 1 + t.below(4) as u32).to_le_bytes());
                            "view-offset-beyond-buffer"
                        }
                        2 => {
                            v[4] ^= 0x55;
                            "view-prefix-mismatch"
                        }
                        _ => {
                            v[0..4].copy_from_slice(&(u32::MAX - t.below(9) as u32).to_le_bytes());
                            "view-length-huge"
                        }
                    }
                };
                p.buffers[0] = aligned(&b);
                Some((kind.into(), format!("view of valid slot {} corrupted", s)))
            }
            D::ListView(_) | D::LargeListView(_) => {
                let w = if matches!(p.dt, D::LargeListView(_)) { 8 } else { 4 };
                if p.len == 0 || p.buffers.len() < 2 || p.buffers[0].len() < (p.offset + p.len) * w || p.buffers[1].len() < (p.offset + p.len) * w {
                    return None;
                }
                let s = t.below(p.len);
                let i = p.offset + s;
                let child_len = p.children.first().map(|c| c.len()).unwrap_or(0) as i128;
                let (bi, v, kind) = match t.below(4) {
                    0 => (0, -1, "listview-offset-negative"),
                    1 => (0, child_len + 1 + t.below(5) as i128, "listview-offset-beyond-child"),
                    2 => (1, -1, "listview-size-negative"),
                    _ => (1, child_len + 1 + t.below(5) as i128, "listview-size-beyond-child"),
                };
                p.buffers[bi] = with_elem(&p.buffers[bi], i, w, v);
                Some((kind.into(), format!("slot {}: {} set to {}", s, if bi == 0 { "offset" } else { "size" }, v)))
            }
            D::RunEndEncoded(r, _) => {
                if p.children.len() != 2 || p.children[0].len() == 0 {
                    return None;
                }
                let re = p.children[0].clone();
                let w = key_width(r.data_type());
                let nruns = re.len();
                let k = t.below(nruns);
                let buf = re.buffers()[0].clone();
                let base = re.offset();
                let cur = rd(buf.as_slice(), base + k, w);
                let prev = if k > 0 { rd(buf.as_slice(), base + k - 1, w) } else { 0 };
                let (v, kind) = match t.below(4) {
                    0 => (prev, "run-end-not-increasing"),
                    1 => (0 - t.below(3) as i128, "run-end-non-positive"),
                    2 if k + 1 == nruns && (p.offset + p.len) > 0 => ((p.offset + p.len) as i128 - 1, "run-end-last-too-small"),
                    3 => {
                        // values child of a different length
                        let vals = p.children[1].clone();
                        if vals.len() == 0 {
                            return None;
                        }
                        p.children[1] = vals.slice(0, vals.len() - 1);
                        return Some(("run-children-length".into(), "values child one shorter than run ends".into()));
                    }
                    _ => return None,
                };
                if v == cur || (kind == "run-end-last-too-small" && v > prev && v >= (p.offset + p.len) as i128) {
                    return None;
                }
                let nb = with_elem(&buf, base + k, w, v);
                let nre = ArrayData::builder(re.data_type().clone()).len(re.len()).offset(re.offset()).add_buffer(nb).build().ok()?;
                p.children[0] = nre;
                Some((kind.into(), format!("run end {} {} -> {}", k, cur, v)))
            }
            D::Union(uf, mode) => {
                if p.len == 0 || p.buffers.is_empty() || p.buffers[0].len() < p.offset + p.len {
                    return None;
                }
                // (fixed finding F3a: union type ids / dense offsets are validated now; the mutation is always generated)
                let s = t.below(p.len);
                let declared: Vec<i8> = uf.iter().map(|x| x.0).collect();
                if mode == UnionMode::Dense && t.bool() && p.buffers.len() > 1 {
                    let v = if t.bool() { -1 } else { 1_000_000 };
                    p.buffers[1] = with_elem(&p.buffers[1], p.offset + s, 4, v);
                    return Some(("union-dense-offset".into(), format!("dense offset of slot {} set to {}", s, v)));
                }
                let bad = (0..=127i8).find(|x| !declared.contains(x)).unwrap_or(127);
                p.buffers[0] = with_elem(&p.buffers[0], p.offset + s, 1, bad as i128);
                Some(("union-type-id".into(), format!("type id of slot {} set to undeclared {}", s, bad)))
            }
            D::Struct(_) | D::FixedSizeList(..) => {
                if p.children.is_empty() || p.len == 0 {
                    return None;
                }
                let i = t.below(p.children.len());
                let ch = p.children[i].clone();
                let per = if let D::FixedSizeList(_, n) = &p.dt { *n as usize } else { 1 };
                if per == 0 {
                    return None;
                }
                let need = (p.offset + p.len) * per;
                if ch.len() < need || need == 0 {
                    return None;
                }
                // child too short for offset+len
                let short = need - 1 - t.below(need.min(3));
                if p.offset > 0 && short >= p.len * per {
                    // known finding F3b: the child-length check ignores `offset`
                    if !strict {
                        excluded.push("F3b-child-length-ignores-offset".into());
                        return None;
                    }
                }
                p.children[i] = ch.slice(0, short);
                Some(("child-too-short".into(), format!("child {} has {} slots, needs (offset {} + len {}) * {}", i, short, p.offset, p.len, per)))
            }
            D::Boolean | D::FixedSizeBinary(_) | D::Null => None,
            _ => None,
        }
    }
}

// ------------------------------------------------------------------------------------------------
fn judge(c: &mut Case, p: &Parts, mutated: bool, kinds: &str, family: &str) -> CaseResult {
    for e in ENTRIES {
        let out = no_panic("feed", || feed(p, e))?;
        c.eval();
        match out {
            Outcome::Accepted(d) => {
                c.class(if mutated { "outcome:accepted" } else { "control:accepted" });
                if let Err(reason) = spec_validate_layout(&d) {
                    return Err(Fail::new(
                        format!("accepted-invalid:{}:{}", family, reason_class(&reason)),
                        format!("{:?} accepted a layout the independent validator rejects ({}): mutations [{}]", e, reason, kinds),
                    ));
                }
                accessor_walk(&d, &format!("accepted:{}", family))?;
            }
            Outcome::RejectedErr(m) => {
                c.class("outcome:rejected-err");
                if !mutated {
                    // a valid layout must be accepted (guards against a validator that rejects everything);
                    // tolerated: validate()'s validity-bitmap size rule uses the values offset (see vp_engine::validate::check_valid)
                    if m.contains("null_bit_buffer size too small") {
                        continue;
                    }
                    return Err(Fail::new(format!("control-rejected:{}:{}", family, reason_class(&m)), format!("{:?} rejected an unmutated valid layout: {}", e, m)));
                }
            }
            Outcome::RejectedPanic(m) => {
                c.class("outcome:rejected-panic");
                if !mutated {
                    return Err(Fail::new(format!("control-panic:{}", family), format!("{:?} panicked on an unmutated valid layout: {}", e, m)));
                }
            }
        }
    }
    Ok(())
}

pub fn sub_arraydata(c: &mut Case) -> CaseResult {
    let mut cfg = TypeCfg::all();
    cfg.depth = 2;
    let ty = gen_type(&mut c.tape, &cfg);
    let n = match c.tape.below(6) {
        0 => 0,
        1 => 1,
        _ => 2 + c.tape.below(30),
    };
    let col = gen_column(&mut c.tape, &ty, true, n, &ValCfg::default());
    let lay = Lay { fancy: true, dict_value_nulls: true, slice_chance: 100 };
    let arr = realise(&mut c.tape, &ty, &col, true, &lay);
    // also exercise ArrayData-level slicing (offset > 0 on the node) for types where it is sound (not struct: F1)
    let mut data = arr.to_data();
    // known finding F1: ArrayData::slice of a Struct node slices the children AND keeps the offset, which
    // StructArray::from(ArrayData) applies again -> make_array panics. Types containing a struct are therefore not
    // sliced at the ArrayData level here (excluded by construction, counted); repro in the `findings` sub-check.
    // (finding F1 - ArrayData::slice of struct nodes - was fixed in b1d112f: struct types are sliced here as well)
    if n >= 2 && c.tape.chance(90) {
        let o = 1 + c.tape.below(n - 1);
        data = data.slice(o, n - o);
        c.class("node-offset>0");
    }
    let family = ty.family();
    c.class(format!("type:{}", family));
    let base = parts_of(&data);
    // control
    let control = c.tape.chance(40);
    let mut p = base.clone();
    let mut kinds: Vec<String> = vec![];
    let mut descs: Vec<String> = vec![];
    let mut excluded: Vec<String> = vec![];
    if !control {
        let nm = if c.tape.chance(40) { 2 } else { 1 };
        for _ in 0..nm {
            let strict = c.strict;
            let before = p.clone();
            // a panic inside the mutation operator itself (e.g. indexing a buffer an earlier mutation removed) = no mutation
            match catch(|| mutate(&mut c.tape, &mut p, strict, &mut excluded)) {
                Ok(Some((k, d))) => {
                    kinds.push(k);
                    descs.push(d);
                }
                Ok(None) => {}
                Err(_) => p = before,
            }
        }
    }
    for k in excluded {
        c.exclude(&k);
    }
    for k in &kinds {
        c.class(format!("mut:{}", k));
    }
    let mutated = !kinds.is_empty();
    c.describe(json!({"type": ty.arrow().to_string(), "len": data.len(), "offset": data.offset(), "mutations": descs}));
    if mutated && kinds.len() == 1 && data.len() >= 2 && spec_validate_layout(&unsafe { builder_of(&p).build_unchecked_or_none() }.unwrap_or(data.clone())).is_err() {
        c.nontrivial();
    }
    judge(c, &p, mutated, &kinds.join(","), family)
}

trait BuildOrNone {
    unsafe fn build_unchecked_or_none(self) -> Option<ArrayData>;
}
impl BuildOrNone for ArrayDataBuilder {
    /// build without validation for classification only; None if construction itself panics (e.g. validity bitmap too short)
    unsafe fn build_unchecked_or_none(self) -> Option<ArrayData> {
        catch(|| unsafe { self.build_unchecked() }).ok()
    }
}

// ------------------------------------------------------------------------------------------------
/// typed constructors fed with near-valid components
fn sub_typed(c: &mut Case) -> CaseResult {
    let t = &mut c.tape;
    let which = t.below(12);
    let n = 1 + t.below(12);
    let mutate_it = !t.chance(40);
    let mut what = String::new();
    // each arm returns Option<ArrayRef> when accepted
    let res: Result<Result<Option<ArrayRef>, String>, Panicked> = match which {
        0 => {
            // OffsetBuffer::new + GenericByteArray::try_new
            let mut offs: Vec<i32> = vec![0];
            for _ in 0..n {
                let l = offs.last().unwrap() + t.below(4) as i32;
                offs.push(l);
            }
            let mut values = vec![b'a'; *offs.last().unwrap() as usize];
            let utf8 = t.bool();
            if mutate_it {
                match t.below(4) {
                    0 => {
                        let k = 1 + t.below(n);
                        offs[k] = offs[k - 1] - 1 - t.below(2) as i32;
                        what = "offsets non-monotone".into();
                    }
                    1 => {
                        let last = offs.len() - 1;
                        offs[last] += 1 + t.below(4) as i32;
                        what = "last offset beyond values".into();
                    }
                    2 => {
                        offs[0] = -1;
                        what = "negative first offset".into();
                    }
                    _ => {
                        if !values.is_empty() && utf8 {
                            let k = t.below(values.len());
                            values[k] = 0xFF;
                            what = "invalid utf8 byte".into();
                        }
                    }
                }
            }
            catch(|| {
                let ob = OffsetBuffer::new(ScalarBuffer::from(offs.clone()));
                if utf8 {
                    StringArray::try_new(ob, Buffer::from_vec(values.clone()), None).map(|a| Some(Arc::new(a) as ArrayRef)).map_err(|e| e.to_string())
                } else {
                    BinaryArray::try_new(ob, Buffer::from_vec(values.clone()), None).map(|a| Some(Arc::new(a) as ArrayRef)).map_err(|e| e.to_string())
                }
            })
        }
        1 => {
            // DictionaryArray::try_new
            let dict_len = 1 + t.below(5);
            let mut keys: Vec<i8> = (0..n).map(|_| t.below(dict_len) as i8).collect();
            let nulls: Vec<bool> = (0..n).map(|_| !t.chance(60)).collect();
            if mutate_it {
                let valid: Vec<usize> = (0..n).filter(|i| nulls[*i]).collect();
                if !valid.is_empty() {
                    let s = *t.pick(&valid);
                    keys[s] = *t.pick(&[dict_len as i8, -1, 127]);
                    what = format!("key {} of a valid slot with {} dictionary values", keys[s], dict_len);
                }
            }
            let values: ArrayRef = Arc::new(Int32Array::from((0..dict_len as i32).collect::<Vec<_>>()));
            catch(|| {
                let ka = Int8Array::new(keys.clone().into(), Some(NullBuffer::from(nulls.clone())));
                DictionaryArray::<Int8Type>::try_new(ka, values.clone()).map(|a| Some(Arc::new(a) as ArrayRef)).map_err(|e| e.to_string())
            })
        }
        2 => {
            // RunEndBuffer::new / RunArray::try_new
            let mut ends: Vec<i32> = vec![];
            let mut e = 0;
            for _ in 0..n {
                e += 1 + t.below(3) as i32;
                ends.push(e);
            }
            let total = e as usize;
            let mut vals_len = n;
            if mutate_it {
                match t.below(4) {
                    0 => {
                        let k = t.below(n);
                        ends[k] = if k > 0 { ends[k - 1] } else { 0 };
                        what = "run end not increasing / zero".into();
                    }
                    1 => {
                        ends[0] = -1;
                        what = "negative run end".into();
                    }
                    2 => {
                        vals_len = n + 1;
                        what = "values longer than run ends".into();
                    }
                    _ => {
                        vals_len = n.saturating_sub(1);
                        what = "values shorter than run ends".into();
                    }
                }
            }
            let use_buffer = t.bool();
            catch(|| {
                if use_buffer && vals_len == n {
                    let len = total;
                    let _b = RunEndBuffer::new(ScalarBuffer::from(ends.clone()), 0, len);
                    Ok(None)
                } else {
                    let re = Int32Array::from(ends.clone());
                    let vals = Int32Array::from((0..vals_len as i32).collect::<Vec<_>>());
                    RunArray::<Int32Type>::try_new(&re, &vals).map(|a| Some(Arc::new(a) as ArrayRef)).map_err(|e| e.to_string())
                }
            })
        }
        3 => {
            // UnionArray::try_new
            let dense = t.bool();
            let uf = UnionFields::try_new(vec![1i8, 4], vec![Field::new("a", DataType::Int32, true), Field::new("b", DataType::Utf8, true)]).unwrap();
            let mut ids: Vec<i8> = (0..n).map(|_| if t.bool() { 1 } else { 4 }).collect();
            let (ca, cb): (usize, usize) = if dense { (ids.iter().filter(|x| **x == 1).count(), ids.iter().filter(|x| **x == 4).count()) } else { (n, n) };
            let mut offs: Vec<i32> = vec![];
            let (mut ia, mut ib) = (0, 0);
            for id in &ids {
                if *id == 1 {
                    offs.push(ia);
                    ia += 1;
                } else {
                    offs.push(ib);
                    ib += 1;
                }
            }
            let (mut la, lb) = (ca, cb);
            if mutate_it {
                match t.below(4) {
                    0 => {
                        let s = t.below(n);
                        ids[s] = *t.pick(&[0i8, 2, 3, 5, -1]);
                        what = format!("type id {} not declared", ids[s]);
                    }
                    1 if dense => {
                        let s = t.below(n);
                        offs[s] = if t.bool() { -1 } else { (ca.max(cb) + t.below(3)) as i32 };
                        what = format!("dense offset {} out of range", offs[s]);
                    }
                    2 if !dense => {
                        la = n - 1;
                        what = "sparse child shorter than the union".into();
                    }
                    _ => {}
                }
            }
            let a: ArrayRef = Arc::new(Int32Array::from(vec![7; la]));
            let b: ArrayRef = Arc::new(StringArray::from(vec!["x"; lb]));
            catch(|| UnionArray::try_new(uf.clone(), ids.clone().into(), if dense { Some(offs.clone().into()) } else { None }, vec![a.clone(), b.clone()]).map(|a| Some(Arc::new(a) as ArrayRef)).map_err(|e| e.to_string()))
        }
        4 => {
            // GenericByteViewArray::try_new
            let strs: Vec<String> = (0..n).map(|i| if t.bool() { format!("s{}", i) } else { format!("a longer string number {:04}", i) }).collect();
            let mut buf: Vec<u8> = vec![];
            let mut views: Vec<u128> = vec![];
            for s in &strs {
                let off = buf.len() as u32;
                if s.len() > 12 {
                    buf.extend_from_slice(s.as_bytes());
                }
                views.push(arrow_array::builder::make_view(s.as_bytes(), 0, off));
            }
            if mutate_it {
                let s = t.below(n);
                let mut v = views[s].to_le_bytes();
                let long = strs[s].len() > 12;
                match t.below(4) {
                    0 if long => {
                        v[8..12].copy_from_slice(&1u32.to_le_bytes());
                        what = "buffer index out of range".into();
                    }
                    1 if long => {
                        v[12..16].copy_from_slice(&(buf.len() as u32).to_le_bytes());
                        what = "offset beyond buffer".into();
                    }
                    2 if long => {
                        v[5] ^= 0x20;
                        what = "prefix mismatch".into();
                    }
                    _ if !long => {
                        v[15] = 1;
                        what = "inline padding not zero".into();
                    }
                    _ => {}
                }
                views[s] = u128::from_le_bytes(v);
            }
            catch(|| StringViewArray::try_new(views.clone().into(), vec![Buffer::from_vec(buf.clone())], None).map(|a| Some(Arc::new(a) as ArrayRef)).map_err(|e| e.to_string()))
        }
        5 => {
            // StructArray::try_new: lengths / nullability
            let nullable_child = t.bool();
            let mut l2 = n;
            let child_nulls: Vec<bool> = (0..n).map(|_| !t.chance(60)).collect();
            let parent_nulls: Vec<bool> = child_nulls.iter().map(|v| *v || t.bool()).collect(); // parent valid where child null => unmasked
            let mut mask_ok = true;
            if mutate_it {
                if t.bool() {
                    l2 = n + 1;
                    what = "children of different lengths".into();
                } else if !nullable_child && (0..n).any(|i| !child_nulls[i] && parent_nulls[i]) {
                    mask_ok = false;
                    what = "unmasked null in non-nullable child".into();
                }
            }
            let pn: Vec<bool> = if mask_ok && !nullable_child { child_nulls.clone() } else { parent_nulls.clone() };
            let fields = Fields::from(vec![Field::new("a", DataType::Int32, nullable_child), Field::new("b", DataType::Int64, true)]);
            let a: ArrayRef = Arc::new(Int32Array::new(vec![1; n].into(), Some(NullBuffer::from(child_nulls.clone()))));
            let b: ArrayRef = Arc::new(Int64Array::from(vec![2i64; l2]));
            catch(|| StructArray::try_new(fields.clone(), vec![a.clone(), b.clone()], Some(NullBuffer::from(pn.clone()))).map(|a| Some(Arc::new(a) as ArrayRef)).map_err(|e| e.to_string()))
        }
        6 => {
            // FixedSizeListArray::try_new
            let size = 1 + t.below(3) as i32;
            let mut child_len = n * size as usize;
            let mut sz = size;
            if mutate_it {
                match t.below(3) {
                    0 => {
                        child_len -= 1;
                        what = "child too short".into();
                    }
                    1 => {
                        sz = -1;
                        what = "negative size".into();
                    }
                    _ => {
                        child_len += size as usize;
                        what = "child length not len*size".into();
                    }
                }
            }
            let f = Arc::new(Field::new("item", DataType::Int32, true));
            let child: ArrayRef = Arc::new(Int32Array::from(vec![0; child_len]));
            let nulls = NullBuffer::from(vec![true; n]);
            catch(|| FixedSizeListArray::try_new(f.clone(), sz, child.clone(), Some(nulls.clone())).map(|a| Some(Arc::new(a) as ArrayRef)).map_err(|e| e.to_string()))
        }
        7 => {
            // GenericListArray / ListViewArray
            let view = t.bool();
            let child_len = 3 * n;
            let f = Arc::new(Field::new("item", DataType::Int32, true));
            let child: ArrayRef = Arc::new(Int32Array::from(vec![0; child_len]));
            if view {
                let mut offs: Vec<i32> = (0..n).map(|_| t.below(child_len) as i32).collect();
                let mut sizes: Vec<i32> = offs.iter().map(|o| t.below(child_len - *o as usize + 1) as i32).collect();
                if mutate_it {
                    let s = t.below(n);
                    match t.below(3) {
                        0 => {
                            offs[s] = child_len as i32 + 1;
                            what = "offset beyond child".into();
                        }
                        1 => {
                            sizes[s] = child_len as i32 + 1;
                            what = "offset+size beyond child".into();
                        }
                        _ => {
                            sizes[s] = -1;
                            what = "negative size".into();
                        }
                    }
                }
                catch(|| ListViewArray::try_new(f.clone(), offs.clone().into(), sizes.clone().into(), child.clone(), None).map(|a| Some(Arc::new(a) as ArrayRef)).map_err(|e| e.to_string()))
            } else {
                let mut offs: Vec<i32> = vec![0];
                for _ in 0..n {
                    let l = offs.last().unwrap() + t.below(3) as i32;
                    offs.push(l);
                }
                if mutate_it {
                    let last = offs.len() - 1;
                    offs[last] = child_len as i32 + 1 + t.below(3) as i32;
                    what = "last offset beyond child".into();
                }
                catch(|| ListArray::try_new(f.clone(), OffsetBuffer::new(offs.clone().into()), child.clone(), None).map(|a| Some(Arc::new(a) as ArrayRef)).map_err(|e| e.to_string()))
            }
        }
        8 => {
            // BooleanBuffer::new / ScalarBuffer::new
            let bytes = 1 + t.below(4);
            let buf = Buffer::from_vec(vec![0xF0u8; bytes * 8]);
            if t.bool() {
                let mut off = t.below(8);
                let mut len = bytes * 64 - off;
                if mutate_it {
                    if t.bool() {
                        len += 1;
                    } else {
                        off += 1;
                    }
                    what = "bit range beyond buffer".into();
                }
                catch(|| {
                    let b = BooleanBuffer::new(buf.clone(), off, len);
                    Ok(Some(Arc::new(BooleanArray::new(b, None)) as ArrayRef))
                })
            } else {
                let mut off = t.below(bytes);
                let mut len = bytes - off;
                let mut b2 = buf.clone();
                if mutate_it {
                    match t.below(3) {
                        0 => {
                            len += 1;
                            what = "typed range beyond buffer".into();
                        }
                        1 => {
                            off = bytes;
                            len = 1;
                            what = "offset at end".into();
                        }
                        _ => {
                            b2 = buf.slice(1);
                            off = 0;
                            len = bytes - 1;
                            what = "misaligned base pointer".into();
                        }
                    }
                }
                catch(|| {
                    let s: ScalarBuffer<i64> = ScalarBuffer::new(b2.clone(), off, len);
                    Ok(Some(Arc::new(Int64Array::new(s, None)) as ArrayRef))
                })
            }
        }
        9 => {
            // PrimitiveArray::try_new / FixedSizeBinaryArray::try_new with wrong validity length
            let mut nl = n;
            if mutate_it {
                nl = if t.bool() { n + 1 } else { n - 1 };
                what = "validity length != values length".into();
            }
            let nulls = NullBuffer::from(vec![true; nl]);
            if t.bool() {
                catch(|| Int32Array::try_new(vec![1; n].into(), Some(nulls.clone())).map(|a| Some(Arc::new(a) as ArrayRef)).map_err(|e| e.to_string()))
            } else {
                catch(|| FixedSizeBinaryArray::try_new(2, Buffer::from_vec(vec![0u8; 2 * n]), Some(nulls.clone())).map(|a| Some(Arc::new(a) as ArrayRef)).map_err(|e| e.to_string()))
            }
        }
        10 => {
            // MapArray::try_new
            let mut offs: Vec<i32> = vec![0];
            for _ in 0..n {
                let l = offs.last().unwrap() + t.below(3) as i32;
                offs.push(l);
            }
            let total = *offs.last().unwrap() as usize;
            let mut key_nullable = false;
            let mut keys_with_null = false;
            if mutate_it {
                match t.below(3) {
                    0 => {
                        let last = offs.len() - 1;
                        offs[last] += 2;
                        what = "last offset beyond entries".into();
                    }
                    1 => {
                        key_nullable = true;
                        what = "nullable key field".into();
                    }
                    _ => {
                        if total > 0 {
                            keys_with_null = true;
                            what = "null key".into();
                        }
                    }
                }
            }
            let kf = Field::new("key", DataType::Int32, key_nullable);
            let vf = Field::new("value", DataType::Int32, true);
            let keys: ArrayRef = if keys_with_null {
                let mut v = vec![true; total];
                v[0] = false;
                Arc::new(Int32Array::new(vec![1; total].into(), Some(NullBuffer::from(v))))
            } else {
                Arc::new(Int32Array::from(vec![1; total]))
            };
            let vals: ArrayRef = Arc::new(Int32Array::from(vec![2; total]));
            let ef = Arc::new(Field::new("entries", DataType::Struct(Fields::from(vec![kf.clone(), vf.clone()])), false));
            catch(|| {
                let entries = StructArray::try_new(Fields::from(vec![kf.clone(), vf.clone()]), vec![keys.clone(), vals.clone()], None).map_err(|e| e.to_string())?;
                MapArray::try_new(ef.clone(), OffsetBuffer::new(offs.clone().into()), entries, None, false).map(|a| Some(Arc::new(a) as ArrayRef)).map_err(|e| e.to_string())
            })
        }
        _ => {
            // RecordBatch::try_new
            let mut l2 = n;
            let mut dt2 = DataType::Utf8;
            let mut nullable = true;
            if mutate_it {
                match t.below(3) {
                    0 => {
                        l2 = n + 1;
                        what = "columns of different lengths".into();
                    }
                    1 => {
                        dt2 = DataType::LargeUtf8;
                        what = "column type differs from schema".into();
                    }
                    _ => {
                        nullable = false;
                        what = "null in non-nullable column".into();
                    }
                }
            }
            let schema = Arc::new(Schema::new(vec![Field::new("a", DataType::Int32, true), Field::new("b", dt2, nullable)]));
            let a: ArrayRef = Arc::new(Int32Array::from(vec![1; n]));
            let mut bv: Vec<Option<&str>> = vec![Some("x"); l2];
            bv[0] = None;
            let b: ArrayRef = Arc::new(StringArray::from(bv));
            catch(|| RecordBatch::try_new(schema.clone(), vec![a.clone(), b.clone()]).map(|_| None).map_err(|e| e.to_string()))
        }
    };
    let names = ["byte-array", "dictionary", "run-end", "union", "byte-view", "struct", "fixed-size-list", "list/list-view", "boolean/scalar-buffer", "primitive/fixed-binary", "map", "record-batch"];
    let ctor = names[which];
    c.class(format!("ctor:{}", ctor));
    let mutated = mutate_it && !what.is_empty();
    c.describe(json!({"constructor": ctor, "n": n, "mutation": what}));
    if mutated {
        c.nontrivial();
    }
    c.eval();
    match res {
        Err(p) => {
            c.class("outcome:rejected-panic");
            ensure!(mutated, format!("typed:control-panic:{}", ctor), "{} panicked on valid components: {} at {}", ctor, p.msg, p.loc);
        }
        Ok(Err(m)) => {
            c.class("outcome:rejected-err");
            ensure!(mutated, format!("typed:control-rejected:{}", ctor), "{} rejected valid components: {}", ctor, m);
        }
        Ok(Ok(accepted)) => {
            c.class(if mutated { "outcome:accepted" } else { "control:accepted" });
            ensure!(!mutated, format!("typed:accepted-invalid:{}:{}", ctor, reason_class(&what)), "{} accepted malformed components: {}", ctor, what);
            if let Some(a) = accepted {
                let d = a.to_data();
                if let Err(r) = spec_validate(&d) {
                    return Err(Fail::new(format!("typed:accepted-invalid:{}:{}", ctor, reason_class(&r)), format!("{} returned an array the validator rejects: {}", ctor, r)));
                }
                accessor_walk(&d, &format!("typed:{}", ctor))?;
            }
        }
    }
    Ok(())
}

/// hand-written reproductions of the known findings, judged by the same oracle (signatures coincide with generated cases)
fn sub_findings(c: &mut Case) -> CaseResult {
    let _ = c.tape.u64();
    c.nontrivial();
    c.describe(json!({"finding_case": c.index}));
    let i32s = |n: usize| -> ArrayData { Int32Array::from((0..n as i32).collect::<Vec<_>>()).to_data() };
    let (p, family, kind): (Parts, &str, &str) = match c.index {
        0 => {
            // Struct with offset 2, len 2 whose child has only 3 slots
            let dt = DataType::Struct(Fields::from(vec![Field::new("a", DataType::Int32, true)]));
            (Parts { dt, len: 2, offset: 2, nullbuf: None, null_count: None, buffers: vec![], children: vec![i32s(3)] }, "struct", "child-too-short")
        }
        1 => {
            let dt = DataType::FixedSizeList(Arc::new(Field::new("item", DataType::Int32, true)), 2);
            (Parts { dt, len: 2, offset: 2, nullbuf: None, null_count: None, buffers: vec![], children: vec![i32s(6)] }, "fixedlist", "child-too-short")
        }
        2 | 3 => {
            let uf = UnionFields::try_new(vec![1i8, 4], vec![Field::new("a", DataType::Int32, true), Field::new("b", DataType::Int32, true)]).unwrap();
            let dense = c.index == 3;
            let dt = DataType::Union(uf, if dense { UnionMode::Dense } else { UnionMode::Sparse });
            let ids = aligned(&if dense { [1u8, 4, 1] } else { [1u8, 2, 4] });
            let mut buffers = vec![ids];
            if dense {
                let mut o = vec![];
                for v in [0i32, 0, 7] {
                    o.extend_from_slice(&v.to_le_bytes());
                }
                buffers.push(aligned(&o));
            }
            (Parts { dt, len: 3, offset: 0, nullbuf: None, null_count: None, buffers, children: vec![i32s(3), i32s(3)] }, "union", if dense { "union-dense-offset" } else { "union-type-id" })
        }
        4 => {
            let dt = DataType::RunEndEncoded(Arc::new(Field::new("run_ends", DataType::Int32, false)), Arc::new(Field::new("values", DataType::Int32, true)));
            let re = Int32Array::from(vec![2, 4]).to_data();
            (Parts { dt, len: 9, offset: 0, nullbuf: None, null_count: None, buffers: vec![], children: vec![re, i32s(2)] }, "runend", "len-beyond-last-run-end")
        }
        5 => {
            // F1: validate_full accepts the sliced struct data, make_array panics
            let st = StructArray::try_new(Fields::from(vec![Field::new("a", DataType::Int32, true)]), vec![Arc::new(Int32Array::from(vec![1, 2, 3])) as ArrayRef], None).unwrap();
            let sliced = st.to_data().slice(1, 2);
            if sliced.validate_full().is_ok() {
                if let Err(p) = catch(|| make_array(sliced.clone())) {
                    return Err(Fail::new("make_array:struct:sliced-arraydata", format!("validate_full accepts struct_data.slice(1,2) but make_array panics: {} at {}", p.msg, p.loc)));
                }
            }
            return Ok(());
        }
        _ => return Ok(()),
    };
    judge(c, &p, true, kind, family)
}

fn main() {
    Check::new(
        "C09",
        "exploration",
        "cases = valid realised array of a generated type (depth<=2, all layouts, optionally an ArrayData-level offset) decomposed into parts and hit by 1-2 layout mutations (length/offset overflow, short/missing/extra/misaligned buffers, validity size and explicit null_count, wrong child type/count/length, offsets negative/non-monotone/beyond values/inside a UTF-8 character, dictionary keys, views, list-view offsets/sizes, run ends, union ids/offsets), fed to ArrayData::try_new, ArrayDataBuilder::build (with/without align_buffers) and build_unchecked+validate_full; plus near-valid components fed to the typed try_new/new constructors. Non-trivial = exactly one mutation that makes the layout invalid for the independent validator on an array of len>=2 (typed: any mutated case). Controls (unmutated) must be accepted.",
    )
    .assume("a panic inside a validating constructor counts as rejection (many are documented `# Panics`)")
    .assume("field nullability is not judged for ArrayData-level entry points (layout only); typed constructors are held to their documented nullability checks")
    .assume("children are always built by checked constructors (ArrayData documents that children built unchecked are trusted)")
    .sub(Sub::new("findings", 0, 0, sub_findings).enumerate(6, 6))
    .sub(Sub::new("arraydata", 150000, 3000000, sub_arraydata).tape(256, 6000).require(&["control:accepted", "outcome:rejected-err", "node-offset>0"]))
    .sub(Sub::new("typed", 100000, 1500000, sub_typed).tape(64, 600).require(&["control:accepted", "outcome:rejected-err", "outcome:rejected-panic"]))
    .run()
}
