//! C03 — selection kernels move exactly the selected rows, in order; coalescer histories.
use arrow_array::cast::AsArray;
use arrow_array::*;
use arrow_select::coalesce::BatchCoalescer;
use arrow_select::concat::{concat, concat_batches};
use arrow_select::dictionary::garbage_collect_any_dictionary;
use arrow_select::filter::{filter, filter_record_batch, FilterBuilder};
use arrow_select::interleave::{interleave, interleave_record_batch};
use arrow_select::merge::{merge, merge_n};
use arrow_select::nullif::nullif;
use arrow_select::take::{take, take_record_batch, TakeOptions};
use arrow_select::window::shift;
use arrow_select::zip::zip;
use serde_json::json;
use vp_engine::batch::*;
use vp_engine::ensure;
use vp_engine::extract::extract;
use vp_engine::model::*;
use vp_engine::r#gen::*;
use vp_engine::realise::*;
use vp_engine::refsel::*;
use vp_engine::runner::*;
use vp_engine::tape::Tape;
use vp_engine::validate::check_valid;

fn tcfg() -> TypeCfg {
    let mut c = TypeCfg::all();
    c.depth = 2;
    c
}

fn sel_len(t: &mut Tape) -> usize {
    match t.below(16) {
        0 => 0,
        1 => 1,
        2 => *t.pick(&[63usize, 64, 65, 127, 128, 129, 16, 17, 9]),
        3 => 200 + t.below(1100),
        4 => 40 + t.below(100),
        _ => t.below(40),
    }
}

/// predicate shapes: all / none / single / sparse / ~1/16 / half / ~0.8 / dense / runs / alternating, optional nulls
fn gen_pred(t: &mut Tape, n: usize) -> (Vec<Option<bool>>, &'static str) {
    let shape = t.below(10);
    let with_nulls = t.chance(96);
    let single = t.below(n.max(1));
    let mut run = t.bool();
    let mut v: Vec<Option<bool>> = Vec::with_capacity(n);
    for i in 0..n {
        let b = match shape {
            0 => true,
            1 => false,
            2 => i == single,
            3 => t.chance(4),
            4 => {
                let k = 14 + t.below(5) as u32;
                t.chance(k)
            }
            5 => t.bool(),
            6 => {
                let k = 198 + t.below(14) as u32;
                t.chance(k)
            }
            7 => !t.chance(6),
            8 => {
                if t.chance(24) {
                    run = !run;
                }
                run
            }
            _ => i % 2 == 0,
        };
        v.push(if with_nulls && t.chance(40) { None } else { Some(b) });
    }
    let name = ["all", "none", "single", "sparse", "sixteenth", "half", "p80", "dense", "runs", "alternating"][shape];
    (v, name)
}

fn bool_array(t: &mut Tape, v: &[Option<bool>]) -> BooleanArray {
    let vals: Vec<LValue> = v.iter().map(|x| x.map(LValue::Bool).unwrap_or(LValue::Null)).collect();
    let a = realise(t, &LType::Bool, &vals, true, &Lay::fancy());
    a.as_boolean().clone()
}

fn index_array(t: &mut Tape, idx: &[Option<usize>], max: usize) -> ArrayRef {
    // any integer type wide enough for `max`
    let mut types: Vec<(u8, bool)> = vec![(32, true), (64, true), (32, false), (64, false)];
    if max <= 127 {
        types.push((8, true));
    }
    if max <= 255 {
        types.push((8, false));
    }
    if max <= 32767 {
        types.push((16, true));
    }
    if max <= 65535 {
        types.push((16, false));
    }
    let (bits, signed) = *t.pick(&types);
    let vals: Vec<LValue> = idx.iter().map(|x| x.map(|i| LValue::Int(i as i128)).unwrap_or(LValue::Null)).collect();
    realise(t, &LType::Int { bits, signed }, &vals, true, &Lay::fancy())
}

fn expect(arr: &dyn Array, ty: &LType, want: &[LValue], what: &str) -> CaseResult {
    ensure!(arr.data_type() == &ty.arrow(), format!("{}:type", what), "{}: result type {} != input type {}", what, arr.data_type(), ty.arrow());
    ensure!(arr.len() == want.len(), format!("{}:len", what), "{}: result length {} != {}", what, arr.len(), want.len());
    check_valid(arr, what)?;
    let got = no_panic(&format!("{}:extract", what), || extract(arr))?;
    if let Some(i) = first_diff(&got, want) {
        return Err(Fail::new(format!("{}:row:{}", what, ty.family()), format!("{}: row {} is {:?}, expected {:?} (type {})", what, i, got[i].short(), want[i].short(), ty.arrow())));
    }
    Ok(())
}

fn zero_width(_ty: &LType) -> bool {
    // zero-width types (FixedSizeBinary(0), FixedSizeList(_,0)) were excluded while finding F7 was open; fixed in 24d26e0
    false
}

/// type generator for the general sub-checks. Known finding F7 (zero-width FixedSizeBinary(0)/FixedSizeList(_,0): several
/// kernels lose the row count) is excluded by construction here and exercised by the `zero_width` sub-check.
fn gen_ty(c: &mut Case) -> LType {
    let strict = c.strict;
    let mut excluded = 0;
    let ty = gen_type_where(&mut c.tape, &tcfg(), &|t| {
        if !strict && zero_width(t) {
            false
        } else {
            true
        }
    });
    let _ = &mut excluded;
    ty
}

fn gen_col(c: &mut Case, len: usize) -> (LType, Vec<LValue>, ArrayRef) {
    let ty = gen_ty(c);
    let col = gen_column(&mut c.tape, &ty, true, len, &ValCfg::default());
    let arr = realise(&mut c.tape, &ty, &col, true, &Lay { fancy: true, dict_value_nulls: true, slice_chance: 128 });
    c.class(format!("type:{}", ty.family()));
    (ty, col, arr)
}

fn is_union(ty: &LType) -> bool {
    matches!(ty, LType::Union { .. })
}

// ------------------------------------------------------------------------------------------
fn sub_filter(c: &mut Case) -> CaseResult {
    let n = sel_len(&mut c.tape);
    let (ty, col, arr) = gen_col(c, n);
    let (pred, shape) = gen_pred(&mut c.tape, n);
    let p = bool_array(&mut c.tape, &pred);
    c.class(format!("pred:{}", shape));
    let want = ref_filter(&col, &pred);
    let sel = want.len();
    if n >= 9 && sel > 0 && sel < n {
        c.nontrivial();
    }
    if n >= 32 && sel * 16 <= n && sel > 0 {
        c.class("selectivity<=1/16");
    }
    if n >= 10 && sel * 10 > n * 8 && sel < n {
        c.class("selectivity>0.8");
    }
    c.describe(json!({"kernel": "filter", "type": ty.arrow().to_string(), "len": n, "selected": sel, "pred_shape": shape, "values": short_vec(&col)}));
    let r = no_panic("filter", || filter(arr.as_ref(), &p))?;
    match r {
        Ok(out) => expect(out.as_ref(), &ty, &want, "filter")?,
        Err(e) => return Err(Fail::new(format!("filter:err:{}", ty.family()), format!("filter failed on valid input: {}", e))),
    }
    let r = no_panic("FilterBuilder", || {
        let b = FilterBuilder::new(&p);
        let b = if c.tape.bool() { b.optimize() } else { b };
        let fp = b.build();
        (fp.count(), fp.filter(arr.as_ref()))
    })?;
    ensure!(r.0 == sel, "FilterPredicate:count", "FilterPredicate::count {} != {}", r.0, sel);
    match r.1 {
        Ok(out) => expect(out.as_ref(), &ty, &want, "FilterPredicate::filter")?,
        Err(e) => return Err(Fail::new(format!("filter:err:{}", ty.family()), format!("FilterPredicate::filter failed: {}", e))),
    }
    c.evals(2);
    Ok(())
}

fn gen_indices(t: &mut Tape, n: usize, allow_null: bool) -> (Vec<Option<usize>>, &'static str) {
    let m = if n == 0 { 0 } else { sel_len(t).min(300) };
    let shape = t.below(6);
    let nulls = allow_null && t.chance(110);
    let mut v: Vec<Option<usize>> = (0..m)
        .map(|i| {
            if n == 0 {
                return None;
            }
            Some(match shape {
                0 => i % n,
                1 => n - 1 - (i % n),
                2 => t.below(n),
                3 => t.below(n.min(3)),
                4 => (i * 7) % n,
                _ => t.below(n),
            })
        })
        .collect();
    if shape == 5 {
        v.sort();
    }
    if n == 0 && !allow_null {
        v.clear();
    }
    if nulls {
        for x in v.iter_mut() {
            if t.chance(48) {
                *x = None;
            }
        }
    }
    (v, ["identity", "reversed", "random", "dups", "stride", "sorted"][shape])
}

fn sub_take(c: &mut Case) -> CaseResult {
    let n = sel_len(&mut c.tape).min(400);
    let (ty, col, arr) = gen_col(c, n);
    // known finding F10: a null index on a union whose type ids do not include 0 makes take fail
    // (take_native yields type id 0 for null slots); excluded by construction: no null indices for types containing a union
    let has_union = ty.any(&|t| matches!(t, LType::Union { .. }));
    if has_union && !c.strict {
        c.exclude("F10-take-union-null-index");
    }
    let (idx, shape) = gen_indices(&mut c.tape, n, c.strict || !has_union);
    let ia = index_array(&mut c.tape, &idx, n);
    c.class(format!("idx:{}", shape));
    let has_null = idx.iter().any(|x| x.is_none());
    let has_dup = {
        let mut s: Vec<usize> = idx.iter().flatten().copied().collect();
        s.sort();
        s.windows(2).any(|w| w[0] == w[1])
    };
    if has_null && has_dup {
        c.nontrivial();
        c.class("idx:null+dup");
    }
    c.describe(json!({"kernel": "take", "type": ty.arrow().to_string(), "len": n, "indices": format!("{:?}", idx.iter().take(20).collect::<Vec<_>>()), "index_type": ia.data_type().to_string()}));
    let want = ref_take(&col, &idx);
    let opts = if c.tape.bool() { None } else { Some(TakeOptions { check_bounds: true }) };
    let r = no_panic("take", || take(arr.as_ref(), ia.as_ref(), opts))?;
    match r {
        Ok(out) => expect(out.as_ref(), &ty, &want, "take")?,
        Err(e) => return Err(Fail::new(format!("take:err:{}", ty.family()), format!("take failed on valid input: {}", e))),
    }
    c.evals(1);
    Ok(())
}

/// several arrays of one type; `shared` = slices of one realisation (same dictionary/buffers)
fn gen_parts(c: &mut Case, max_parts: usize) -> (LType, Vec<Vec<LValue>>, Vec<ArrayRef>) {
    let ty = gen_ty(c);
    c.class(format!("type:{}", ty.family()));
    let k = 1 + c.tape.below(max_parts);
    let shared = c.tape.chance(80);
    let mut cols: Vec<Vec<LValue>> = vec![];
    let mut arrs: Vec<ArrayRef> = vec![];
    if shared {
        c.class("parts:shared-buffers");
        let lens: Vec<usize> = (0..k).map(|_| c.tape.below(30)).collect();
        let total: usize = lens.iter().sum();
        let col = gen_column(&mut c.tape, &ty, true, total, &ValCfg::default());
        let arr = realise(&mut c.tape, &ty, &col, true, &Lay { fancy: true, dict_value_nulls: true, slice_chance: 128 });
        let mut o = 0;
        for l in lens {
            cols.push(col[o..o + l].to_vec());
            arrs.push(arr.slice(o, l));
            o += l;
        }
    } else {
        for _ in 0..k {
            let l = if c.tape.chance(32) { sel_len(&mut c.tape).min(300) } else { c.tape.below(30) };
            let col = gen_column(&mut c.tape, &ty, true, l, &ValCfg::default());
            let arr = realise(&mut c.tape, &ty, &col, true, &Lay { fancy: true, dict_value_nulls: true, slice_chance: 128 });
            cols.push(col);
            arrs.push(arr);
        }
    }
    (ty, cols, arrs)
}

fn sub_concat(c: &mut Case) -> CaseResult {
    let (ty, cols, arrs) = gen_parts(c, 6);
    let want = ref_concat(&cols);
    if cols.len() >= 2 && want.len() >= 3 {
        c.nontrivial();
    }
    c.describe(json!({"kernel": "concat", "type": ty.arrow().to_string(), "parts": cols.iter().map(|x| x.len()).collect::<Vec<_>>()}));
    let refs: Vec<&dyn Array> = arrs.iter().map(|a| a.as_ref()).collect();
    let r = no_panic("concat", || concat(&refs))?;
    match r {
        Ok(out) => expect(out.as_ref(), &ty, &want, "concat")?,
        Err(e) => return Err(Fail::new(format!("concat:err:{}", ty.family()), format!("concat failed on valid input: {}", e))),
    }
    c.evals(1);
    Ok(())
}

fn sub_interleave(c: &mut Case) -> CaseResult {
    let (ty, cols, arrs) = gen_parts(c, 5);
    let nonempty: Vec<usize> = (0..cols.len()).filter(|i| !cols[*i].is_empty()).collect();
    let m = if nonempty.is_empty() { 0 } else { sel_len(&mut c.tape).min(200) };
    let idx: Vec<(usize, usize)> = (0..m)
        .map(|_| {
            let a = *c.tape.pick(&nonempty);
            (a, c.tape.below(cols[a].len()))
        })
        .collect();
    let want = ref_interleave(&cols, &idx);
    if cols.len() >= 2 && m >= 3 {
        c.nontrivial();
    }
    c.describe(json!({"kernel": "interleave", "type": ty.arrow().to_string(), "parts": cols.iter().map(|x| x.len()).collect::<Vec<_>>(), "indices": format!("{:?}", idx.iter().take(16).collect::<Vec<_>>())}));
    let refs: Vec<&dyn Array> = arrs.iter().map(|a| a.as_ref()).collect();
    let r = no_panic("interleave", || interleave(&refs, &idx))?;
    match r {
        Ok(out) => expect(out.as_ref(), &ty, &want, "interleave")?,
        Err(e) => return Err(Fail::new(format!("interleave:err:{}", ty.family()), format!("interleave failed on valid input: {}", e))),
    }
    c.evals(1);
    Ok(())
}

/// a one-row array of the type as a Scalar datum
fn scalar_of(t: &mut Tape, ty: &LType, v: &LValue) -> Scalar<ArrayRef> {
    Scalar::new(realise(t, ty, &[v.clone()], true, &Lay::fancy()))
}

fn sub_zip_merge(c: &mut Case) -> CaseResult {
    let n = sel_len(&mut c.tape).min(300);
    let ty = gen_type_where(&mut c.tape, &tcfg(), &|t| !is_union(t) && !zero_width(t));
    c.class(format!("type:{}", ty.family()));
    let (mask, shape) = gen_pred(&mut c.tape, n);
    let ma = bool_array(&mut c.tape, &mask);
    let vc = ValCfg::default();
    let do_merge = c.tape.bool();
    let ntrue = mask.iter().filter(|m| **m == Some(true)).count();
    let t_scalar = c.tape.chance(80);
    let f_scalar = c.tape.chance(80);
    let (tl, fl) = if do_merge { (ntrue + c.tape.below(3), n - ntrue + c.tape.below(3)) } else { (n, n) };
    let tcol = gen_column(&mut c.tape, &ty, true, if t_scalar { 1 } else { tl }, &vc);
    let fcol = gen_column(&mut c.tape, &ty, true, if f_scalar { 1 } else { fl }, &vc);
    let ta = realise(&mut c.tape, &ty, &tcol, true, &Lay::fancy());
    let fa = realise(&mut c.tape, &ty, &fcol, true, &Lay::fancy());
    let ts: Side = if t_scalar { Err(&tcol[0]) } else { Ok(&tcol) };
    let fs: Side = if f_scalar { Err(&fcol[0]) } else { Ok(&fcol) };
    let tsd = if t_scalar { Some(Scalar::new(ta.clone())) } else { None };
    let fsd = if f_scalar { Some(Scalar::new(fa.clone())) } else { None };
    let td: &dyn Datum = match &tsd {
        Some(s) => s,
        None => &ta,
    };
    let fd: &dyn Datum = match &fsd {
        Some(s) => s,
        None => &fa,
    };
    c.class(format!("{}:{}{}", if do_merge { "merge" } else { "zip" }, if t_scalar { "s" } else { "a" }, if f_scalar { "s" } else { "a" }));
    if n >= 9 && ntrue > 0 && ntrue < n {
        c.nontrivial();
    }
    c.describe(json!({"kernel": if do_merge {"merge"} else {"zip"}, "type": ty.arrow().to_string(), "len": n, "mask_shape": shape, "truthy_scalar": t_scalar, "falsy_scalar": f_scalar}));
    if do_merge {
        // a null mask entry is undocumented for merge: only non-null masks
        let mask2: Vec<Option<bool>> = mask.iter().map(|m| Some(*m == Some(true))).collect();
        let ma2 = bool_array(&mut c.tape, &mask2);
        let want = ref_merge(&mask2, &ts, &fs);
        let r = no_panic("merge", || merge(&ma2, td, fd))?;
        match r {
            Ok(out) => expect(out.as_ref(), &ty, &want, "merge")?,
            Err(e) => return Err(Fail::new(format!("merge:err:{}", ty.family()), format!("merge failed on valid input: {}", e))),
        }
    } else {
        let want = ref_zip(&mask, &ts, &fs);
        let r = no_panic("zip", || zip(&ma, td, fd))?;
        match r {
            Ok(out) => expect(out.as_ref(), &ty, &want, "zip")?,
            Err(e) => return Err(Fail::new(format!("zip:err:{}", ty.family()), format!("zip failed on valid input: {}", e))),
        }
    }
    c.evals(1);
    Ok(())
}

fn sub_merge_n(c: &mut Case) -> CaseResult {
    let ty = gen_type_where(&mut c.tape, &tcfg(), &|t| !is_union(t) && !zero_width(t));
    c.class(format!("type:{}", ty.family()));
    let k = 1 + c.tape.below(4);
    let m = sel_len(&mut c.tape).min(200);
    let idx: Vec<Option<usize>> = (0..m).map(|_| if c.tape.chance(40) { None } else { Some(c.tape.below(k)) }).collect();
    let mut cols = vec![];
    let mut arrs = vec![];
    for a in 0..k {
        let need = idx.iter().filter(|i| **i == Some(a)).count();
        let l = need + c.tape.below(3);
        let col = gen_column(&mut c.tape, &ty, true, l, &ValCfg::default());
        arrs.push(realise(&mut c.tape, &ty, &col, true, &Lay { fancy: true, dict_value_nulls: true, slice_chance: 128 }));
        cols.push(col);
    }
    let want = ref_merge_n(&cols, &idx);
    if k >= 2 && m >= 4 && idx.iter().any(|i| i.is_none()) {
        c.nontrivial();
    }
    c.describe(json!({"kernel": "merge_n", "type": ty.arrow().to_string(), "arrays": k, "indices": format!("{:?}", idx.iter().take(20).collect::<Vec<_>>())}));
    let refs: Vec<&dyn Array> = arrs.iter().map(|a| a.as_ref()).collect();
    let r = no_panic("merge_n", || merge_n(&refs, &idx))?;
    match r {
        Ok(out) => expect(out.as_ref(), &ty, &want, "merge_n")?,
        Err(e) => return Err(Fail::new(format!("merge_n:err:{}", ty.family()), format!("merge_n failed on valid input: {}", e))),
    }
    c.evals(1);
    Ok(())
}

fn sub_nullif_shift_slice(c: &mut Case) -> CaseResult {
    let n = sel_len(&mut c.tape).min(400);
    let (ty, col, arr) = gen_col(c, n);
    // slice
    let so = c.tape.below(n + 1);
    let sl = c.tape.below(n - so + 1);
    let s = no_panic("slice", || arr.slice(so, sl))?;
    expect(s.as_ref(), &ty, &col[so..so + sl], "slice")?;
    let s2 = no_panic("slice", || s.slice(0, sl))?;
    expect(s2.as_ref(), &ty, &col[so..so + sl], "slice(slice)")?;
    c.evals(2);
    c.describe(json!({"kernel": "slice/nullif/shift", "type": ty.arrow().to_string(), "len": n, "slice": [so, sl]}));
    if is_union(&ty) {
        return Ok(());
    }
    // shift
    let off = c.tape.range(-(n as i64) - 1, n as i64 + 1);
    let r = no_panic("shift", || shift(arr.as_ref(), off))?;
    match r {
        Ok(out) => expect(out.as_ref(), &ty, &ref_shift(&col, off), "shift")?,
        Err(e) => return Err(Fail::new(format!("shift:err:{}", ty.family()), format!("shift failed: {}", e))),
    }
    // nullif. Known finding F9: nullif on run-end encoded arrays returns the rows un-nulled (no validity buffer to clear)
    if ty.any(&|t| matches!(t, LType::Ree { .. })) && matches!(ty, LType::Ree { .. }) && !c.strict {
        c.exclude("F9-nullif-runend");
        return Ok(());
    }
    let (right, shape) = gen_pred(&mut c.tape, n);
    let ra = bool_array(&mut c.tape, &right);
    c.class(format!("pred:{}", shape));
    let r = no_panic("nullif", || nullif(arr.as_ref(), &ra))?;
    match r {
        Ok(out) => expect(out.as_ref(), &ty, &ref_nullif(&col, &right), "nullif")?,
        Err(e) => {
            return Err(Fail::new(format!("nullif:err:{}", ty.family()), format!("nullif failed: {}", e)));
        }
    }
    if n >= 9 && off != 0 && off.unsigned_abs() < n as u64 {
        c.nontrivial();
    }
    c.evals(2);
    Ok(())
}

fn sub_gc_dictionary(c: &mut Case) -> CaseResult {
    let n = sel_len(&mut c.tape).min(300);
    let mut cfg = TypeCfg::flat();
    cfg.ree = false;
    let key = gen_int_type(&mut c.tape, true);
    let LType::Int { bits, signed } = key else { unreachable!() };
    let ty = LType::Dict { kbits: bits, ksigned: signed, value: Box::new(loop {
        let v = gen_dict_value(&mut c.tape, &cfg);
        if !zero_width(&v) {
            break v;
        }
    }) };
    let col = gen_column(&mut c.tape, &ty, true, n, &ValCfg::default());
    let lay = Lay { fancy: true, dict_value_nulls: true, slice_chance: 128 };
    let arr = realise(&mut c.tape, &ty, &col, true, &lay);
    c.describe(json!({"kernel": "garbage_collect_dictionary", "type": ty.arrow().to_string(), "len": n}));
    let any = arr.as_any_dictionary();
    let before = any.values().len();
    let r = no_panic("garbage_collect_any_dictionary", || garbage_collect_any_dictionary(any))?;
    let out = match r {
        Ok(o) => o,
        Err(e) => return Err(Fail::new("gc_dictionary:err", format!("garbage_collect_any_dictionary failed: {}", e))),
    };
    expect(out.as_ref(), &ty, &col, "gc_dictionary")?;
    // every remaining dictionary value is referenced by at least one valid key
    let od = out.as_any_dictionary();
    let nvals = od.values().len();
    if nvals == 0 {
        ensure!(out.logical_null_count() == out.len(), "gc_dictionary:empty-values", "empty dictionary with valid keys");
        c.evals(1);
        return Ok(());
    }
    let keys = od.normalized_keys();
    let knulls = od.keys().logical_nulls();
    let mut used = vec![false; nvals];
    for (i, k) in keys.iter().enumerate() {
        if knulls.as_ref().map(|n| n.is_valid(i)).unwrap_or(true) {
            used[*k] = true;
        }
    }
    ensure!(used.iter().all(|u| *u), "gc_dictionary:unreferenced", "dictionary value {} is not referenced by any valid key after gc ({} -> {} values)", used.iter().position(|u| !*u).unwrap_or(0), before, nvals);
    if before > nvals && n >= 3 {
        c.nontrivial();
        c.class("gc:removed-values");
    }
    c.evals(1);
    Ok(())
}

// ------------------------------------------------------------------------------------------
fn batch_fields(c: &mut Case, maxcols: usize) -> Vec<LField> {
    let ncols = c.tape.below(maxcols + 1);
    let mut cfg = tcfg();
    cfg.depth = 1;
    gen_fields(&mut c.tape, &cfg, ncols, &|t| !zero_width(t))
}

fn expect_batch(b: &RecordBatch, fields: &[LField], want: &LBatch, rows: usize, what: &str) -> CaseResult {
    ensure!(b.num_rows() == rows, format!("{}:rows", what), "{}: {} rows, expected {}", what, b.num_rows(), rows);
    ensure!(b.num_columns() == fields.len(), format!("{}:columns", what), "{}: column count", what);
    for (i, f) in fields.iter().enumerate() {
        expect(b.column(i).as_ref(), &f.ty, &want[i], what)?;
    }
    Ok(())
}

fn sub_batch_kernels(c: &mut Case) -> CaseResult {
    let fields = batch_fields(c, 4);
    let schema = schema_of(&fields, None);
    let n = sel_len(&mut c.tape).min(200);
    let cols = gen_lbatch(&mut c.tape, &fields, n, &ValCfg::default());
    let batch = realise_batch(&mut c.tape, &schema, &fields, &cols, n, &Lay::fancy());
    c.class(format!("columns:{}", fields.len()));
    c.describe(json!({"kernel": "record-batch forms", "schema": fields.iter().map(|f| f.ty.arrow().to_string()).collect::<Vec<_>>(), "rows": n}));
    // filter_record_batch
    let (pred, _) = gen_pred(&mut c.tape, n);
    let p = bool_array(&mut c.tape, &pred);
    let want: LBatch = cols.iter().map(|col| ref_filter(col, &pred)).collect();
    let sel = pred.iter().filter(|x| **x == Some(true)).count();
    match no_panic("filter_record_batch", || filter_record_batch(&batch, &p))? {
        Ok(b) => expect_batch(&b, &fields, &want, sel, "filter_record_batch")?,
        Err(e) => return Err(Fail::new("filter_record_batch:err", e.to_string())),
    }
    // take_record_batch
    let any_union = fields.iter().any(|f| f.ty.any(&|t| is_union(t)) || !f.nullable);
    let (idx, _) = gen_indices(&mut c.tape, n, !any_union);
    let ia = index_array(&mut c.tape, &idx, n);
    let want: LBatch = cols.iter().map(|col| ref_take(col, &idx)).collect();
    match no_panic("take_record_batch", || take_record_batch(&batch, ia.as_ref()))? {
        Ok(b) => expect_batch(&b, &fields, &want, idx.len(), "take_record_batch")?,
        Err(e) => return Err(Fail::new("take_record_batch:err", e.to_string())),
    }
    // concat_batches / interleave_record_batch with a second batch
    let n2 = c.tape.below(40);
    let cols2 = gen_lbatch(&mut c.tape, &fields, n2, &ValCfg::default());
    let batch2 = realise_batch(&mut c.tape, &schema, &fields, &cols2, n2, &Lay::fancy());
    let want: LBatch = cols.iter().zip(&cols2).map(|(a, b)| ref_concat(&[a.clone(), b.clone()])).collect();
    match no_panic("concat_batches", || concat_batches(&schema, [&batch, &batch2]))? {
        Ok(b) => expect_batch(&b, &fields, &want, n + n2, "concat_batches")?,
        Err(e) => return Err(Fail::new("concat_batches:err", e.to_string())),
    }
    if n + n2 > 0 {
        let m = c.tape.below(60);
        let lens = [n, n2];
        let ne: Vec<usize> = (0..2).filter(|i| lens[*i] > 0).collect();
        let idx: Vec<(usize, usize)> = (0..m)
            .map(|_| {
                let a = *c.tape.pick(&ne);
                (a, c.tape.below(lens[a]))
            })
            .collect();
        let want: LBatch = cols.iter().zip(&cols2).map(|(a, b)| ref_interleave(&[a.clone(), b.clone()], &idx)).collect();
        match no_panic("interleave_record_batch", || interleave_record_batch(&[&batch, &batch2], &idx))? {
            Ok(b) => expect_batch(&b, &fields, &want, m, "interleave_record_batch")?,
            Err(e) => return Err(Fail::new("interleave_record_batch:err", e.to_string())),
        }
    }
    if fields.len() >= 2 && n >= 9 && sel > 0 && sel < n {
        c.nontrivial();
    }
    c.evals(4);
    Ok(())
}

// ------------------------------------------------------------------------------------------
/// coalescer history against a model queue
fn sub_coalescer(c: &mut Case) -> CaseResult {
    let fields = batch_fields(c, 4);
    let schema = schema_of(&fields, None);
    let target = match c.tape.below(8) {
        0 => 1024,
        1 => 8192,
        _ => 1 + c.tape.below(70),
    };
    let bypass = if c.tape.chance(64) { Some(1 + c.tape.below(40)) } else { None };
    let mut co = BatchCoalescer::new(schema.clone(), target).with_biggest_coalesce_batch_size(bypass);
    c.class(if bypass.is_some() { "bypass-limit" } else { "no-bypass" });
    let any_union = fields.iter().any(|f| f.ty.any(&|t| is_union(t)) || !f.nullable);
    let nops = c.tape.below(28);
    // model
    let mut pending: LBatch = fields.iter().map(|_| vec![]).collect(); // rows pushed, not yet popped
    let mut pending_rows = 0usize;
    let mut buffered = 0usize; // model of get_buffered_rows (no bypass only)
    let mut completed_sizes: std::collections::VecDeque<(usize, bool)> = Default::default(); // (rows, produced_by_finish)
    let mut trace: Vec<String> = vec![];
    let (mut filtered_pushes, mut finishes, mut emitted) = (0, 0, 0);
    let mut pop = |co: &mut BatchCoalescer, pending: &mut LBatch, pending_rows: &mut usize, completed_sizes: &mut std::collections::VecDeque<(usize, bool)>, emitted: &mut usize| -> CaseResult {
        let has = no_panic("has_completed_batch", || co.has_completed_batch())?;
        let b = no_panic("next_completed_batch", || co.next_completed_batch())?;
        ensure!(has == b.is_some(), "coalescer:has_completed_batch", "has_completed_batch {} but next_completed_batch is_some {}", has, b.is_some());
        let Some(b) = b else {
            if bypass.is_none() {
                ensure!(completed_sizes.is_empty(), "coalescer:missing-batch", "model expects a completed batch of {:?} rows but none was returned", completed_sizes.front());
            }
            return Ok(());
        };
        *emitted += 1;
        let r = b.num_rows();
        ensure!(r <= *pending_rows, "coalescer:extra-rows", "popped batch of {} rows but only {} rows are outstanding", r, *pending_rows);
        ensure!(b.schema() == schema, "coalescer:schema", "popped batch schema differs");
        if bypass.is_none() {
            let Some((want_rows, by_finish)) = completed_sizes.pop_front() else {
                return Err(Fail::new("coalescer:unexpected-batch", format!("popped a batch of {} rows although the model has no completed batch", r)));
            };
            ensure!(r == want_rows, "coalescer:batch-size", "popped batch has {} rows, expected {} (target {}, from finish: {})", r, want_rows, target, by_finish);
        } else {
            ensure!(r > 0, "coalescer:empty-batch", "empty batch popped");
        }
        let want: LBatch = pending.iter().map(|col| col[..r].to_vec()).collect();
        expect_batch(&b, &fields, &want, r, "coalescer:pop")?;
        for col in pending.iter_mut() {
            col.drain(..r);
        }
        *pending_rows -= r;
        Ok(())
    };
    for _ in 0..nops {
        let op = c.tape.below(10);
        match op {
            0..=5 => {
                let n = if c.tape.chance(40) { sel_len(&mut c.tape).min(300) } else { c.tape.below(40) };
                let cols = gen_lbatch(&mut c.tape, &fields, n, &ValCfg::default());
                let batch = realise_batch(&mut c.tape, &schema, &fields, &cols, n, &Lay::fancy());
                let (sel_cols, k, what): (LBatch, usize, String) = match op {
                    0 | 1 | 2 => {
                        let r = no_panic("push_batch", || co.push_batch(batch))?;
                        if let Err(e) = r {
                            return Err(Fail::new("coalescer:push_batch:err", e.to_string()));
                        }
                        (cols, n, format!("push({})", n))
                    }
                    3 | 4 => {
                        let (pred, shape) = gen_pred(&mut c.tape, n);
                        let p = bool_array(&mut c.tape, &pred);
                        let r = no_panic("push_batch_with_filter", || co.push_batch_with_filter(batch, &p))?;
                        if let Err(e) = r {
                            return Err(Fail::new("coalescer:push_batch_with_filter:err", e.to_string()));
                        }
                        filtered_pushes += 1;
                        let k = pred.iter().filter(|x| **x == Some(true)).count();
                        (cols.iter().map(|col| ref_filter(col, &pred)).collect(), k, format!("push_filter({}, {} -> {})", n, shape, k))
                    }
                    _ => {
                        let (idx, shape) = gen_indices(&mut c.tape, n, !any_union);
                        let ia = index_array(&mut c.tape, &idx, n);
                        let r = no_panic("push_batch_with_indices", || co.push_batch_with_indices(batch, ia.as_ref()))?;
                        if let Err(e) = r {
                            return Err(Fail::new("coalescer:push_batch_with_indices:err", e.to_string()));
                        }
                        (cols.iter().map(|col| ref_take(col, &idx)).collect(), idx.len(), format!("push_indices({}, {} x{})", n, shape, idx.len()))
                    }
                };
                trace.push(what);
                if fields.is_empty() {
                    // zero-column batches: only row counts flow
                }
                for (p, s) in pending.iter_mut().zip(&sel_cols) {
                    p.extend(s.iter().cloned());
                }
                pending_rows += k;
                buffered += k;
                while buffered >= target {
                    completed_sizes.push_back((target, false));
                    buffered -= target;
                }
            }
            6 | 7 => {
                let r = no_panic("finish_buffered_batch", || co.finish_buffered_batch())?;
                if let Err(e) = r {
                    return Err(Fail::new("coalescer:finish:err", e.to_string()));
                }
                finishes += 1;
                if buffered > 0 {
                    completed_sizes.push_back((buffered, true));
                    buffered = 0;
                }
                trace.push("finish".into());
            }
            _ => {
                let k = 1 + c.tape.below(3);
                for _ in 0..k {
                    pop(&mut co, &mut pending, &mut pending_rows, &mut completed_sizes, &mut emitted)?;
                }
                trace.push(format!("pop x{}", k));
            }
        }
        if bypass.is_none() {
            let gb = no_panic("get_buffered_rows", || co.get_buffered_rows())?;
            ensure!(gb == buffered, "coalescer:get_buffered_rows", "get_buffered_rows {} != model {} after {:?}", gb, buffered, trace.last());
            let ie = no_panic("is_empty", || co.is_empty())?;
            ensure!(ie == (buffered == 0 && completed_sizes.is_empty()), "coalescer:is_empty", "is_empty {} but model buffered {} completed {}", ie, buffered, completed_sizes.len());
        }
    }
    // drain
    let r = no_panic("finish_buffered_batch", || co.finish_buffered_batch())?;
    if let Err(e) = r {
        return Err(Fail::new("coalescer:finish:err", e.to_string()));
    }
    if buffered > 0 {
        completed_sizes.push_back((buffered, true));
    }
    let mut guard = 0;
    while no_panic("has_completed_batch", || co.has_completed_batch())? {
        pop(&mut co, &mut pending, &mut pending_rows, &mut completed_sizes, &mut emitted)?;
        guard += 1;
        ensure!(guard < 10_000, "coalescer:endless", "has_completed_batch stays true");
    }
    ensure!(pending_rows == 0, "coalescer:lost-rows", "{} selected rows were never emitted (history {:?})", pending_rows, trace);
    ensure!(no_panic("is_empty", || co.is_empty())?, "coalescer:is_empty", "not empty after draining");
    if filtered_pushes >= 1 && finishes >= 1 && emitted >= 2 {
        c.nontrivial();
    }
    c.evals(nops as u64 + 1);
    c.describe(json!({"schema": fields.iter().map(|f| f.ty.arrow().to_string()).collect::<Vec<_>>(), "target": target, "bypass": bypass, "history": trace}));
    Ok(())
}

// ------------------------------------------------------------------------------------------
/// Hand-written reproductions of the known findings (index = finding), also the place where the zero-width types,
/// which the general generators exclude, are exercised against every kernel.
fn sub_findings(c: &mut Case) -> CaseResult {
    let _ = c.tape.u64();
    let k = c.index;
    c.describe(json!({"finding_case": k}));
    c.nontrivial();
    let fsb0 = |n: usize| -> ArrayRef { std::sync::Arc::new(FixedSizeBinaryArray::try_new_with_len(0, arrow_buffer::Buffer::from_vec(Vec::<u8>::new()), None, n).unwrap()) };
    let fsl0 = |n: usize| -> ArrayRef {
        let f = std::sync::Arc::new(arrow_schema::Field::new("item", arrow_schema::DataType::Int32, true));
        std::sync::Arc::new(FixedSizeListArray::try_new_with_length(f, 0, std::sync::Arc::new(Int32Array::from(Vec::<i32>::new())), None, n).unwrap())
    };
    let zw = |which: u64, n: usize| if which == 0 { fsb0(n) } else { fsl0(n) };
    let zname = |which: u64| if which == 0 { "FixedSizeBinary(0)" } else { "FixedSizeList(0)" };
    match k {
        // F7: zero-width types x kernels: the result must have the selected number of rows
        0..=11 => {
            let which = k % 2;
            let kernel = k / 2;
            let a = zw(which, 5);
            let b = zw(which, 3);
            let (name, got, want): (&str, Result<usize, String>, usize) = match kernel {
                0 => ("filter", no_panic("filter", || filter(a.as_ref(), &BooleanArray::from(vec![true, false, true, true, false])))?.map(|x| x.len()).map_err(|e| e.to_string()), 3),
                1 => ("take", no_panic("take", || take(a.as_ref(), &UInt32Array::from(vec![4, 0, 0]), None))?.map(|x| x.len()).map_err(|e| e.to_string()), 3),
                2 => ("concat", no_panic("concat", || concat(&[a.as_ref(), b.as_ref()]))?.map(|x| x.len()).map_err(|e| e.to_string()), 8),
                3 => ("interleave", no_panic("interleave", || interleave(&[a.as_ref(), b.as_ref()], &[(0, 1), (1, 2)]))?.map(|x| x.len()).map_err(|e| e.to_string()), 2),
                4 => ("zip", no_panic("zip", || zip(&BooleanArray::from(vec![true, false, true]), &b, &b))?.map(|x| x.len()).map_err(|e| e.to_string()), 3),
                _ => ("shift", no_panic("shift", || shift(a.as_ref(), 2))?.map(|x| x.len()).map_err(|e| e.to_string()), 5),
            };
            match got {
                Ok(l) => ensure!(l == want, format!("zero_width:{}:{}:len", name, zname(which)), "{} on {} returned {} rows, expected {}", name, zname(which), l, want),
                Err(e) => return Err(Fail::new(format!("zero_width:{}:{}:err", name, zname(which)), format!("{} on {} failed: {}", name, zname(which), e))),
            }
        }
        // F8: take on a run-end encoded array must honour index validity
        12 => {
            let ree: Int32RunArray = vec![Some("a"), Some("a"), Some("b"), None, Some("c")].into_iter().collect();
            let idx = UInt32Array::from(vec![Some(2), None, Some(0)]);
            let out = match no_panic("take", || take(&ree, &idx, None))? {
                Ok(o) => o,
                Err(e) => return Err(Fail::new("take:runend:null-index", format!("take(run array, indices with a null) failed: {}", e))),
            };
            let got = extract(out.as_ref());
            let want = vec![LValue::Str("b".into()), LValue::Null, LValue::Str("a".into())];
            ensure!(got == want, "take:runend:null-index", "take(run array, [2, null, 0]) = {:?}, expected {:?}", got, want);
        }
        13 => {
            // same with out-of-range garbage under the null index (payload of a null slot is unspecified)
            let ree: Int32RunArray = vec![Some("a"), Some("a"), Some("b")].into_iter().collect();
            let idx = UInt32Array::new(vec![2u32, 4_000_000_000, 0].into(), Some(arrow_buffer::NullBuffer::from(vec![true, false, true])));
            let out = match no_panic("take", || take(&ree, &idx, None))? {
                Ok(o) => o,
                Err(e) => return Err(Fail::new("take:runend:null-index", format!("take(run array, indices with garbage under a null) failed: {}", e))),
            };
            let got = extract(out.as_ref());
            let want = vec![LValue::Str("b".into()), LValue::Null, LValue::Str("a".into())];
            ensure!(got == want, "take:runend:null-index", "take(run array, [2, null, 0]) = {:?}, expected {:?}", got, want);
        }
        // F9: nullif on a run-end encoded array
        14 => {
            let ree: Int32RunArray = vec![Some("a"), Some("a"), Some("b")].into_iter().collect();
            let out = match no_panic("nullif", || nullif(&ree, &BooleanArray::from(vec![true, false, false])))? {
                Ok(o) => o,
                Err(_) => return Ok(()), // a clean rejection would be fine
            };
            let got = extract(out.as_ref());
            let want = vec![LValue::Null, LValue::Str("a".into()), LValue::Str("b".into())];
            ensure!(got == want, "nullif:runend:not-nulled", "nullif(run array, [true,false,false]) = {:?}, expected {:?}", got, want);
        }
        // fixed 247aefe: zip of two scalar views where the falsy scalar is inlined but its array owns a data buffer
        15 => {
            let truthy = Scalar::new(StringViewArray::from(vec!["a string longer than twelve bytes"]));
            let falsy_arr = StringViewArray::from(vec!["another string longer than twelve bytes", "hello"]);
            let falsy = Scalar::new(falsy_arr.slice(1, 1));
            let mask = BooleanArray::from(vec![true, false, true, false]);
            let out = match no_panic("zip", || zip(&mask, &truthy, &falsy))? {
                Ok(o) => o,
                Err(e) => return Err(Fail::new("zip:view-scalars:inline-falsy", format!("zip failed: {}", e))),
            };
            let got = extract(out.as_ref());
            let t = LValue::Str("a string longer than twelve bytes".into());
            let f = LValue::Str("hello".into());
            ensure!(got == vec![t.clone(), f.clone(), t, f], "zip:view-scalars:inline-falsy", "zip(mask, long scalar, inlined scalar from an array with a data buffer) = {:?}", got);
            check_valid(out.as_ref(), "zip:view-scalars")?;
        }
        // fixed fbd4cfa: record-batch forms on a batch with rows but no columns
        16 => {
            let schema = std::sync::Arc::new(arrow_schema::Schema::empty());
            let b = RecordBatch::try_new_with_options(schema, vec![], &RecordBatchOptions::new().with_row_count(Some(5))).unwrap();
            match no_panic("take_record_batch", || take_record_batch(&b, &UInt32Array::from(vec![4, 0, 0])))? {
                Ok(o) => ensure!(o.num_rows() == 3, "take_record_batch:zero-columns", "take_record_batch on a zero-column batch returned {} rows", o.num_rows()),
                Err(e) => return Err(Fail::new("take_record_batch:zero-columns", format!("take_record_batch on a zero-column batch failed: {}", e))),
            }
            match no_panic("interleave_record_batch", || interleave_record_batch(&[&b, &b], &[(0, 1), (1, 2)]))? {
                Ok(o) => ensure!(o.num_rows() == 2, "interleave_record_batch:zero-columns", "interleave_record_batch on zero-column batches returned {} rows", o.num_rows()),
                Err(e) => return Err(Fail::new("interleave_record_batch:zero-columns", format!("interleave_record_batch on zero-column batches failed: {}", e))),
            }
        }
        // F10: take with a null index on a union whose type ids do not include 0
        17 => {
            let uf = arrow_schema::UnionFields::try_new(vec![1i8], vec![arrow_schema::Field::new("a", arrow_schema::DataType::Int32, true)]).unwrap();
            let u = UnionArray::try_new(uf, vec![1i8, 1].into(), None, vec![std::sync::Arc::new(Int32Array::from(vec![5, 6])) as ArrayRef]).unwrap();
            // payload of the null index is out of range (unspecified bytes under a null)
            let idx = UInt32Array::new(vec![1u32, 4_000_000_000].into(), Some(arrow_buffer::NullBuffer::from(vec![true, false])));
            match no_panic("take", || take(&u, &idx, None))? {
                Ok(o) => ensure!(o.len() == 2 && o.logical_null_count() == 1, "take:union:null-index", "take(union, [1, null]) returned {} rows with {} nulls", o.len(), o.logical_null_count()),
                Err(e) => return Err(Fail::new("take:union:null-index", format!("take(union with type ids [1], [1, null]) failed: {}", e))),
            }
        }
        // fixed 23b26f1: concat of run arrays that are all empty
        18 => {
            let e: Int32RunArray = Vec::<Option<&str>>::new().into_iter().collect();
            match no_panic("concat", || concat(&[&e, &e]))? {
                Ok(o) => ensure!(o.len() == 0 && o.data_type() == e.data_type(), "concat:runend:all-empty", "concat of two empty run arrays returned {} rows of {}", o.len(), o.data_type()),
                Err(err) => return Err(Fail::new("concat:runend:all-empty", format!("concat of two empty run arrays failed: {}", err))),
            }
        }
        _ => {}
    }
    c.evals(1);
    Ok(())
}

fn main() {
    Check::new(
        "C03",
        "exploration",
        "cases = (logical type of depth<=2 incl. dictionary/run-end/view/union/list-view/map, column realised with layout variation, kernel arguments: predicate of a generated shape {all,none,single,sparse,~1/16,half,~0.8,dense,runs,alternating} with optional nulls / index array of any integer type with nulls+duplicates+garbage under nulls / 1-6 arrays incl. slices of one allocation / masks and scalars / coalescer histories of up to 28 ops). Non-trivial: selectivity strictly between 0 and 1 on >=9 rows; take with a null and a duplicate index; >=2 parts; coalescer history with >=1 filtered push, >=1 finish and >=2 emitted batches. Distinct = distinct consumed entropy tape.",
    )
    .assume("indices of valid slots are in bounds (take documents a panic otherwise); equal lengths of predicate and values; merge occurrence counts <= array lengths; merge masks without nulls (undocumented); target_batch_size >= 1")
    .assume("top-level union columns have no null rows: kernels that create null rows (null index, shift, nullif, zip/merge) are not applied to them")
    .sub(Sub::new("findings", 0, 0, sub_findings).enumerate(19, 19))
    .sub(Sub::new("filter", 6000, 150000, sub_filter).tape(256, 8000).require(&["selectivity<=1/16", "selectivity>0.8", "type:dictionary", "type:view", "type:runend", "type:union", "type:struct"]))
    .sub(Sub::new("take", 5000, 120000, sub_take).tape(256, 8000).require(&["idx:null+dup"]))
    .sub(Sub::new("concat", 4000, 100000, sub_concat).tape(256, 8000).require(&["parts:shared-buffers"]))
    .sub(Sub::new("interleave", 4000, 100000, sub_interleave).tape(256, 8000))
    .sub(Sub::new("zip_merge", 4000, 100000, sub_zip_merge).tape(256, 8000))
    .sub(Sub::new("merge_n", 2000, 50000, sub_merge_n).tape(256, 8000))
    .sub(Sub::new("nullif_shift_slice", 4000, 100000, sub_nullif_shift_slice).tape(256, 8000))
    .sub(Sub::new("gc_dictionary", 2000, 50000, sub_gc_dictionary).tape(256, 6000).require(&["gc:removed-values"]))
    .sub(Sub::new("batch_kernels", 2500, 60000, sub_batch_kernels).tape(512, 12000))
    .sub(Sub::new("coalescer", 2500, 60000, sub_coalescer).tape(1024, 30000).require(&["bypass-limit", "no-bypass"]))
    .run()
}
