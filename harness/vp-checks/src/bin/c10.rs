//! C10 — one total order: comparator, sort, rank, partition and comparison kernels agree.
#[path = "../order_model.rs"]
mod order_model;

use arrow_array::{Array, ArrayRef, BooleanArray, Datum, Scalar, UInt32Array};
use arrow_ord::cmp;
use arrow_ord::ord::{make_comparator, DynComparator};
use arrow_ord::partition::partition;
use arrow_ord::rank::rank;
use arrow_ord::sort::{lexsort, lexsort_to_indices, sort, sort_limit, sort_to_indices, FixedLexicographicalComparator, LexicographicalComparator, SortColumn};
use arrow_schema::SortOptions;
use order_model::*;
use serde_json::json;
use std::cmp::Ordering;
use vp_engine::extract::extract;
use vp_engine::model::*;
use vp_engine::r#gen::*;
use vp_engine::realise::*;
use vp_engine::runner::*;
use vp_engine::tape::Tape;
use vp_engine::validate::check_valid;
use vp_engine::{ensure, fail};

const UM: UnionOrder = UnionOrder::Comparator;

fn lay_of(t: &mut Tape) -> Lay {
    // plain layouts matter too: byte-view arrays without data buffers take the inline-key fast paths
    if t.chance(56) { Lay::plain() } else { Lay { fancy: true, dict_value_nulls: true, slice_chance: 128 } }
}

fn opt_arg(t: &mut Tape) -> (Option<SortOptions>, SortOptions) {
    // `None` means `SortOptions::default()` (ascending, nulls first)
    if t.chance(32) {
        (None, SortOptions::default())
    } else {
        let o = sort_opts_of(t);
        (Some(o), o)
    }
}

/// generated type with the known-finding shapes rewritten (not in replay mode)
fn known(c: &mut Case, mut ty: LType) -> LType {
    // (fixed finding union-logical-nulls: single-field dense unions with a non-zero type id are generated again)
    let _ = &mut ty;
    let _ = &c;
    ty
}

fn eq_model(ty: &LType, a: &LValue, b: &LValue) -> bool {
    model_cmp(ty, a, b, SortOptions::default(), UM) == Ordering::Equal
}

fn nontrivial_col(ty: &LType, col: &[LValue]) -> bool {
    let (nulls, distinct, dup) = count_distinct(col);
    let fl = !matches!(ty.denoted(), LType::F16 | LType::F32 | LType::F64) || float_special(col);
    nulls >= 1 && dup && distinct >= 3 && fl
}

fn classes(c: &mut Case, ty: &LType, arr: &dyn Array) {
    c.class(format!("family:{}", ty.family()));
    if ty.family() == "dictionary" || ty.family() == "runend" {
        c.class(format!("value:{}", ty.denoted().family()));
    }
    if arr.offset() > 0 {
        c.class("sliced");
    }
    if let Some(v) = arr.as_any().downcast_ref::<arrow_array::StringViewArray>() {
        c.class(if v.data_buffers().is_empty() { "view:no-buffers" } else { "view:buffers" });
    }
    if let Some(v) = arr.as_any().downcast_ref::<arrow_array::BinaryViewArray>() {
        c.class(if v.data_buffers().is_empty() { "view:no-buffers" } else { "view:buffers" });
    }
}

fn matrix(what: &str, f: &DynComparator, n: usize, m: usize) -> Result<Vec<Vec<Ordering>>, Fail> {
    no_panic(what, || (0..n).map(|i| (0..m).map(|j| f(i, j)).collect()).collect())
}

// ------------------------------------------------------------------------------------------------
/// (1) comparator laws and agreement with the model order, within one array and across two arrays
fn sub_comparator(c: &mut Case) -> CaseResult {
    let ty = gen_type(&mut c.tape, &TypeCfg::all());
    let ty = known(c, ty);
    let n = c.tape.len(10, 24);
    let m = c.tape.len(4, 10);
    let vc = vcfg();
    let mut all = gen_ord_column(&mut c.tape, &ty, true, n + m, &vc);
    let inline = inline_views(&mut c.tape, &ty, &mut all);
    let (ca, cb) = all.split_at(n);
    let la = if inline { Lay::plain() } else { lay_of(&mut c.tape) };
    let a = no_panic("realise", || realise(&mut c.tape, &ty, ca, true, &la))?;
    let lb = if inline && c.tape.chance(200) { Lay::plain() } else { lay_of(&mut c.tape) };
    let b = no_panic("realise", || realise(&mut c.tape, &ty, cb, true, &lb))?;
    c.describe(json!({"type": format!("{}", ty.arrow()), "a": short_vec(ca), "b": short_vec(cb)}));
    classes(c, &ty, a.as_ref());
    if nontrivial_col(&ty, ca) {
        c.nontrivial();
    }
    check_comparator(c, &ty, ca, cb, &a, &b)
}

/// the comparator oracle on two arrays of one type (laws within `a`, model agreement within `a` and across `a`,`b`)
fn check_comparator(c: &mut Case, ty: &LType, ca: &[LValue], cb: &[LValue], a: &ArrayRef, b: &ArrayRef) -> CaseResult {
    let (n, m) = (ca.len(), cb.len());
    let structural_eq = !has_union(ty);
    for o in ALL_OPTS {
        let on = opts_name(o);
        let f = no_panic("make_comparator", || make_comparator(a.as_ref(), a.as_ref(), o))?;
        let f = match f {
            Ok(f) => f,
            Err(e) => fail!("make_comparator:err", "make_comparator({}) on equal types failed: {}", ty.arrow(), e),
        };
        let aa = matrix("comparator", &f, n, n)?;
        for i in 0..n {
            ensure!(aa[i][i] == Ordering::Equal, "comparator:reflexive", "{} cmp({i},{i}) = {:?} for {:?}", on, aa[i][i], ca[i]);
            for j in 0..n {
                ensure!(aa[i][j] == aa[j][i].reverse(), "comparator:antisymmetric", "{} cmp({i},{j})={:?} but cmp({j},{i})={:?}: {:?} / {:?}", on, aa[i][j], aa[j][i], ca[i], ca[j]);
                let want = model_cmp(ty, &ca[i], &ca[j], o, UM);
                ensure!(aa[i][j] == want, "comparator:model-split", "{} {} cmp({i},{j})={:?} model {:?}: {:?} / {:?}", ty.arrow(), on, aa[i][j], want, ca[i], ca[j]);
                if structural_eq {
                    ensure!((aa[i][j] == Ordering::Equal) == (ca[i] == ca[j]), "comparator:equal-iff-same-value", "{} cmp({i},{j})={:?}: {:?} / {:?}", on, aa[i][j], ca[i], ca[j]);
                }
            }
        }
        for i in 0..n {
            for j in 0..n {
                if aa[i][j] == Ordering::Greater {
                    continue;
                }
                for k in 0..n {
                    if aa[j][k] != Ordering::Greater {
                        ensure!(aa[i][k] != Ordering::Greater, "comparator:transitive", "{} {i}<={j}<={k} but cmp({i},{k})=Greater", on);
                        if aa[i][j] == Ordering::Less || aa[j][k] == Ordering::Less {
                            ensure!(aa[i][k] == Ordering::Less, "comparator:transitive", "{} {i}<{j}<={k} (one strict) but cmp({i},{k})={:?}", on, aa[i][k]);
                        }
                    }
                }
            }
        }
        // across two arrays with different physical layouts
        let g = no_panic("make_comparator", || make_comparator(a.as_ref(), b.as_ref(), o))?;
        let g = match g {
            Ok(g) => g,
            Err(e) => fail!("make_comparator:err", "make_comparator(a,b) on equal types failed: {}", e),
        };
        let h = no_panic("make_comparator", || make_comparator(b.as_ref(), a.as_ref(), o))?;
        let h = match h {
            Ok(h) => h,
            Err(e) => fail!("make_comparator:err", "make_comparator(b,a) on equal types failed: {}", e),
        };
        let ab = matrix("comparator", &g, n, m)?;
        let ba = matrix("comparator", &h, m, n)?;
        for i in 0..n {
            for j in 0..m {
                let want = model_cmp(ty, &ca[i], &cb[j], o, UM);
                ensure!(ab[i][j] == want, "comparator:model-split", "{} {} cross cmp(a{i},b{j})={:?} model {:?}: {:?} / {:?}", ty.arrow(), on, ab[i][j], want, ca[i], cb[j]);
                ensure!(ba[j][i] == want.reverse(), "comparator:cross-antisymmetric", "{} cmp(b{j},a{i})={:?} but cmp(a{i},b{j})={:?}", on, ba[j][i], ab[i][j]);
            }
        }
        c.evals((n * n + 2 * n * m) as u64);
    }
    Ok(())
}

// ------------------------------------------------------------------------------------------------
fn check_indices(
    what: &str,
    idx: &UInt32Array,
    n: usize,
    limit: Option<usize>,
    real: &dyn Fn(usize, usize) -> Ordering,
    model: &dyn Fn(usize, usize) -> Ordering,
) -> CaseResult {
    let want = limit.map(|l| l.min(n)).unwrap_or(n);
    ensure!(idx.null_count() == 0, format!("{what}:null-index"), "index array has nulls");
    ensure!(idx.len() == want, format!("{what}:count"), "returned {} indices, expected min(limit,len) = {} (len {}, limit {:?})", idx.len(), want, n, limit);
    let v: Vec<usize> = idx.values().iter().map(|x| *x as usize).collect();
    let mut seen = vec![false; n];
    for &i in &v {
        ensure!(i < n, format!("{what}:range"), "index {} out of range {}", i, n);
        ensure!(!seen[i], format!("{what}:duplicate"), "index {} returned twice: {:?}", i, v);
        seen[i] = true;
    }
    for w in v.windows(2) {
        ensure!(real(w[0], w[1]) != Ordering::Greater, format!("{what}:order-comparator"), "rows {} then {} are out of order under the comparator; indices {:?}", w[0], w[1], v);
        ensure!(model(w[0], w[1]) != Ordering::Greater, format!("{what}:order-model"), "rows {} then {} are out of order under the model; indices {:?}", w[0], w[1], v);
    }
    if want > 0 && want < n {
        let last = v[want - 1];
        for j in 0..n {
            if !seen[j] {
                ensure!(real(last, j) != Ordering::Greater, format!("{what}:limit"), "omitted row {} sorts before returned row {} (limit {:?}); indices {:?}", j, last, limit, v);
                ensure!(model(last, j) != Ordering::Greater, format!("{what}:limit-model"), "omitted row {} sorts before returned row {} under the model (limit {:?})", j, last, limit);
            }
        }
    }
    Ok(())
}

fn gen_limit(t: &mut Tape, n: usize) -> Option<usize> {
    match t.below(8) {
        0 | 1 => None,
        2 => Some(0),
        3 => Some(n),
        4 => Some(n + 1),
        5 => Some(n.saturating_sub(1)),
        6 => Some(1),
        _ => Some(t.below(n + 2)),
    }
}

fn model_sorted(ty: &LType, col: &[LValue], o: SortOptions) -> Vec<LValue> {
    let mut v = col.to_vec();
    v.sort_by(|a, b| model_cmp(ty, a, b, o, UM));
    v
}

/// (2) sort_to_indices / sort / sort_limit
fn sub_sort(c: &mut Case) -> CaseResult {
    let cfg = TypeCfg::all();
    let ty = gen_type_where(&mut c.tape, &cfg, &sortable);
    let n = match c.tape.below(10) {
        0 => c.tape.below(3),
        1 => 30 + c.tape.below(if c.tier == Tier::Thorough { 170 } else { 70 }),
        _ => c.tape.below(30),
    };
    let vc = vcfg();
    let mut col = gen_ord_column(&mut c.tape, &ty, true, n, &vc);
    let lay = if inline_views(&mut c.tape, &ty, &mut col) { Lay::plain() } else { lay_of(&mut c.tape) };
    let a = no_panic("realise", || realise(&mut c.tape, &ty, &col, true, &lay))?;
    let (oarg, o) = opt_arg(&mut c.tape);
    let limit = gen_limit(&mut c.tape, n);
    c.describe(json!({"type": format!("{}", ty.arrow()), "opts": opts_name(o), "opts_given": oarg.is_some(), "limit": limit, "values": short_vec(&col)}));
    classes(c, &ty, a.as_ref());
    c.class(format!("opts:{}", opts_name(o)));
    c.class(match limit {
        None => "limit:none",
        Some(0) => "limit:0",
        Some(l) if l < n => "limit:<len",
        Some(l) if l == n => "limit:=len",
        _ => "limit:>len",
    });
    if nontrivial_col(&ty, &col) {
        c.nontrivial();
    }
    let f = match make_comparator(a.as_ref(), a.as_ref(), o) {
        Ok(f) => f,
        Err(e) => fail!("make_comparator:err", "{}", e),
    };
    let real = |i: usize, j: usize| f(i, j);
    let model = |i: usize, j: usize| model_cmp(&ty, &col[i], &col[j], o, UM);
    let idx = match no_panic("sort_to_indices", || sort_to_indices(a.as_ref(), oarg, limit))? {
        Ok(x) => x,
        Err(e) => fail!("sort_to_indices:err", "sort_to_indices rejected documented-sortable type {}: {}", ty.arrow(), e),
    };
    check_indices("sort_to_indices", &idx, n, limit, &real, &model)?;
    let sorted = model_sorted(&ty, &col, o);
    for (k, i) in idx.values().iter().enumerate() {
        ensure!(eq_model(&ty, &col[*i as usize], &sorted[k]), "sort_to_indices:kth-value", "position {} holds {:?}, the model order has {:?} there", k, col[*i as usize], sorted[k]);
    }
    // sort / sort_limit return the values in that order, same type
    let want_len = limit.map(|l| l.min(n)).unwrap_or(n);
    let s = match no_panic("sort_limit", || sort_limit(a.as_ref(), oarg, limit))? {
        Ok(x) => x,
        Err(e) => fail!("sort_limit:err", "sort_limit rejected documented-sortable type {}: {}", ty.arrow(), e),
    };
    ensure!(s.data_type() == a.data_type(), "sort_limit:type", "sort_limit returned {} for {}", s.data_type(), a.data_type());
    check_valid(s.as_ref(), "sort_limit")?;
    let got = no_panic("extract", || extract(s.as_ref()))?;
    ensure!(got.len() == want_len, "sort_limit:count", "sort_limit returned {} rows, expected {}", got.len(), want_len);
    for k in 0..want_len {
        ensure!(eq_model(&ty, &got[k], &sorted[k]), "sort_limit:kth-value", "row {} is {:?}, expected {:?} (limit {:?})", k, got[k], sorted[k], limit);
    }
    if limit.is_none() || c.tape.chance(64) {
        let s = match no_panic("sort", || sort(a.as_ref(), oarg))? {
            Ok(x) => x,
            Err(e) => fail!("sort:err", "sort rejected documented-sortable type {}: {}", ty.arrow(), e),
        };
        ensure!(s.data_type() == a.data_type(), "sort:type", "sort returned {} for {}", s.data_type(), a.data_type());
        check_valid(s.as_ref(), "sort")?;
        let got = no_panic("extract", || extract(s.as_ref()))?;
        ensure!(got.len() == n, "sort:count", "sort returned {} rows, expected {}", got.len(), n);
        for k in 0..n {
            ensure!(eq_model(&ty, &got[k], &sorted[k]), "sort:kth-value", "row {} is {:?}, expected {:?}", k, got[k], sorted[k]);
        }
    }
    c.evals(3);
    Ok(())
}

// ------------------------------------------------------------------------------------------------
struct Tuple {
    tys: Vec<LType>,
    cols: Vec<Vec<LValue>>,
    arrays: Vec<ArrayRef>,
    oargs: Vec<Option<SortOptions>>,
    opts: Vec<SortOptions>,
}
impl Tuple {
    fn model(&self, i: usize, j: usize) -> Ordering {
        for k in 0..self.tys.len() {
            match model_cmp(&self.tys[k], &self.cols[k][i], &self.cols[k][j], self.opts[k], UM) {
                Ordering::Equal => {}
                r => return r,
            }
        }
        Ordering::Equal
    }
    fn sort_columns(&self) -> Vec<SortColumn> {
        self.arrays.iter().zip(&self.oargs).map(|(a, o)| SortColumn { values: a.clone(), options: *o }).collect()
    }
}

fn gen_tuple(c: &mut Case, k: usize, n: usize, presort: bool) -> Result<Tuple, Fail> {
    gen_tuple_cfg(c, k, n, presort, false)
}

/// `flat`: leaf types only (used for the long inputs that exercise the bounded-heap top-k path with a deep heap)
fn gen_tuple_cfg(c: &mut Case, k: usize, n: usize, presort: bool, flat: bool) -> Result<Tuple, Fail> {
    let mut cfg = TypeCfg::all();
    cfg.depth = 2;
    let vc = vcfg();
    let mut tys = vec![];
    let mut cols: Vec<Vec<LValue>> = vec![];
    let mut oargs = vec![];
    let mut opts = vec![];
    let mut inline = vec![];
    for _ in 0..k {
        // leading columns with few distinct values so that later columns decide
        let ty = if flat || c.tape.chance(140) { gen_type(&mut c.tape, &TypeCfg::flat()) } else { gen_type(&mut c.tape, &cfg) };
        let ty = known(c, ty);
        let mut col = gen_ord_column(&mut c.tape, &ty, true, n, &vc);
        inline.push(inline_views(&mut c.tape, &ty, &mut col));
        let (oa, o) = opt_arg(&mut c.tape);
        tys.push(ty);
        cols.push(col);
        oargs.push(oa);
        opts.push(o);
    }
    if presort {
        let mut order: Vec<usize> = (0..n).collect();
        order.sort_by(|&i, &j| {
            for x in 0..k {
                match model_cmp(&tys[x], &cols[x][i], &cols[x][j], opts[x], UM) {
                    Ordering::Equal => {}
                    r => return r,
                }
            }
            Ordering::Equal
        });
        for col in cols.iter_mut() {
            let old = col.clone();
            for (p, i) in order.iter().enumerate() {
                col[p] = old[*i].clone();
            }
        }
    }
    let mut arrays = vec![];
    for x in 0..k {
        let lay = if inline[x] { Lay::plain() } else { lay_of(&mut c.tape) };
        let a = no_panic("realise", || realise(&mut c.tape, &tys[x], &cols[x], true, &lay))?;
        classes(c, &tys[x], a.as_ref());
        arrays.push(a);
    }
    Ok(Tuple { tys, cols, arrays, oargs, opts })
}

fn describe_tuple(c: &mut Case, t: &Tuple, extra: serde_json::Value) {
    let cols: Vec<_> = (0..t.tys.len()).map(|k| json!({"type": format!("{}", t.tys[k].arrow()), "opts": opts_name(t.opts[k]), "values": short_vec(&t.cols[k])})).collect();
    c.describe(json!({"columns": cols, "extra": extra}));
}

/// (3) lexsort_to_indices / lexsort / LexicographicalComparator / FixedLexicographicalComparator
fn sub_lexsort(c: &mut Case) -> CaseResult {
    let mut k = 1 + c.tape.below(4);
    let size = c.tape.below(8);
    let n = match size {
        0 => c.tape.below(3),
        1 | 2 => 20 + c.tape.below(if c.tier == Tier::Thorough { 120 } else { 50 }),
        // long inputs: the bounded heap of the top-k path gets several levels deep (limit up to rows/10)
        3 => 70 + c.tape.below(if c.tier == Tier::Thorough { 1500 } else { 500 }),
        _ => c.tape.below(24),
    };
    if size == 3 {
        k = 2 + c.tape.below(2);
        c.class("rows>=70");
    }
    let t = gen_tuple_cfg(c, k, n, false, size == 3)?;
    // small limits relative to the row count take the bounded-heap path (limit <= rows/10)
    let limit = if n >= 20 && (size == 3 || c.tape.bool()) {
        match c.tape.below(6) {
            0 => Some(n / 10),
            1 => Some(n / 10 + 1),
            _ => Some(1 + c.tape.below((n / 10).max(1))),
        }
    } else {
        gen_limit(&mut c.tape, n)
    };
    if let Some(l) = limit {
        if l >= 7 && l <= n / 10 && k >= 2 {
            c.class("path:topk-heap-depth>=3");
        }
    }
    describe_tuple(c, &t, json!({"limit": limit}));
    c.class(format!("columns:{}", k));
    if let Some(l) = limit {
        if l > 0 && l <= n / 10 && k >= 2 {
            c.class("path:topk-heap");
        }
    }
    if k >= 2 && t.opts.windows(2).any(|w| w[0] != w[1]) {
        c.class("mixed-options");
        c.nontrivial();
    }
    if k == 1 && nontrivial_col(&t.tys[0], &t.cols[0]) {
        c.nontrivial();
    }
    let sc = t.sort_columns();
    let lex = match no_panic("LexicographicalComparator::try_new", || LexicographicalComparator::try_new(&sc))? {
        Ok(l) => l,
        Err(e) => fail!("LexicographicalComparator:err", "{}", e),
    };
    let pairs = n.min(24);
    macro_rules! fixed {
        ($N:literal) => {{
            let fx = match FixedLexicographicalComparator::<$N>::try_new(&sc) {
                Ok(l) => l,
                Err(e) => fail!("FixedLexicographicalComparator:err", "{}", e),
            };
            for i in 0..pairs {
                for j in 0..pairs {
                    let x = no_panic("FixedLexicographicalComparator", || fx.compare(i, j))?;
                    ensure!(x == t.model(i, j), "FixedLexicographicalComparator:model-split", "compare({i},{j})={:?} model {:?}", x, t.model(i, j));
                }
            }
        }};
    }
    match k {
        1 => fixed!(1),
        2 => fixed!(2),
        3 => fixed!(3),
        _ => fixed!(4),
    }
    for i in 0..pairs {
        for j in 0..pairs {
            let x = no_panic("LexicographicalComparator", || lex.compare(i, j))?;
            ensure!(x == t.model(i, j), "LexicographicalComparator:model-split", "compare({i},{j})={:?} model {:?}", x, t.model(i, j));
        }
    }
    let idx = match no_panic("lexsort_to_indices", || lexsort_to_indices(&sc, limit))? {
        Ok(x) => x,
        Err(e) => fail!("lexsort_to_indices:err", "{}", e),
    };
    let real = |i: usize, j: usize| lex.compare(i, j);
    let model = |i: usize, j: usize| t.model(i, j);
    check_indices("lexsort_to_indices", &idx, n, limit, &real, &model)?;
    // lexsort = the columns taken at those indices: the tuple sequence is the model-sorted one
    let mut order: Vec<usize> = (0..n).collect();
    order.sort_by(|&i, &j| t.model(i, j));
    let want_len = limit.map(|l| l.min(n)).unwrap_or(n);
    let out = match no_panic("lexsort", || lexsort(&sc, limit))? {
        Ok(x) => x,
        Err(e) => fail!("lexsort:err", "{}", e),
    };
    ensure!(out.len() == k, "lexsort:columns", "lexsort returned {} columns for {}", out.len(), k);
    for x in 0..k {
        ensure!(out[x].data_type() == t.arrays[x].data_type(), "lexsort:type", "column {} came back as {}", x, out[x].data_type());
        check_valid(out[x].as_ref(), "lexsort")?;
        let got = no_panic("extract", || extract(out[x].as_ref()))?;
        ensure!(got.len() == want_len, "lexsort:count", "column {} has {} rows, expected {}", x, got.len(), want_len);
        for p in 0..want_len {
            ensure!(eq_model(&t.tys[x], &got[p], &t.cols[x][order[p]]), "lexsort:kth-value", "column {} row {} is {:?}, expected {:?}", x, p, got[p], t.cols[x][order[p]]);
        }
    }
    c.evals((2 * pairs * pairs + 2) as u64);
    Ok(())
}

// ------------------------------------------------------------------------------------------------
/// (4) rank
fn sub_rank(c: &mut Case) -> CaseResult {
    let ty = gen_type_where(&mut c.tape, &TypeCfg::primitive(), &rankable);
    let n = match c.tape.below(8) {
        0 => c.tape.below(3),
        1 => 40 + c.tape.below(100),
        _ => c.tape.below(40),
    };
    let vc = vcfg();
    let mut col = gen_ord_column(&mut c.tape, &ty, true, n, &vc);
    let lay = if inline_views(&mut c.tape, &ty, &mut col) { Lay::plain() } else { lay_of(&mut c.tape) };
    let a = no_panic("realise", || realise(&mut c.tape, &ty, &col, true, &lay))?;
    let (oarg, o) = opt_arg(&mut c.tape);
    c.describe(json!({"type": format!("{}", ty.arrow()), "opts": opts_name(o), "values": short_vec(&col)}));
    classes(c, &ty, a.as_ref());
    c.class(format!("opts:{}", opts_name(o)));
    if nontrivial_col(&ty, &col) {
        c.nontrivial();
    }
    let r = match no_panic("rank", || rank(a.as_ref(), oarg))? {
        Ok(r) => r,
        Err(e) => fail!("rank:err", "rank rejected documented-rankable type {}: {}", ty.arrow(), e),
    };
    ensure!(r.len() == n, "rank:count", "{} ranks for {} rows", r.len(), n);
    let f = match make_comparator(a.as_ref(), a.as_ref(), o) {
        Ok(f) => f,
        Err(e) => fail!("make_comparator:err", "{}", e),
    };
    for i in 0..n {
        let want_model = (0..n).filter(|&j| model_cmp(&ty, &col[j], &col[i], o, UM) != Ordering::Greater).count() as u32;
        let want_real = (0..n).filter(|&j| f(j, i) != Ordering::Greater).count() as u32;
        ensure!(r[i] == want_real, "rank:comparator", "rank[{i}]={} but {} rows compare <= it ({}, value {:?}); ranks {:?}", r[i], want_real, opts_name(o), col[i], &r[..n.min(20)]);
        ensure!(r[i] == want_model, "rank:model", "rank[{i}]={} but the model says {}", r[i], want_model);
    }
    c.evals(n as u64 + 1);
    Ok(())
}

// ------------------------------------------------------------------------------------------------
/// (5) partition on lexicographically sorted tuples
fn sub_partition(c: &mut Case) -> CaseResult {
    let k = 1 + c.tape.below(3);
    let n = match c.tape.below(8) {
        0 => c.tape.below(3),
        1 => 40 + c.tape.below(90),
        _ => c.tape.below(40),
    };
    let t = gen_tuple(c, k, n, true)?;
    describe_tuple(c, &t, json!({}));
    c.class(format!("columns:{}", k));
    let p = match no_panic("partition", || partition(&t.arrays))? {
        Ok(p) => p,
        Err(e) => fail!("partition:err", "{}", e),
    };
    let ranges = no_panic("Partitions::ranges", || p.ranges())?;
    ensure!(p.len() == ranges.len(), "partition:len", "len() {} but {} ranges", p.len(), ranges.len());
    ensure!(p.is_empty() == (n == 0), "partition:is_empty", "is_empty() {} for {} rows", p.is_empty(), n);
    let mut want: Vec<std::ops::Range<usize>> = vec![];
    let mut start = 0;
    let mut real_boundaries = 0;
    for i in 0..n {
        if i + 1 == n {
            want.push(start..n);
            break;
        }
        let differs = (0..k).any(|x| model_cmp(&t.tys[x], &t.cols[x][i], &t.cols[x][i + 1], SortOptions::default(), UM) != Ordering::Equal);
        if differs {
            want.push(start..i + 1);
            start = i + 1;
            real_boundaries += 1;
        }
    }
    let mut pos = 0;
    for r in &ranges {
        ensure!(r.start == pos && r.end > r.start, "partition:contiguous", "ranges {:?} are not contiguous from 0", ranges);
        pos = r.end;
    }
    ensure!(pos == n, "partition:cover", "ranges {:?} do not end at {}", ranges, n);
    ensure!(ranges == want, "partition:boundaries", "ranges {:?} expected {:?}", ranges, want);
    // three-way: the comparator agrees on every adjacent pair
    for x in 0..k {
        let f = match make_comparator(t.arrays[x].as_ref(), t.arrays[x].as_ref(), SortOptions::default()) {
            Ok(f) => f,
            Err(e) => fail!("make_comparator:err", "{}", e),
        };
        for i in 0..n.saturating_sub(1) {
            let m = model_cmp(&t.tys[x], &t.cols[x][i], &t.cols[x][i + 1], SortOptions::default(), UM) == Ordering::Equal;
            ensure!((f(i, i + 1) == Ordering::Equal) == m, "comparator:model-split", "column {} rows {}/{}", x, i, i + 1);
        }
    }
    if real_boundaries >= 2 && ranges.iter().any(|r| r.len() >= 2) {
        c.nontrivial();
    }
    c.evals(n as u64 + 1);
    Ok(())
}

// ------------------------------------------------------------------------------------------------
#[derive(Clone, Copy, Debug, PartialEq)]
enum Wrap {
    Plain,
    Dict,
    Ree,
    ReeDict,
}

fn wrap_type(t: &mut Tape, leaf: &LType, w: Wrap) -> LType {
    let dict = |t: &mut Tape, v: LType| {
        let LType::Int { bits, signed } = gen_int_type(t, true) else { unreachable!() };
        LType::Dict { kbits: bits, ksigned: signed, value: Box::new(v) }
    };
    let ree = |t: &mut Tape, v: LType| LType::Ree { rbits: *t.pick(&[32u8, 16, 64]), value: Box::new(LField::new("values", v, true)) };
    match w {
        Wrap::Plain => leaf.clone(),
        Wrap::Dict => dict(t, leaf.clone()),
        Wrap::Ree => ree(t, leaf.clone()),
        Wrap::ReeDict => {
            let d = dict(t, leaf.clone());
            ree(t, d)
        }
    }
}

fn gen_wrap(t: &mut Tape, leaf: &LType) -> Wrap {
    if matches!(leaf, LType::Null) {
        return Wrap::Plain;
    }
    match t.below(10) {
        0 | 1 | 2 => Wrap::Dict,
        3 | 4 => Wrap::Ree,
        5 => Wrap::ReeDict,
        _ => Wrap::Plain,
    }
}

type Kernel = fn(&dyn Datum, &dyn Datum) -> Result<BooleanArray, arrow_schema::ArrowError>;
const KERNELS: [(&str, Kernel); 8] = [
    ("eq", cmp::eq),
    ("neq", cmp::neq),
    ("lt", cmp::lt),
    ("lt_eq", cmp::lt_eq),
    ("gt", cmp::gt),
    ("gt_eq", cmp::gt_eq),
    ("distinct", cmp::distinct),
    ("not_distinct", cmp::not_distinct),
];

fn kernel_expect(name: &str, ty: &LType, a: &LValue, b: &LValue) -> Option<bool> {
    let (an, bn) = (a.is_null(), b.is_null());
    let ord = if an || bn { Ordering::Equal } else { model_cmp(ty, a, b, SortOptions::default(), UM) };
    match name {
        "distinct" => Some(if an || bn { an != bn } else { ord != Ordering::Equal }),
        "not_distinct" => Some(if an || bn { an == bn } else { ord == Ordering::Equal }),
        _ if an || bn => None,
        "eq" => Some(ord == Ordering::Equal),
        "neq" => Some(ord != Ordering::Equal),
        "lt" => Some(ord == Ordering::Less),
        "lt_eq" => Some(ord != Ordering::Greater),
        "gt" => Some(ord == Ordering::Greater),
        _ => Some(ord != Ordering::Less),
    }
}

/// (6) comparison kernels: array∘array, array∘scalar, scalar∘array, scalar∘scalar, each side plain / dictionary / run-end
fn sub_compare(c: &mut Case) -> CaseResult {
    let mut cfg = TypeCfg::primitive();
    cfg.null = true;
    let leaf = gen_type_where(&mut c.tape, &cfg, &cmp_leaf);
    let n = match c.tape.below(8) {
        0 => c.tape.below(3),
        1 => *c.tape.pick(&[63usize, 64, 65, 127, 128, 129]),
        2 => 40 + c.tape.below(100),
        _ => c.tape.below(40),
    };
    let shape = c.tape.below(8); // 0..=3 array/array, 4,5 array/scalar, 6 scalar/array, 7 scalar/scalar
    let (ln, rn) = match shape {
        0..=3 => (n, n),
        4 | 5 => (n, 1),
        6 => (1, n),
        _ => (1, 1),
    };
    let (lw, mut rw) = (gen_wrap(&mut c.tape, &leaf), gen_wrap(&mut c.tape, &leaf));
    if shape == 7 && rw != Wrap::Plain && !c.strict {
        // known finding: scalar∘scalar with a dictionary / run-end right operand expands the one-bit result through the
        // right operand's keys / runs (cmp.rs `apply`: `side = if l_s.is_none() { l_info } else { r_info }`)
        c.exclude("cmp:scalar-scalar-encoded-rhs");
        rw = Wrap::Plain;
    }
    let (lt, rt) = (wrap_type(&mut c.tape, &leaf, lw), wrap_type(&mut c.tape, &leaf, rw));
    let mut vc = vcfg();
    vc.max_str = 20;
    // both sides drawn from one pool so that equal pairs are frequent; short strings for the inline scalar path
    let mut all = gen_ord_column(&mut c.tape, &leaf, true, ln + rn, &vc);
    if matches!(leaf, LType::Utf8(_) | LType::Binary(_)) && c.tape.chance(96) {
        for v in all.iter_mut() {
            match v {
                LValue::Str(s) => {
                    let cut: String = s.chars().take(c.tape.below(5)).collect();
                    *s = cut;
                }
                LValue::Bytes(b) => b.truncate(c.tape.below(5)),
                _ => {}
            }
        }
    }
    if ln == rn && c.tape.bool() {
        // aligned duplicates: row i of both sides equal with some probability
        for i in 0..ln {
            if c.tape.chance(90) {
                all[ln + i] = all[i].clone();
            }
        }
    }
    let inline = inline_views(&mut c.tape, &leaf, &mut all);
    let (cl, cr) = all.split_at(ln);
    c.describe(json!({"left": format!("{}", lt.arrow()), "right": format!("{}", rt.arrow()), "shape": shape, "l": short_vec(cl), "r": short_vec(cr)}));
    // RunArray::try_new validates its values child with ArrayData::validate, which rejects a BooleanArray whose value
    // bits start at a bit offset unless the validity buffer is long enough for offset+len (side finding, not C10):
    // run-end over plain Boolean is realised without layout variation
    let side_lay = |t: &mut Tape, w: Wrap| if inline || (matches!(w, Wrap::Ree | Wrap::ReeDict) && matches!(leaf, LType::Bool)) { Lay::plain() } else { lay_of(t) };
    let mut llay = side_lay(&mut c.tape, lw);
    let mut rlay = side_lay(&mut c.tape, rw);
    if !c.strict {
        // known finding: an empty slice of a run-end array at an offset behind its first run makes the kernels panic
        // (cmp.rs ree_physical_indices / expand_from_runs: `run_end - pos` underflows, start_physical is 0 for len 0)
        if ln == 0 && matches!(lw, Wrap::Ree | Wrap::ReeDict) && llay.fancy {
            c.exclude("cmp:empty-run-end-slice");
            llay = Lay::plain();
        }
        if rn == 0 && matches!(rw, Wrap::Ree | Wrap::ReeDict) && rlay.fancy {
            c.exclude("cmp:empty-run-end-slice");
            rlay = Lay::plain();
        }
    }
    let l = no_panic("realise", || realise(&mut c.tape, &lt, cl, true, &llay))?;
    let r = no_panic("realise", || realise(&mut c.tape, &rt, cr, true, &rlay))?;
    c.describe(json!({"left": format!("{}", lt.arrow()), "right": format!("{}", rt.arrow()), "shape": shape, "l": short_vec(cl), "r": short_vec(cr)}));
    classes(c, &leaf, l.as_ref());
    c.class(format!("leaf:{}", leaf.family()));
    c.class(format!("sides:{:?}/{:?}", lw, rw));
    c.class(match shape {
        0..=3 => "array-array",
        4 | 5 => "array-scalar",
        6 => "scalar-array",
        _ => "scalar-scalar",
    });
    let ls = (ln == 1).then(|| Scalar::new(l.clone()));
    let rs = (rn == 1).then(|| Scalar::new(r.clone()));
    let (ld, rd): (&dyn Datum, &dyn Datum) = match shape {
        0..=3 => (&l, &r),
        4 | 5 => (&l, rs.as_ref().unwrap()),
        6 => (ls.as_ref().unwrap(), &r),
        _ => (ls.as_ref().unwrap(), rs.as_ref().unwrap()),
    };
    let out_len = match shape {
        0..=5 => ln,
        6 => rn,
        _ => 1,
    };
    check_kernels(c, &leaf, &lt, &rt, cl, cr, ld, rd, out_len)
}

/// the kernel oracle: every kernel, every row
#[allow(clippy::too_many_arguments)]
fn check_kernels(c: &mut Case, leaf: &LType, lt: &LType, rt: &LType, cl: &[LValue], cr: &[LValue], ld: &dyn Datum, rd: &dyn Datum, out_len: usize) -> CaseResult {
    let at = |col: &[LValue], i: usize| -> LValue { if col.len() == 1 { col[0].clone() } else { col[i].clone() } };
    let mut saw_null = false;
    let mut saw_eq = false;
    for (name, k) in KERNELS {
        let out = match no_panic(name, || k(ld, rd))? {
            Ok(o) => o,
            Err(e) => fail!(format!("{name}:err"), "{} rejected {} vs {}: {}", name, lt.arrow(), rt.arrow(), e),
        };
        check_valid(&out, name)?;
        ensure!(out.len() == out_len, format!("{name}:len"), "result has {} rows, expected {}", out.len(), out_len);
        for i in 0..out_len {
            let (a, b) = (at(cl, i), at(cr, i));
            let want = kernel_expect(name, leaf, &a, &b);
            let got = if out.is_null(i) { None } else { Some(out.value(i)) };
            ensure!(got == want, format!("{name}:row"), "{}({:?}, {:?}) row {} = {:?}, expected {:?} [{} vs {}]", name, a, b, i, got, want, lt.arrow(), rt.arrow());
            saw_null |= a.is_null() || b.is_null();
            saw_eq |= !a.is_null() && a == b;
        }
    }
    if saw_null && saw_eq && out_len >= 3 {
        c.nontrivial();
    }
    c.evals(8 * out_len.max(1) as u64);
    Ok(())
}

// ------------------------------------------------------------------------------------------------
fn quick_array(t: &mut Tape, ty: &LType, n: usize) -> ArrayRef {
    let col = gen_ord_column(t, ty, true, n, &vcfg());
    realise(t, ty, &col, true, &Lay::fancy())
}

/// documented rejections: `Err`, never a panic
fn sub_unsupported(c: &mut Case) -> CaseResult {
    let vc = vcfg();
    let n = 1 + c.tape.below(6);
    let which = c.tape.below(6);
    match which {
        0 | 1 => {
            // sort family on a type outside the sortable grid
            let ty = gen_type_where(&mut c.tape, &TypeCfg::all(), &|t| !sortable(t) && !matches!(t, LType::Ree { .. }));
            if sortable(&ty) {
                return Ok(());
            }
            let col = gen_ord_column(&mut c.tape, &ty, true, n, &vc);
            let a = realise(&mut c.tape, &ty, &col, true, &Lay::fancy());
            c.describe(json!({"api": "sort", "type": format!("{}", ty.arrow())}));
            c.class(format!("sort-unsupported:{}", ty.family()));
            let limit = if c.tape.bool() { None } else { Some(1 + c.tape.below(n + 1)) };
            let o = Some(sort_opts_of(&mut c.tape));
            let r = no_panic("sort_to_indices", || sort_to_indices(a.as_ref(), o, limit))?;
            ensure!(r.is_err(), "sort_to_indices:unsupported-ok", "sort_to_indices accepted {} which is outside the documented grid", ty.arrow());
            let r = no_panic("sort", || sort(a.as_ref(), o))?;
            ensure!(r.is_err(), "sort:unsupported-ok", "sort accepted {}", ty.arrow());
            let r = no_panic("sort_limit", || sort_limit(a.as_ref(), o, limit))?;
            ensure!(r.is_err(), "sort_limit:unsupported-ok", "sort_limit accepted {}", ty.arrow());
            c.nontrivial();
        }
        2 => {
            let ty = gen_type_where(&mut c.tape, &TypeCfg::all(), &|t| !rankable(t));
            if rankable(&ty) {
                return Ok(());
            }
            let col = gen_ord_column(&mut c.tape, &ty, true, n, &vc);
            let a = realise(&mut c.tape, &ty, &col, true, &Lay::fancy());
            c.describe(json!({"api": "rank", "type": format!("{}", ty.arrow())}));
            c.class(format!("rank-unsupported:{}", ty.family()));
            let r = no_panic("rank", || rank(a.as_ref(), None))?;
            ensure!(r.is_err(), "rank:unsupported-ok", "rank accepted {}", ty.arrow());
            c.nontrivial();
        }
        3 => {
            // comparison kernels on nested types
            let ty = gen_type_where(&mut c.tape, &TypeCfg::all(), &|t| t.is_nested());
            if !ty.is_nested() {
                return Ok(());
            }
            let col = gen_ord_column(&mut c.tape, &ty, true, n, &vc);
            let a = realise(&mut c.tape, &ty, &col, true, &Lay::fancy());
            c.describe(json!({"api": "cmp", "type": format!("{}", ty.arrow())}));
            c.class(format!("cmp-unsupported:{}", ty.family()));
            for (name, k) in KERNELS {
                let r = no_panic(name, || k(&a, &a))?;
                ensure!(r.is_err(), format!("{name}:unsupported-ok"), "{} accepted nested type {}", name, ty.arrow());
            }
            c.nontrivial();
        }
        4 => {
            // different leaf types: comparator and kernels reject
            let t1 = gen_type(&mut c.tape, &TypeCfg::primitive());
            let t2 = gen_type(&mut c.tape, &TypeCfg::primitive());
            if std::mem::discriminant(&t1.arrow()) == std::mem::discriminant(&t2.arrow()) {
                return Ok(());
            }
            let a = quick_array(&mut c.tape, &t1, n);
            let b = quick_array(&mut c.tape, &t2, n);
            c.describe(json!({"api": "mismatch", "left": format!("{}", t1.arrow()), "right": format!("{}", t2.arrow())}));
            c.class("type-mismatch");
            let r = no_panic("make_comparator", || make_comparator(a.as_ref(), b.as_ref(), SortOptions::default()).is_err())?;
            ensure!(r, "make_comparator:mismatch-ok", "make_comparator accepted {} vs {}", t1.arrow(), t2.arrow());
            for (name, k) in KERNELS {
                let r = no_panic(name, || k(&a, &b))?;
                ensure!(r.is_err(), format!("{name}:mismatch-ok"), "{} accepted {} vs {}", name, t1.arrow(), t2.arrow());
            }
            c.nontrivial();
        }
        _ => {
            // argument errors: no columns, different row counts, different lengths
            let ty = gen_type(&mut c.tape, &TypeCfg::primitive());
            let a = quick_array(&mut c.tape, &ty, n);
            let b = quick_array(&mut c.tape, &ty, n + 1);
            c.describe(json!({"api": "arguments", "type": format!("{}", ty.arrow())}));
            c.class("argument-errors");
            ensure!(no_panic("lexsort_to_indices", || lexsort_to_indices(&[], None))?.is_err(), "lexsort_to_indices:empty-ok", "no columns accepted");
            ensure!(no_panic("partition", || partition(&[]))?.is_err(), "partition:empty-ok", "no columns accepted");
            let sc = vec![SortColumn { values: a.clone(), options: None }, SortColumn { values: b.clone(), options: None }];
            ensure!(no_panic("lexsort_to_indices", || lexsort_to_indices(&sc, None))?.is_err(), "lexsort_to_indices:lengths-ok", "different row counts accepted");
            ensure!(no_panic("partition", || partition(&[a.clone(), b.clone()]))?.is_err(), "partition:lengths-ok", "different row counts accepted");
            for (name, k) in KERNELS {
                let r = no_panic(name, || k(&a, &b))?;
                ensure!(r.is_err(), format!("{name}:lengths-ok"), "{} accepted arrays of length {} and {}", name, n, n + 1);
            }
            c.nontrivial();
        }
    }
    c.evals(1);
    Ok(())
}

// ------------------------------------------------------------------------------------------------
/// The committed support grid: one representative per type class; (sort, rank, comparison kernel) = documented support.
/// Inside the grid the call must succeed, outside it must return `Err`; never a panic.
fn grid_types() -> Vec<(LType, bool, bool, bool)> {
    use LType::*;
    let i32t = Int { bits: 32, signed: true };
    let f = |ty: LType| Box::new(LField::new("item", ty, true));
    let dict = |v: LType| Dict { kbits: 16, ksigned: true, value: Box::new(v) };
    let ree = |v: LType| Ree { rbits: 32, value: Box::new(LField::new("values", v, true)) };
    let mut g: Vec<(LType, bool, bool, bool)> = vec![];
    // (type, sort, rank, cmp kernel)
    for t in [
        Int { bits: 8, signed: true },
        Int { bits: 16, signed: false },
        i32t.clone(),
        Int { bits: 64, signed: false },
        F16,
        F32,
        F64,
        Decimal { width: 32, p: 9, s: 2 },
        Decimal { width: 64, p: 18, s: 0 },
        Decimal { width: 128, p: 38, s: 10 },
        Decimal { width: 256, p: 76, s: -2 },
        Date32,
        Date64,
        Time32(Unit::S),
        Time64(Unit::Ns),
        Timestamp(Unit::Us, None),
        Timestamp(Unit::S, Some("+05:30".into())),
        Duration(Unit::Ms),
        IntervalYM,
        IntervalDT,
        IntervalMDN,
        Bool,
        Utf8(Enc::O32),
        Utf8(Enc::O64),
        Utf8(Enc::View),
        Binary(Enc::O32),
        Binary(Enc::O64),
        Binary(Enc::View),
    ] {
        g.push((t, true, true, true));
    }
    g.push((FixedBinary(4), true, false, true));
    g.push((FixedBinary(0), true, false, true));
    g.push((Null, false, false, true));
    for e in [ListEnc::O32, ListEnc::O64, ListEnc::V32, ListEnc::V64] {
        g.push((List(f(i32t.clone()), e), true, false, false));
        g.push((List(f(Utf8(Enc::View)), e), true, false, false));
        g.push((List(f(FixedBinary(2)), e), false, false, false));
        g.push((List(f(List(f(i32t.clone()), ListEnc::O32)), e), false, false, false));
    }
    g.push((FixedList(f(F64), 2), true, false, false));
    g.push((FixedList(f(Bool), 0), true, false, false));
    g.push((FixedList(f(Struct(vec![LField::new("a", i32t.clone(), true)])), 2), false, false, false));
    g.push((Struct(vec![LField::new("a", i32t.clone(), true), LField::new("b", Utf8(Enc::O32), true)]), false, false, false));
    g.push((Map { key: Box::new(LField::new("key", Utf8(Enc::O32), false)), val: Box::new(LField::new("value", i32t.clone(), true)), sorted: false }, false, false, false));
    g.push((Union { dense: true, fields: vec![(0, LField::new("a", i32t.clone(), true)), (3, LField::new("b", Utf8(Enc::O32), true))] }, false, false, false));
    g.push((Union { dense: false, fields: vec![(1, LField::new("a", F64, true))] }, false, false, false));
    g.push((dict(Utf8(Enc::O32)), true, false, true));
    g.push((dict(Utf8(Enc::View)), true, false, true));
    g.push((dict(i32t.clone()), true, false, true));
    g.push((dict(F64), true, false, true));
    g.push((dict(Bool), true, false, true));
    g.push((dict(FixedBinary(3)), false, false, true));
    g.push((ree(i32t.clone()), true, false, true));
    g.push((ree(Utf8(Enc::O32)), true, false, true));
    g.push((ree(Binary(Enc::View)), true, false, true));
    g.push((ree(FixedBinary(2)), true, false, true));
    g.push((ree(dict(Utf8(Enc::O32))), true, false, true));
    g.push((ree(Struct(vec![LField::new("a", i32t.clone(), true)])), false, false, false));
    g.push((ree(List(f(i32t.clone()), ListEnc::O32)), true, false, false));
    g.push((dict(Struct(vec![LField::new("a", i32t.clone(), true)])), false, false, false));
    g
}

fn sub_grid(c: &mut Case) -> CaseResult {
    let _ = c.tape.u64();
    let g = grid_types();
    let (ty, can_sort, can_rank, can_cmp) = g[(c.index as usize) % g.len()].clone();
    grid_check(c, ty, can_sort, can_rank, can_cmp)
}

/// known finding: sort_to_indices / sort / sort_limit on a run-end array whose value type is not sortable panic
/// (sort.rs sort_run_inner: `sort_to_indices(&run_values, options, None).unwrap()`) instead of returning the documented error
fn repro_sort_run_end_unsortable(c: &mut Case) -> CaseResult {
    let st = LType::Struct(vec![LField::new("a", LType::Int { bits: 32, signed: true }, true)]);
    let ty = LType::Ree { rbits: 32, value: Box::new(LField::new("values", st, true)) };
    grid_check(c, ty, false, false, false)
}

fn grid_check(c: &mut Case, ty: LType, can_sort: bool, can_rank: bool, can_cmp: bool) -> CaseResult {
    ensure!(sortable(&ty) == can_sort && rankable(&ty) == can_rank && cmp_kernel_ok(&ty) == can_cmp, "grid:predicate", "grid predicates disagree with the committed table for {}", ty.arrow());
    let vc = vcfg();
    let n = 2 + c.tape.below(5);
    let col = gen_ord_column(&mut c.tape, &ty, true, n, &vc);
    let a = no_panic("realise", || realise(&mut c.tape, &ty, &col, true, &Lay::fancy()))?;
    c.describe(json!({"type": format!("{}", ty.arrow()), "sort": can_sort, "rank": can_rank, "cmp": can_cmp}));
    c.class(format!("family:{}", ty.family()));
    let o = Some(sort_opts_of(&mut c.tape));
    let name = format!("{}", ty.arrow());
    // (fixed finding sort-run-end-unsortable: run-end arrays of unsortable values are judged like every other type)
    {
        let r = no_panic("sort_to_indices", || sort_to_indices(a.as_ref(), o, None).is_ok())?;
        ensure!(r == can_sort, if can_sort { "sort_to_indices:err" } else { "sort_to_indices:unsupported-ok" }, "sort_to_indices({}) ok={} but the documented grid says {}", name, r, can_sort);
        let r = no_panic("sort", || sort(a.as_ref(), o).is_ok())?;
        ensure!(r == can_sort, if can_sort { "sort:err" } else { "sort:unsupported-ok" }, "sort({}) ok={} grid {}", name, r, can_sort);
        let r = no_panic("sort_limit", || sort_limit(a.as_ref(), o, Some(1)).is_ok())?;
        ensure!(r == can_sort, if can_sort { "sort_limit:err" } else { "sort_limit:unsupported-ok" }, "sort_limit({}) ok={} grid {}", name, r, can_sort);
    }
    let r = no_panic("rank", || rank(a.as_ref(), o).is_ok())?;
    ensure!(r == can_rank, if can_rank { "rank:err" } else { "rank:unsupported-ok" }, "rank({}) ok={} grid {}", name, r, can_rank);
    for (kn, k) in KERNELS {
        let r = no_panic(kn, || k(&a, &a).is_ok())?;
        ensure!(r == can_cmp, if can_cmp { format!("{kn}:err") } else { format!("{kn}:unsupported-ok") }, "{}({}) ok={} grid {}", kn, name, r, can_cmp);
    }
    // every type has a comparator, lexsort and partition
    ensure!(no_panic("make_comparator", || make_comparator(a.as_ref(), a.as_ref(), SortOptions::default()).is_ok())?, "make_comparator:err", "no comparator for {}", name);
    let sc = vec![SortColumn { values: a.clone(), options: o }, SortColumn { values: a.clone(), options: None }];
    ensure!(no_panic("lexsort_to_indices", || lexsort_to_indices(&sc, None).is_ok())?, "lexsort_to_indices:err", "lexsort rejected {}", name);
    ensure!(no_panic("partition", || partition(&[a.clone()]).is_ok())?, "partition:err", "partition rejected {}", name);
    c.nontrivial();
    c.evals(14);
    Ok(())
}

// ------------------------------------------------------------------------------------------------
// Reproductions of the findings the generators avoid (fixed inputs; registered with zero generated cases so that a
// known-findings entry {sub, tape: ""} re-executes them; replay mode disables the exclusions)

/// UnionArray::logical_nulls of a dense union with one field whose type id is not 0 reports no nulls; seen through the
/// comparator when that union is a child of another union (the outer slot is not recognised as null)
fn repro_union_logical_nulls(c: &mut Case) -> CaseResult {
    let i32t = LType::Int { bits: 32, signed: true };
    let inner = LType::Union { dense: true, fields: vec![(1, LField::new("a", i32t.clone(), true))] };
    let ty = LType::Union { dense: false, fields: vec![(0, LField::new("a", i32t, true)), (1, LField::new("b", inner, true))] };
    let col = vec![LValue::Union(0, Box::new(LValue::Int(5))), LValue::Union(1, Box::new(LValue::Union(1, Box::new(LValue::Null)))), LValue::Union(0, Box::new(LValue::Null))];
    let a = no_panic("realise", || realise(&mut c.tape, &ty, &col, true, &Lay::plain()))?;
    c.describe(json!({"type": format!("{}", ty.arrow()), "values": short_vec(&col)}));
    c.nontrivial();
    check_comparator(c, &ty, &col, &col, &a, &a)
}

/// scalar ∘ scalar with a dictionary right operand whose key is not 0
fn repro_cmp_scalar_scalar(c: &mut Case) -> CaseResult {
    let leaf = LType::Int { bits: 32, signed: true };
    let rt = LType::Dict { kbits: 8, ksigned: true, value: Box::new(leaf.clone()) };
    let l: ArrayRef = std::sync::Arc::new(arrow_array::Int32Array::from(vec![5]));
    let values: ArrayRef = std::sync::Arc::new(arrow_array::Int32Array::from(vec![1, 5]));
    let r: ArrayRef = std::sync::Arc::new(arrow_array::DictionaryArray::new(arrow_array::Int8Array::from(vec![1]), values));
    let (cl, cr) = (vec![LValue::Int(5)], vec![LValue::Int(5)]);
    c.describe(json!({"left": "scalar Int32 5", "right": "scalar Dictionary(Int8, Int32) key 1 -> 5"}));
    c.nontrivial();
    let (ls, rs) = (Scalar::new(l), Scalar::new(r));
    check_kernels(c, &leaf, &leaf, &rt, &cl, &cr, &ls, &rs, 1)
}

/// an empty slice of a run-end array taken behind its first run, compared with an empty dictionary array
fn repro_cmp_empty_run_end_slice(c: &mut Case) -> CaseResult {
    use arrow_array::types::Int32Type;
    let leaf = LType::Int { bits: 32, signed: true };
    let re = arrow_array::Int32Array::from(vec![1, 4]);
    let v = arrow_array::Int32Array::from(vec![7, 8]);
    let ra = match arrow_array::RunArray::<Int32Type>::try_new(&re, &v) {
        Ok(r) => r,
        Err(e) => fail!("setup", "{}", e),
    };
    let l: ArrayRef = std::sync::Arc::new(ra.slice(3, 0));
    let values: ArrayRef = std::sync::Arc::new(arrow_array::Int32Array::from(vec![1]));
    let r: ArrayRef = std::sync::Arc::new(arrow_array::DictionaryArray::new(arrow_array::Int8Array::from(Vec::<i8>::new()), values));
    c.describe(json!({"left": "RunArray(run_ends [1,4]).slice(3, 0)", "right": "Dictionary(Int8, Int32) with no keys"}));
    c.nontrivial();
    check_kernels(c, &leaf, &leaf, &leaf, &[], &[], &l, &r, 0)
}

/// known finding: make_comparator on two dictionary arrays with different key types hits `unreachable!()` instead of the
/// "different types" error (run-end arrays with different run-end types get an error)
fn repro_comparator_dictionary_keys(c: &mut Case) -> CaseResult {
    let v = LType::Utf8(Enc::O32);
    let t1 = LType::Dict { kbits: 8, ksigned: true, value: Box::new(v.clone()) };
    let t2 = LType::Dict { kbits: 16, ksigned: true, value: Box::new(v) };
    let col = vec![LValue::Str("a".into()), LValue::Str("b".into())];
    let a = no_panic("realise", || realise(&mut c.tape, &t1, &col, true, &Lay::plain()))?;
    let b = no_panic("realise", || realise(&mut c.tape, &t2, &col, true, &Lay::plain()))?;
    c.describe(json!({"left": format!("{}", t1.arrow()), "right": format!("{}", t2.arrow())}));
    c.nontrivial();
    let r = no_panic("make_comparator", || make_comparator(a.as_ref(), b.as_ref(), SortOptions::default()).is_err())?;
    ensure!(r, "make_comparator:mismatch-ok", "make_comparator accepted different dictionary key types");
    Ok(())
}

/// a reproduction fails with its own signature (`repro:<key>`), so that listing it as a known finding can never hide a
/// generated failure that merely shares the underlying signature
fn tag(r: CaseResult, key: &str) -> CaseResult {
    r.map_err(|f| Fail::new(format!("repro:{key}"), format!("[{}] {}", f.sig, f.msg)))
}

fn main() {
    let ngrid = grid_types().len() as u64;
    Check::new(
        "C10",
        "exploration",
        "cases = (logical type, column(s) drawn from a small value pool plus near variants and fresh values, null pattern, physical layout per array, SortOptions per column incl. None, limit in 0..=len+1 or None). Non-trivial = a column with >=1 null, >=1 duplicate and >=3 distinct values (float columns additionally hold a NaN or a signed zero), or a tuple of >=2 columns with different options; partition: >=2 boundaries and a range of >=2 rows; kernels: a null and an equal pair among >=3 rows. Distinct = distinct consumed entropy tape.",
    )
    .assume("the model order (nulls by nulls_first; natural / IEEE totalOrder / unsigned bytes; element-wise then length for lists and maps, field-wise for structs, type id then child for unions, children under arrow-cmp's child_opts; reversed when descending) is checked three-way against make_comparator itself")
    .assume("a union slot whose selected child slot is null counts as a null of the union (UnionArray::logical_nulls), so such slots compare Equal whatever their type id")
    .assume("sort is unstable: results are compared as value sequences / by the comparator, never by index identity; partition input is sorted first (documented precondition)")
    .assume("support grid (sort/rank/comparison kernels) is committed in grid_types(): inside it Err is a violation, outside it Ok or a panic is")
    .sub(Sub::new("grid", 0, 0, sub_grid).enumerate(ngrid * 20, ngrid * 200))
    .sub(Sub::new("comparator", 60000, 600000, sub_comparator).tape(256, 8000).require(&["family:list", "family:struct", "family:dictionary", "family:runend", "family:float", "family:view", "family:union", "family:map", "family:fixedlist", "family:listview"]))
    .sub(Sub::new("sort", 120000, 1200000, sub_sort).tape(256, 8000).require(&["family:list", "family:dictionary", "family:runend", "family:float", "family:view", "family:fixedbinary", "family:fixedlist", "family:listview", "view:no-buffers", "view:buffers", "limit:<len", "limit:>len", "limit:none"]))
    .sub(Sub::new("lexsort", 50000, 500000, sub_lexsort).tape(256, 24000).require(&["columns:1", "columns:4", "path:topk-heap", "path:topk-heap-depth>=3", "mixed-options"]))
    .sub(Sub::new("rank", 60000, 600000, sub_rank).tape(128, 6000).require(&["family:float", "family:bytes", "family:view", "family:bool", "family:interval"]))
    .sub(Sub::new("partition", 50000, 500000, sub_partition).tape(256, 10000).require(&["columns:1", "columns:3"]))
    .sub(Sub::new("compare", 120000, 1200000, sub_compare).tape(256, 8000).require(&["array-array", "array-scalar", "scalar-array", "scalar-scalar", "sides:Dict/Plain", "sides:Plain/Dict", "sides:Ree/Ree", "leaf:view", "leaf:float", "leaf:fixedbinary", "view:no-buffers"]))
    .sub(Sub::new("repro_sort_run_end_unsortable", 0, 0, |c| tag(repro_sort_run_end_unsortable(c), "sort-run-end-unsortable")))
    .sub(Sub::new("repro_comparator_dictionary_keys", 0, 0, |c| tag(repro_comparator_dictionary_keys(c), "comparator-dictionary-keys")))
    .sub(Sub::new("repro_union_logical_nulls", 0, 0, |c| tag(repro_union_logical_nulls(c), "union-logical-nulls")))
    .sub(Sub::new("repro_cmp_scalar_scalar", 0, 0, |c| tag(repro_cmp_scalar_scalar(c), "cmp-scalar-scalar")))
    .sub(Sub::new("repro_cmp_empty_run_end_slice", 0, 0, |c| tag(repro_cmp_empty_run_end_slice(c), "cmp-empty-run-end-slice")))
    .sub(Sub::new("unsupported", 12000, 120000, sub_unsupported).tape(128, 4000).require(&["type-mismatch", "argument-errors"]))
    .run()
}
