//! C08 — untrusted bytes yield an error or valid data, never an invalid array (no panic, no hang, no unbounded allocation).
//! Structure-aware corruption of valid files produced by the writers from generated batches: byte flips, plausible
//! length/offset/count fields inflated or deflated, truncation, region duplication/deletion, cross-splices.
//! The check runs in a worker subprocess (Check::run_isolated): a crash/abort of the worker is attributed to the case.
//! A capping global allocator turns a single absurd allocation request into an abort (=> reported violation).
use arrow_array::{Array, RecordBatch};
use arrow_buffer::Buffer;
use arrow_schema::SchemaRef;
use bytes::Bytes;
use serde_json::json;
use std::alloc::{GlobalAlloc, Layout, System};
use std::io::Cursor;
use std::sync::atomic::{AtomicUsize, Ordering};
use std::sync::Arc;
use vp_engine::batch::*;
use vp_engine::model::*;
use vp_engine::r#gen::*;
use vp_engine::realise::*;
use vp_engine::runner::*;
use vp_engine::tape::Tape;
use vp_engine::validate::check_valid;

/// single allocation requests above this are refused (null => abort): inputs here are a few KiB, so the property's
/// "allocation related to the input size" is bounded generously by 64 MiB + 1024 x input length < 128 MiB
const MAX_SINGLE_ALLOC: usize = 128 << 20;
struct CappedAlloc;
static BIGGEST: AtomicUsize = AtomicUsize::new(0);
unsafe impl GlobalAlloc for CappedAlloc {
    unsafe fn alloc(&self, l: Layout) -> *mut u8 {
        if l.size() > MAX_SINGLE_ALLOC {
            BIGGEST.store(l.size(), Ordering::Relaxed);
            return std::ptr::null_mut();
        }
        unsafe { System.alloc(l) }
    }
    unsafe fn dealloc(&self, p: *mut u8, l: Layout) {
        unsafe { System.dealloc(p, l) }
    }
    unsafe fn alloc_zeroed(&self, l: Layout) -> *mut u8 {
        if l.size() > MAX_SINGLE_ALLOC {
            BIGGEST.store(l.size(), Ordering::Relaxed);
            return std::ptr::null_mut();
        }
        unsafe { System.alloc_zeroed(l) }
    }
    unsafe fn realloc(&self, p: *mut u8, l: Layout, n: usize) -> *mut u8 {
        if n > MAX_SINGLE_ALLOC {
            BIGGEST.store(n, Ordering::Relaxed);
            return std::ptr::null_mut();
        }
        unsafe { System.realloc(p, l, n) }
    }
}
#[global_allocator]
static GLOBAL: CappedAlloc = CappedAlloc;

#[derive(Clone, Copy, Debug, PartialEq)]
enum Fmt {
    IpcFile,
    IpcStream,
    IpcStreamDecoder,
    Parquet,
    ParquetMeta,
    Csv,
    Json,
    AvroOcf,
    Variant,
    /// Parquet files with dictionary-typed Arrow columns (dictionary-preserving read path) and small-integer corruption of the data pages
    ParquetDict,
}
const FMTS: [Fmt; 10] = [Fmt::IpcFile, Fmt::IpcStream, Fmt::IpcStreamDecoder, Fmt::Parquet, Fmt::ParquetMeta, Fmt::Csv, Fmt::Json, Fmt::AvroOcf, Fmt::Variant, Fmt::ParquetDict];

fn simple_cfg(fmt: Fmt) -> TypeCfg {
    let mut c = TypeCfg::all();
    c.depth = if matches!(fmt, Fmt::Csv) { 0 } else { 2 };
    c.union = !matches!(fmt, Fmt::Parquet | Fmt::ParquetMeta | Fmt::Json | Fmt::Csv | Fmt::AvroOcf);
    c.ree = !matches!(fmt, Fmt::Csv | Fmt::Json | Fmt::AvroOcf);
    c.listview = !matches!(fmt, Fmt::Csv | Fmt::AvroOcf | Fmt::Json);
    c.interval = !matches!(fmt, Fmt::Parquet | Fmt::ParquetMeta | Fmt::Csv | Fmt::Json | Fmt::AvroOcf);
    c.neg_scale = false;
    if matches!(fmt, Fmt::Parquet | Fmt::ParquetMeta) {
        // dictionary / run-end columns have open writer-reader findings of their own (C05); they are not needed here
        c.dict = false;
        c.ree = false;
    }
    c.f16 = !matches!(fmt, Fmt::Csv | Fmt::Json | Fmt::AvroOcf);
    c.null = !matches!(fmt, Fmt::Csv | Fmt::AvroOcf);
    c.dec_small = !matches!(fmt, Fmt::Csv | Fmt::Json | Fmt::AvroOcf);
    c.dec256 = !matches!(fmt, Fmt::Csv | Fmt::Json | Fmt::AvroOcf);
    if matches!(fmt, Fmt::Csv | Fmt::Json | Fmt::AvroOcf) {
        c.nested = matches!(fmt, Fmt::Json | Fmt::AvroOcf);
        c.map = false;
        c.dict = false;
        c.fixedlist = false;
        c.view = false;
        c.binary = false;
        c.fixedbinary = false;
        c.large = false;
        c.tz = false;
        c.temporal = false;
        c.decimal = false;
    }
    c
}

/// Produce a valid file for the format from generated batches; None when the writer rejects the schema (outside its grid)
fn make_valid(t: &mut Tape, fmt: Fmt, strict: bool, excluded: &mut Vec<String>) -> Option<(Vec<u8>, Option<SchemaRef>, Vec<u8>)> {
    if fmt == Fmt::Variant {
        let mut b = parquet_variant::VariantBuilder::new();
        match t.below(4) {
            0 => b.append_value(t.u32() as i64),
            1 => b.append_value(gen_string(t, 20).as_str()),
            2 => {
                let mut o = b.new_object();
                for k in 0..1 + t.below(4) {
                    let key = format!("k{}", k);
                    if t.bool() {
                        o.insert(&key, t.u16() as i32);
                    } else {
                        o.insert(&key, gen_string(t, 12).as_str());
                    }
                }
                o.finish();
            }
            _ => {
                let mut l = b.new_list();
                for _ in 0..t.below(5) {
                    if t.bool() {
                        l.append_value(t.u8() as i32);
                    } else {
                        let mut o = l.new_object();
                        o.insert("a", gen_string(t, 6).as_str());
                        o.insert("b", t.bool());
                        o.finish();
                    }
                }
                l.finish();
            }
        }
        let (m, v) = b.finish();
        return Some((v, None, m));
    }
    if fmt == Fmt::ParquetDict {
        return make_valid_parquet_dict(t);
    }
    let cfg = simple_cfg(fmt);
    let ncols = 1 + t.below(3);
    let fields = gen_fields(t, &cfg, ncols, &|ty| !ty.any(&|x| matches!(x, LType::FixedBinary(0) | LType::FixedList(_, 0))));
    let schema = schema_of(&fields, None);
    let nb = 1 + t.below(2);
    let mut batches = vec![];
    for _ in 0..nb {
        let rows = t.below(12);
        let cols = gen_lbatch(t, &fields, rows, &ValCfg { max_str: 10, max_list: 3, nan: !matches!(fmt, Fmt::Json | Fmt::Csv), ..ValCfg::default() });
        batches.push(realise_batch(t, &schema, &fields, &cols, rows, &Lay::plain()));
    }
    let mut out: Vec<u8> = vec![];
    let ok = catch(|| -> Result<(), String> {
        match fmt {
            Fmt::IpcFile => {
                let opts = ipc_opts(t, strict, excluded);
                let mut w = arrow_ipc::writer::FileWriter::try_new_with_options(&mut out, &schema, opts).map_err(|e| e.to_string())?;
                for b in &batches {
                    w.write(b).map_err(|e| e.to_string())?;
                }
                w.finish().map_err(|e| e.to_string())?;
            }
            Fmt::IpcStream | Fmt::IpcStreamDecoder => {
                let opts = ipc_opts(t, strict, excluded);
                let mut w = arrow_ipc::writer::StreamWriter::try_new_with_options(&mut out, &schema, opts).map_err(|e| e.to_string())?;
                for b in &batches {
                    w.write(b).map_err(|e| e.to_string())?;
                }
                w.finish().map_err(|e| e.to_string())?;
            }
            Fmt::Parquet | Fmt::ParquetMeta => {
                use parquet::basic::Compression;
                use parquet::file::properties::{WriterProperties, WriterVersion};
                let mut p = WriterProperties::builder().set_data_page_row_count_limit(1 + t.below(8)).set_write_batch_size(1 + t.below(8)).set_dictionary_enabled(t.bool());
                p = p.set_writer_version(if t.bool() { WriterVersion::PARQUET_2_0 } else { WriterVersion::PARQUET_1_0 });
                p = p.set_compression(*t.pick(&[Compression::UNCOMPRESSED, Compression::SNAPPY, Compression::LZ4_RAW]));
                let mut w = parquet::arrow::ArrowWriter::try_new(&mut out, schema.clone(), Some(p.build())).map_err(|e| e.to_string())?;
                for b in &batches {
                    w.write(b).map_err(|e| e.to_string())?;
                }
                w.close().map_err(|e| e.to_string())?;
            }
            Fmt::Csv => {
                let mut w = arrow_csv::WriterBuilder::new().with_header(true).build(&mut out);
                for b in &batches {
                    w.write(b).map_err(|e| e.to_string())?;
                }
            }
            Fmt::Json => {
                let mut w = arrow_json::LineDelimitedWriter::new(&mut out);
                for b in &batches {
                    w.write(b).map_err(|e| e.to_string())?;
                }
                w.finish().map_err(|e| e.to_string())?;
            }
            Fmt::AvroOcf => {
                let mut w = arrow_avro::writer::AvroWriter::new(&mut out, (*schema).clone()).map_err(|e| e.to_string())?;
                for b in &batches {
                    w.write(b).map_err(|e| e.to_string())?;
                }
                w.finish().map_err(|e| e.to_string())?;
            }
            Fmt::Variant | Fmt::ParquetDict => unreachable!(),
        }
        Ok(())
    });
    match ok {
        Ok(Ok(())) => Some((out, Some(schema), vec![])),
        _ => None, // schema outside the writer's grid (or a writer defect that C04/C05/C17 judge)
    }
}

fn ipc_opts(t: &mut Tape, strict: bool, excluded: &mut Vec<String>) -> arrow_ipc::writer::IpcWriteOptions {
    let o = arrow_ipc::writer::IpcWriteOptions::default();
    let k = t.below(3);
    // known finding C08-ipc-decompress-length-prefix: the reader allocates the uncompressed length read from the (corruptible)
    // 8-byte prefix of a compressed buffer; compressed files are excluded by construction (same tape consumption)
    if k < 2 && !strict {
        excluded.push("C08-ipc-decompress-length-prefix".to_string());
        return o;
    }
    match k {
        0 => o.try_with_compression(Some(arrow_ipc::CompressionType::LZ4_FRAME)).unwrap(),
        1 => o.try_with_compression(Some(arrow_ipc::CompressionType::ZSTD)).unwrap(),
        _ => o,
    }
}

/// Parquet file whose Arrow schema has dictionary columns over string / binary / integer values (the shapes of the open
/// C05 dictionary findings - fixed-size binary and view values - are left out), always dictionary-encoded pages
fn make_valid_parquet_dict(t: &mut Tape) -> Option<(Vec<u8>, Option<SchemaRef>, Vec<u8>)> {
    use parquet::file::properties::{WriterProperties, WriterVersion};
    let ncols = 1 + t.below(2);
    let mut fields = vec![];
    for i in 0..ncols {
        let value = match t.below(6) {
            0 => LType::Utf8(Enc::O32),
            1 => LType::Binary(Enc::O32),
            2 => LType::Utf8(Enc::O64),
            3 => LType::Int { bits: 32, signed: true },
            4 => LType::Int { bits: 64, signed: true },
            _ => LType::Utf8(Enc::O32),
        };
        let (kbits, ksigned) = *t.pick(&[(8u8, true), (8, false), (16, true), (32, true), (64, true), (16, false), (32, false)]);
        let ty = if i == 1 && t.chance(80) { LType::Int { bits: 32, signed: true } } else { LType::Dict { kbits, ksigned, value: Box::new(value) } };
        fields.push(LField { name: format!("d{}", i), ty, nullable: t.bool() });
    }
    let schema = schema_of(&fields, None);
    let nb = 1 + t.below(2);
    let mut batches = vec![];
    for _ in 0..nb {
        let rows = 1 + t.below(40);
        let cols = gen_lbatch(t, &fields, rows, &ValCfg { max_str: 10, ..ValCfg::default() });
        batches.push(realise_batch(t, &schema, &fields, &cols, rows, &Lay::plain()));
    }
    let mut out: Vec<u8> = vec![];
    let ok = catch(|| -> Result<(), String> {
        let p = WriterProperties::builder()
            .set_dictionary_enabled(true)
            .set_data_page_row_count_limit(1 + t.below(20))
            .set_write_batch_size(1 + t.below(20))
            .set_writer_version(if t.bool() { WriterVersion::PARQUET_2_0 } else { WriterVersion::PARQUET_1_0 });
        let mut w = parquet::arrow::ArrowWriter::try_new(&mut out, schema.clone(), Some(p.build())).map_err(|e| e.to_string())?;
        for b in &batches {
            w.write(b).map_err(|e| e.to_string())?;
        }
        w.close().map_err(|e| e.to_string())?;
        Ok(())
    });
    match ok {
        Ok(Ok(())) => Some((out, Some(schema), vec![])),
        _ => None,
    }
}

/// set 1-2 bytes of the data region (everything before the footer) to a small integer: bit widths of RLE / bit-packed runs,
/// level encodings, page-header enum values and varint lengths are single small bytes
fn corrupt_small_ints(t: &mut Tape, d: &mut [u8]) -> Vec<String> {
    let mut desc = vec![];
    if d.len() < 16 {
        return desc;
    }
    let flen = u32::from_le_bytes([d[d.len() - 8], d[d.len() - 7], d[d.len() - 6], d[d.len() - 5]]) as usize;
    let end = d.len().saturating_sub(8 + flen).max(5).min(d.len());
    for _ in 0..1 + t.below(2) {
        let p = 4 + t.below(end - 4);
        let v = *t.pick(&[8u8, 16, 32, 7, 9, 64, 0, 1, 15, 17, 31, 33, 24, 255, 128, 63]);
        d[p] = v;
        desc.push(format!("data byte {} = {}", p, v));
    }
    desc
}

/// little-endian u32 fields that look like lengths/offsets/counts (value below the file length, not zero)
fn plausible_fields(d: &[u8]) -> Vec<usize> {
    let mut v = vec![];
    let mut i = 0;
    while i + 4 <= d.len() {
        let x = u32::from_le_bytes([d[i], d[i + 1], d[i + 2], d[i + 3]]) as usize;
        if x > 0 && x <= d.len() + 64 {
            v.push(i);
        }
        i += 4;
    }
    v
}

fn corrupt(t: &mut Tape, d: &mut Vec<u8>, other: &[u8]) -> Vec<String> {
    let mut desc = vec![];
    let n = 1 + t.below(3);
    for _ in 0..n {
        if d.is_empty() {
            break;
        }
        // position biased to header / trailer / plausible length fields
        let pos = |t: &mut Tape, d: &Vec<u8>| -> usize {
            match t.below(4) {
                0 => t.below(d.len().min(96)),
                1 => d.len() - 1 - t.below(d.len().min(96)),
                _ => t.below(d.len()),
            }
        };
        match t.below(9) {
            0 => {
                let p = pos(t, d);
                let bit = t.below(8);
                d[p] ^= 1 << bit;
                desc.push(format!("flip bit {} of byte {}", bit, p));
            }
            1 => {
                let p = pos(t, d);
                let v = *t.pick(&[0u8, 0xff, 0x7f, 0x80, 1]);
                d[p] = v;
                desc.push(format!("byte {} = {:#x}", p, v));
            }
            2 | 3 | 4 => {
                let fields = plausible_fields(d);
                if fields.is_empty() {
                    continue;
                }
                let p = *t.pick(&fields);
                let cur = u32::from_le_bytes([d[p], d[p + 1], d[p + 2], d[p + 3]]);
                let v: u32 = match t.below(8) {
                    0 => cur.wrapping_add(1),
                    1 => cur.wrapping_sub(1),
                    2 => cur.wrapping_mul(2),
                    3 => 0x7fff_ffff,
                    4 => 0xffff_ffff,
                    5 => 0,
                    6 => cur.wrapping_add(8),
                    _ => cur | 0x8000_0000,
                };
                d[p..p + 4].copy_from_slice(&v.to_le_bytes());
                if t.chance(40) && p + 8 <= d.len() {
                    d[p + 4..p + 8].copy_from_slice(&[0xff, 0xff, 0xff, 0x7f]);
                }
                desc.push(format!("length-like u32 at {} : {} -> {}", p, cur, v));
            }
            5 => {
                let l = t.below(d.len() + 1);
                d.truncate(l);
                desc.push(format!("truncate to {}", l));
            }
            6 => {
                let a = t.below(d.len());
                let l = 1 + t.below((d.len() - a).min(64));
                let region: Vec<u8> = d[a..a + l].to_vec();
                let at = t.below(d.len() + 1);
                if t.bool() {
                    for (k, b) in region.iter().enumerate() {
                        d.insert(at + k, *b);
                    }
                    desc.push(format!("duplicate {}..{} at {}", a, a + l, at));
                } else {
                    d.drain(a..a + l);
                    desc.push(format!("delete {}..{}", a, a + l));
                }
            }
            7 if !other.is_empty() => {
                let cut = t.below(d.len());
                let from = t.below(other.len());
                d.truncate(cut);
                d.extend_from_slice(&other[from..]);
                desc.push(format!("splice: first {} bytes + other file from {}", cut, from));
            }
            _ => {
                let p = pos(t, d);
                let l = (1 + t.below(8)).min(d.len() - p);
                for k in 0..l {
                    d[p + k] = t.u8();
                }
                desc.push(format!("randomise {} bytes at {}", l, p));
            }
        }
    }
    desc
}

fn check_batch(b: &RecordBatch, what: &str) -> CaseResult {
    let s = b.schema();
    vp_engine::ensure!(s.fields().len() == b.num_columns(), format!("{}:schema-columns", what), "column count differs from schema");
    for (i, col) in b.columns().iter().enumerate() {
        vp_engine::ensure!(col.data_type() == s.field(i).data_type(), format!("{}:schema-type", what), "column {} type {} != schema {}", i, col.data_type(), s.field(i).data_type());
        vp_engine::ensure!(col.len() == b.num_rows(), format!("{}:column-len", what), "column {} length {} != rows {}", i, col.len(), b.num_rows());
        check_valid(col.as_ref(), what)?;
        // bounded accessor walk
        no_panic(&format!("{}:walk", what), || {
            let _ = vp_engine::extract::extract(col.as_ref());
        })?;
    }
    Ok(())
}

#[derive(Default)]
struct Outcome {
    opened: bool,
    batches: usize,
    err: Option<String>,
}

/// Drive the reader of `fmt` over `data`; every returned batch is validated.
fn read_all(fmt: Fmt, data: &[u8], schema: &Option<SchemaRef>, meta: &[u8]) -> Result<Outcome, Fail> {
    let mut o = Outcome::default();
    let what = format!("{:?}", fmt);
    let on_batch = |b: Result<RecordBatch, String>, o: &mut Outcome| -> Result<bool, Fail> {
        match b {
            Ok(b) => {
                check_batch(&b, &what)?;
                o.batches += 1;
                Ok(o.batches < 64)
            }
            Err(e) => {
                o.err = Some(e);
                Ok(false)
            }
        }
    };
    match fmt {
        Fmt::IpcFile => match arrow_ipc::reader::FileReader::try_new(Cursor::new(data), None) {
            Err(e) => o.err = Some(e.to_string()),
            Ok(r) => {
                o.opened = true;
                for b in r {
                    if !on_batch(b.map_err(|e| e.to_string()), &mut o)? {
                        break;
                    }
                }
            }
        },
        Fmt::IpcStream => match arrow_ipc::reader::StreamReader::try_new(Cursor::new(data), None) {
            Err(e) => o.err = Some(e.to_string()),
            Ok(r) => {
                o.opened = true;
                for b in r {
                    if !on_batch(b.map_err(|e| e.to_string()), &mut o)? {
                        break;
                    }
                }
            }
        },
        Fmt::IpcStreamDecoder => {
            let mut dec = arrow_ipc::reader::StreamDecoder::new();
            let mut buf = Buffer::from_slice_ref(data);
            o.opened = true;
            let mut guard = 0;
            while !buf.is_empty() {
                guard += 1;
                if guard > 100_000 {
                    return Err(Fail::new("IpcStreamDecoder:no-progress", "decode() made no progress for 100000 calls"));
                }
                match dec.decode(&mut buf) {
                    Ok(Some(b)) => {
                        if !on_batch(Ok(b), &mut o)? {
                            break;
                        }
                    }
                    Ok(None) => {}
                    Err(e) => {
                        o.err = Some(e.to_string());
                        break;
                    }
                }
            }
            if o.err.is_none() {
                if let Err(e) = dec.finish() {
                    o.err = Some(e.to_string());
                }
            }
        }
        Fmt::Parquet | Fmt::ParquetDict => match parquet::arrow::arrow_reader::ParquetRecordBatchReaderBuilder::try_new(Bytes::copy_from_slice(data)) {
            Err(e) => o.err = Some(e.to_string()),
            Ok(b) => match b.with_batch_size(7).build() {
                Err(e) => o.err = Some(e.to_string()),
                Ok(r) => {
                    o.opened = true;
                    for b in r {
                        if !on_batch(b.map_err(|e| e.to_string()), &mut o)? {
                            break;
                        }
                    }
                }
            },
        },
        Fmt::ParquetMeta => {
            use parquet::file::metadata::{PageIndexPolicy, ParquetMetaDataReader};
            let bytes = Bytes::copy_from_slice(data);
            match ParquetMetaDataReader::new().with_page_index_policy(PageIndexPolicy::Optional).parse_and_finish(&bytes) {
                Ok(m) => {
                    o.opened = true;
                    // traverse what was decoded
                    for rg in m.row_groups() {
                        for c in rg.columns() {
                            let _ = c.statistics();
                        }
                    }
                    let _ = m.file_metadata().schema_descr().num_columns();
                }
                Err(e) => o.err = Some(e.to_string()),
            }
        }
        Fmt::Csv => {
            let s = schema.clone().unwrap();
            match arrow_csv::ReaderBuilder::new(s).with_header(true).with_batch_size(5).build(Cursor::new(data)) {
                Err(e) => o.err = Some(e.to_string()),
                Ok(r) => {
                    o.opened = true;
                    for b in r {
                        if !on_batch(b.map_err(|e| e.to_string()), &mut o)? {
                            break;
                        }
                    }
                }
            }
        }
        Fmt::Json => {
            let s = schema.clone().unwrap();
            match arrow_json::ReaderBuilder::new(s).with_batch_size(5).build(Cursor::new(data)) {
                Err(e) => o.err = Some(e.to_string()),
                Ok(r) => {
                    o.opened = true;
                    for b in r {
                        if !on_batch(b.map_err(|e| e.to_string()), &mut o)? {
                            break;
                        }
                    }
                }
            }
        }
        Fmt::AvroOcf => match arrow_avro::reader::ReaderBuilder::new().with_batch_size(5).build(Cursor::new(data)) {
            Err(e) => o.err = Some(e.to_string()),
            Ok(r) => {
                o.opened = true;
                for b in r {
                    if !on_batch(b.map_err(|e| e.to_string()), &mut o)? {
                        break;
                    }
                }
            }
        },
        Fmt::Variant => {
            use parquet_variant_json::VariantToJson;
            match parquet_variant::Variant::try_new(meta, data) {
                Err(e) => o.err = Some(e.to_string()),
                Ok(v) => {
                    o.opened = true;
                    // a validated variant must be fully traversable
                    let _ = v.to_json_string();
                    o.batches = 1;
                }
            }
        }
    }
    Ok(o)
}

/// A Parquet file written with the low-level column writer (which does not look at the bytes): a BYTE_ARRAY column
/// annotated UTF8 whose values split one code point between two neighbouring values ("\xC3" | "\xA9..."), under each of
/// the byte-array encodings.  The concatenation of the values is valid UTF-8, every single value is not: the Arrow reader
/// must return an error or valid arrays.
fn sub_parquet_split_code_point(c: &mut Case) -> CaseResult {
    use parquet::basic::{ConvertedType, Encoding, Repetition, Type as PhysicalType};
    use parquet::data_type::{ByteArray, ByteArrayType};
    use parquet::file::properties::WriterProperties;
    use parquet::file::writer::SerializedFileWriter;
    use parquet::schema::types::Type;
    let encs = [Encoding::PLAIN, Encoding::DELTA_LENGTH_BYTE_ARRAY, Encoding::DELTA_BYTE_ARRAY];
    let enc = encs[(c.index as usize) % 3];
    let dict = (c.index / 3) % 2 == 1;
    c.describe(json!({"encoding": format!("{:?}", enc), "dictionary": dict, "values": "[\"a\\xC3\", \"\\xA9b\", \"\\xC3\", \"\\xA9\"]"}));
    c.class(format!("encoding:{:?}", enc));
    let schema = Arc::new(
        Type::group_type_builder("schema")
            .with_fields(vec![Arc::new(
                Type::primitive_type_builder("s", PhysicalType::BYTE_ARRAY).with_repetition(Repetition::REQUIRED).with_converted_type(ConvertedType::UTF8).build().unwrap(),
            )])
            .build()
            .unwrap(),
    );
    let props = Arc::new(WriterProperties::builder().set_dictionary_enabled(dict).set_encoding(enc).build());
    let mut out: Vec<u8> = vec![];
    let wrote = catch(|| -> Result<(), String> {
        let mut w = SerializedFileWriter::new(&mut out, schema, props).map_err(|e| e.to_string())?;
        let mut rg = w.next_row_group().map_err(|e| e.to_string())?;
        let mut col = rg.next_column().map_err(|e| e.to_string())?.ok_or("no column")?;
        let vals: Vec<ByteArray> = vec![ByteArray::from(vec![b'a', 0xC3]), ByteArray::from(vec![0xA9, b'b']), ByteArray::from(vec![0xC3]), ByteArray::from(vec![0xA9])];
        col.typed::<ByteArrayType>().write_batch(&vals, None, None).map_err(|e| e.to_string())?;
        col.close().map_err(|e| e.to_string())?;
        rg.close().map_err(|e| e.to_string())?;
        w.close().map_err(|e| e.to_string())?;
        Ok(())
    });
    if !matches!(wrote, Ok(Ok(()))) {
        c.class("writer-rejected");
        return Ok(());
    }
    let o = match catch(|| read_all(Fmt::Parquet, &out, &None, &[])) {
        Ok(r) => r.map_err(|f| Fail::new(format!("split-code-point:{}", f.sig.split(':').nth(1).unwrap_or("invalid")), f.msg))?,
        Err(p) => return Err(Fail::new("split-code-point:panic", format!("Parquet reader panicked at {}: {}", p.loc, p.msg))),
    };
    c.class(if o.err.is_some() { "rejected" } else { "accepted-valid" });
    c.eval();
    // the same file read as Utf8View (supplied schema)
    let view = catch(|| -> Result<Outcome, Fail> {
        use parquet::arrow::arrow_reader::{ArrowReaderOptions, ParquetRecordBatchReaderBuilder};
        let mut o = Outcome::default();
        let schema = Arc::new(arrow_schema::Schema::new(vec![arrow_schema::Field::new("s", arrow_schema::DataType::Utf8View, false)]));
        match ParquetRecordBatchReaderBuilder::try_new_with_options(Bytes::copy_from_slice(&out), ArrowReaderOptions::new().with_schema(schema)) {
            Err(e) => o.err = Some(e.to_string()),
            Ok(b) => match b.build() {
                Err(e) => o.err = Some(e.to_string()),
                Ok(r) => {
                    o.opened = true;
                    for b in r {
                        match b {
                            Ok(b) => {
                                check_batch(&b, "Parquet(view)")?;
                                o.batches += 1;
                            }
                            Err(e) => {
                                o.err = Some(e.to_string());
                                break;
                            }
                        }
                    }
                }
            },
        }
        Ok(o)
    });
    match view {
        Ok(r) => {
            r.map_err(|f| Fail::new(format!("split-code-point:view:{}", f.sig.split(':').nth(1).unwrap_or("invalid")), f.msg))?;
        }
        Err(p) => return Err(Fail::new("split-code-point:view:panic", format!("Parquet reader (Utf8View) panicked at {}: {}", p.loc, p.msg))),
    }
    c.eval();
    c.nontrivial();
    Ok(())
}

/// does the file's embedded Arrow schema declare a string type for a leaf whose Parquet column is not annotated UTF8
/// (or the other way round)?
fn parquet_schemas_disagree(data: &[u8]) -> bool {
    use parquet::arrow::arrow_reader::ArrowReaderMetadata;
    use parquet::basic::ConvertedType;
    let Ok(m) = ArrowReaderMetadata::load(&Bytes::copy_from_slice(data), Default::default()) else { return false };
    fn leaves(dt: &arrow_schema::DataType, out: &mut Vec<arrow_schema::DataType>) {
        use arrow_schema::DataType::*;
        match dt {
            List(f) | LargeList(f) | FixedSizeList(f, _) | ListView(f) | LargeListView(f) | Map(f, _) => leaves(f.data_type(), out),
            Struct(fs) => fs.iter().for_each(|f| leaves(f.data_type(), out)),
            Dictionary(_, v) => leaves(v, out),
            RunEndEncoded(_, v) => leaves(v.data_type(), out),
            t => out.push(t.clone()),
        }
    }
    let mut ls = vec![];
    for f in m.schema().fields() {
        leaves(f.data_type(), &mut ls);
    }
    let descr = m.metadata().file_metadata().schema_descr_ptr();
    if ls.len() != descr.num_columns() {
        return true;
    }
    ls.iter().zip(descr.columns()).any(|(a, c)| {
        let arrow_string = matches!(a, arrow_schema::DataType::Utf8 | arrow_schema::DataType::LargeUtf8 | arrow_schema::DataType::Utf8View);
        let parquet_string = c.converted_type() == ConvertedType::UTF8;
        let byte_array = matches!(c.physical_type(), parquet::basic::Type::BYTE_ARRAY | parquet::basic::Type::FIXED_LEN_BYTE_ARRAY);
        byte_array && arrow_string != parquet_string
    })
}

fn sub_corrupt(c: &mut Case, fmt: Fmt) -> CaseResult {
    let strict = c.strict;
    let mut excluded = vec![];
    let made = make_valid(&mut c.tape, fmt, strict, &mut excluded);
    c.excluded.extend(excluded);
    let Some((valid, schema, meta)) = made else {
        c.class("writer-rejected-schema");
        return Ok(());
    };
    // control: the uncorrupted file must read (guards against a harness that only produces rejected inputs)
    if c.tape.chance(16) {
        let o = no_panic(&format!("{:?}:valid-file", fmt), || read_all(fmt, &valid, &schema, &meta))??;
        if let Some(e) = o.err {
            // known limitations of writer/reader pairs are judged by C04/C05/C17, not here
            c.class("control:reader-rejects-valid-file");
            let _ = e;
        } else {
            c.class("control:accepted");
        }
        return Ok(());
    }
    let other = if c.tape.chance(40) { make_valid(&mut c.tape, fmt, strict, &mut vec![]).map(|x| x.0).unwrap_or_default() } else { vec![] };
    let mut data = valid.clone();
    let mut meta2 = meta.clone();
    let desc = if fmt == Fmt::ParquetDict && c.tape.chance(160) {
        corrupt_small_ints(&mut c.tape, &mut data)
    } else if fmt == Fmt::Variant && c.tape.bool() {
        corrupt(&mut c.tape, &mut meta2, &[])
    } else {
        corrupt(&mut c.tape, &mut data, &other)
    };
    c.describe(json!({"format": format!("{:?}", fmt), "file_len": valid.len(), "corruptions": desc}));
    // known finding (C17 F17): the Avro OCF reader can spin forever on a block whose records consume fewer bytes than
    // the block size; the read runs on a helper thread with a deadline and a hang is reported under that signature
    let o = if fmt == Fmt::AvroOcf {
        let (tx, rx) = std::sync::mpsc::channel();
        let d2 = data.clone();
        let s2 = schema.clone();
        std::thread::spawn(move || {
            vp_engine::runner::install_panic_hook();
            let r = catch(|| read_all(Fmt::AvroOcf, &d2, &s2, &[]));
            let _ = tx.send(r.map_err(|p| (p.sig(), p.loc, p.msg)));
        });
        match rx.recv_timeout(std::time::Duration::from_secs(if c.strict { 20 } else { 5 })) {
            Ok(Ok(r)) => r?,
            Ok(Err((sig, loc, msg))) => return Err(Fail::new(format!("AvroOcf:{}", sig), format!("Avro OCF reader panicked at {}: {}", loc, msg))),
            Err(_) => {
                vp_engine::runner::request_worker_retire();
                return Err(Fail::new("AvroOcf:hang", "Avro OCF reader did not finish within the deadline on a corrupted file (reader thread abandoned, worker retired)"));
            }
        }
    } else {
        match catch(|| read_all(fmt, &data, &schema, &meta2)) {
            Ok(Ok(r)) => r,
            Ok(Err(f)) => {
                // Known findings C08-parquet-utf8-validation-from-converted-type / C08-parquet-dict-value-type-from-converted-type:
                // string validation and dictionary value types follow the Parquet converted type, the array type follows the
                // Arrow schema. Only when the corrupted file's two schemas really disagree on a string column is an unvalidated
                // string / mistyped dictionary attributed to that root cause (one signature); otherwise it keeps its own.
                // Known finding C08-non-nullable-null-typed-child: ArrayData validation counts physical nulls only, so a
                // non-nullable field of type Null with rows passes although the typed constructors reject it
                if f.sig.contains("non-nullable child of type Null") {
                    return Err(Fail::new("reader:non-nullable-null-typed-child", f.msg));
                }
                let stringy = f.sig.contains("is not valid UTF-") || f.sig.contains("not valid UTF-") || f.sig.contains("dictionary values type mismatch");
                if matches!(fmt, Fmt::Parquet | Fmt::ParquetDict) && stringy && catch(|| parquet_schemas_disagree(&data)).unwrap_or(false) {
                    return Err(Fail::new("parquet:string-type-from-arrow-schema-validation-from-converted-type", f.msg));
                }
                return Err(f);
            }
            Err(p) => {
                // Known finding C08-ipc-unchecked-body-metadata: the IPC RecordBatchDecoder trusts FieldNode lengths, buffer
                // offsets/lengths and variadic counts of a (flatbuffer-verified) message and builds Buffers/ArrayData from them;
                // out-of-range values surface as assertion panics at many sites of arrow-buffer/arrow-data/arrow-array/
                // arrow-ipc. One root cause, one signature (invalid arrays, hangs, aborts keep their own signatures).
                let ipc = matches!(fmt, Fmt::IpcFile | Fmt::IpcStream | Fmt::IpcStreamDecoder);
                let site = ["/arrow-buffer/src/", "/arrow-data/src/", "/arrow-array/src/", "/arrow-ipc/src/reader"].iter().any(|d| p.loc.contains(d));
                if ipc && site {
                    return Err(Fail::new("ipc:panic:unchecked-body-metadata", format!("{:?} reader panicked at {}: {}", fmt, p.loc, p.msg)));
                }
                // Known finding C08-parquet-page-decode-panics: the Parquet page/level/value decoders index into page
                // bytes with counts and lengths taken from (corruptible) page headers and encoded data; out-of-range values
                // surface as slice-index / unwrap / arithmetic panics at many sites below parquet/src (and in arrow-buffer /
                // bytes reached from there). One root cause, one signature.
                // Known finding C08-variant-validated-traversal-panics: Variant::try_new accepts some corrupted values whose later
                // traversal / JSON rendering panics in parquet-variant/src/decoder.rs (slice ranges, timestamp arithmetic)
                if matches!(fmt, Fmt::Variant) {
                    return Err(Fail::new("variant:panic:validated-value-traversal", format!("Variant::try_new accepted the value but traversing it panicked at {}: {}", p.loc, p.msg)));
                }
                if matches!(fmt, Fmt::Parquet | Fmt::ParquetDict) {
                    return Err(Fail::new("parquet:panic:corrupted-page-data", format!("Parquet reader panicked at {}: {}", p.loc, p.msg)));
                }
                return Err(Fail::new(format!("{:?}:{}", fmt, p.sig()), format!("{:?} reader panicked at {}: {}", fmt, p.loc, p.msg)));
            }
        }
    };
    c.eval();
    let cls = if !o.opened {
        "rejected-at-open"
    } else if o.err.is_some() && o.batches == 0 {
        "rejected-later"
    } else if o.err.is_some() {
        "rows-then-error"
    } else {
        "accepted-valid"
    };
    c.class(cls);
    if o.opened {
        c.nontrivial();
    }
    Ok(())
}

fn main() {
    let mut check = Check::new(
        "C08",
        "exploration",
        "cases = a valid file written by the IPC file/stream, Parquet, CSV, JSON, Avro OCF writers (or a Variant value built by VariantBuilder) from generated batches, hit by 1-3 corruptions: bit flips and byte sets biased to header/trailer, inflation/deflation of plausible little-endian length/offset/count fields (+1, -1, x2, 0, 2^31-1, 2^32-1, sign bit), truncation, region duplication/deletion, splice with a second valid file, random bytes; fed to FileReader, StreamReader, StreamDecoder, ParquetRecordBatchReader, ParquetMetaDataReader (page index optional), csv/json Reader with the writer's schema, Avro OCF Reader, Variant::try_new + JSON rendering. Oracle: Err, or batches whose columns pass the independent validator and validate_full, agree with the reported schema and survive an accessor walk; no panic; no hang (watchdog); no single allocation above 128 MiB (capping allocator => abort => attributed by the parent process). Non-trivial = the reader got past opening (magic/footer/schema) before the corruption mattered.",
    )
    .assume("with_skip_validation / unsafe constructors are never used; any Err is fine; the worker runs in a subprocess so aborts are attributed to a case")
    .assume("hangs end the run with exit 2 (inconclusive) and a saved case, except the Avro OCF reader whose reads run under a 5 s deadline (known finding C17 F17)");
    for fmt in FMTS {
        let name: &'static str = match fmt {
            Fmt::IpcFile => "ipc_file",
            Fmt::IpcStream => "ipc_stream",
            Fmt::IpcStreamDecoder => "ipc_stream_decoder",
            Fmt::Parquet => "parquet",
            Fmt::ParquetMeta => "parquet_meta",
            Fmt::Csv => "csv",
            Fmt::Json => "json",
            Fmt::AvroOcf => "avro_ocf",
            Fmt::Variant => "variant",
            Fmt::ParquetDict => "parquet_dict",
        };
        let (q, th) = match fmt {
            Fmt::Parquet => (4000, 120000),
            Fmt::ParquetDict => (6000, 150000),
            Fmt::AvroOcf => (2000, 40000),
            _ => (5000, 150000),
        };
        let req: &[&'static str] = if matches!(fmt, Fmt::Csv | Fmt::Json | Fmt::IpcStreamDecoder) { &["rejected-later"] } else { &["rejected-at-open"] };
        check = check.sub(Sub::new(name, q, th, move |c| sub_corrupt(c, fmt)).tape(256, 6000).require(req));
    }
    check = check.sub(Sub::new("parquet_split_code_point", 0, 0, sub_parquet_split_code_point).enumerate(6, 6));
    check.run_isolated()
}
