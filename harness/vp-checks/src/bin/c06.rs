//! C06 — Parquet pushdown returns exactly what filtering a full read would; row selections are sets of positions.
use arrow_array::BooleanArray;
use arrow_buffer::BooleanBuffer;
use parquet::arrow::arrow_reader::{MaskRunIter, RowSelection, RowSelector};
use parquet::file::page_index::offset_index::PageLocation;
use serde_json::json;
use std::ops::Range;
use vp_engine::runner::*;
use vp_engine::tape::Tape;
use vp_engine::{ensure, fail};

#[path = "../pq_read.rs"]
mod pq_read;
use pq_read::*;

// =================================================================================================
// (a) pushdown
// =================================================================================================

/// does a selected run of the selection cross a page boundary of some column chunk of the chosen row groups?
fn run_crosses_page(f: &PqFile, cfg: &ReadCfg) -> bool {
    let Some(s) = &cfg.sel else { return false };
    let mut bounds: Vec<usize> = vec![];
    let mut off = 0;
    for rg in cfg.rgs(f) {
        for leaf in 0..f.nleaves {
            for &p in &f.page_starts[rg][leaf] {
                if p > 0 {
                    bounds.push(off + p);
                }
            }
        }
        off += f.rg_rows[rg];
    }
    bounds.iter().any(|&b| b < s.pos.len() && b > 0 && s.pos[b - 1] && s.pos[b])
}

fn plain_push() -> PushSched {
    PushSched {
        whole_file: 0,
        extra_early: false,
        deliver: Deliver::AllAtOnce,
        reorder: false,
        superset: 0,
        dup: 0,
        by_reader: false,
        hold_readers: false,
        rebuild: 0,
        premeta_decoder: true,
    }
}

fn pushdown_case(c: &mut Case, nconfigs: usize) -> CaseResult {
    let f = gen_file(c)?;
    f.file_classes(c);
    let opts = CfgOpts::default();
    let mut nonempty = 0;
    for k in 0..nconfigs {
        let cfg = gen_cfg(&mut c.tape, &f, &opts);
        // front-end: the synchronous reader (3/4) or the push decoder fed exactly what it asks for (1/4)
        let front = c.tape.below(4);
        c.describe(json!({"file": f.desc, "config_index": k, "config": cfg.describe(), "front": if front == 3 {"push"} else {"sync"}}));
        cfg.classes(&f, c);
        let exp = expected(&f, &cfg);
        let (what, res) = if front == 3 {
            c.class("front:push");
            let mut s = plain_push();
            s.by_reader = c.tape.bool();
            ("push", run_push(&mut c.tape, &f, &cfg, &s)?.0)
        } else {
            c.class("front:sync");
            ("sync", run_sync(&f, &cfg, front == 2)?)
        };
        let out = match res {
            Ok(o) => o,
            Err(e) => fail!(format!("{}:err", what), "read failed for a documented-valid configuration: {}", e),
        };
        check_against_expected(what, &out, &exp, cfg.eff_batch(&f))?;
        c.evals(1);
        // classes about what the configuration exercised
        if exp.nrows > 0 {
            nonempty += 1;
        }
        if exp.nrows == 0 {
            c.class("result:empty");
        } else if exp.nrows == cfg.rows(&f) {
            c.class("result:all-rows");
        } else {
            c.class("result:partial");
        }
        if out.batch_rows.len() >= 2 {
            c.class("result:multi-batch");
        }
        if out.batch_rows.iter().any(|b| *b == 0) {
            c.class("result:empty-batch-returned");
        }
        if let Some(l) = cfg.limit {
            if l > 0 && l == exp.stages[exp.stages.len() - 2] {
                c.class("limit:exactly-available");
            }
            if l > 0 && l % cfg.eff_batch(&f).max(1) == 0 {
                c.class("limit:multiple-of-batch");
            }
        }
        if let Some(o) = cfg.offset {
            let first = cfg.rgs(&f).first().map(|r| f.rg_rows[*r]).unwrap_or(0);
            if o >= first && first > 0 && cfg.sel.is_none() && cfg.preds.is_empty() {
                c.class("offset:consumes-first-row-group");
            }
        }
        if let Some(s) = &cfg.sel {
            if matches!(s.build, SelBuild::Mask(_)) && (cfg.offset.is_some() || cfg.limit.is_some()) {
                c.class("mask-backed-selection+offset/limit");
            }
        }
        let crosses = run_crosses_page(&f, &cfg);
        if crosses {
            c.class("sel:run-crosses-page");
        }
        let nt = f.max_pages >= 2
            && ((cfg.sel.as_ref().map(|s| s.nruns() >= 3).unwrap_or(false) && crosses)
                || (!cfg.preds.is_empty() && (cfg.offset.is_some() || cfg.limit.is_some())));
        if nt {
            c.nontrivial();
            c.class("nontrivial-config");
        }
    }
    c.class(format!("configs-with-rows:{}/4", nonempty * 4 / nconfigs.max(1)));
    Ok(())
}

fn sub_pushdown(c: &mut Case) -> CaseResult {
    let n = if c.tier == Tier::Quick { 8 } else { 20 };
    pushdown_case(c, n)
}

// =================================================================================================
// (b) selection algebra against a Vec<bool> position model
// =================================================================================================

fn runs_of(pos: &[bool]) -> Vec<(bool, usize)> {
    let mut out: Vec<(bool, usize)> = vec![];
    for &p in pos {
        match out.last_mut() {
            Some((k, n)) if *k == p => *n += 1,
            _ => out.push((p, 1)),
        }
    }
    out
}

fn gen_positions(t: &mut Tape, n: usize) -> Vec<bool> {
    let mut pos = vec![false; n];
    match t.below(8) {
        0 => {}
        1 => pos = vec![true; n],
        2 => {
            // alternating k / k2
            let k = *t.pick(&[1usize, 1, 2, 3, 31, 32, 33, 63, 64, 65]);
            let k2 = *t.pick(&[1usize, 2, 7, 32, 64]);
            let mut on = t.bool();
            let mut i = 0;
            while i < n {
                let len = if on { k } else { k2 };
                for p in pos.iter_mut().take((i + len).min(n)).skip(i) {
                    *p = on;
                }
                i += len;
                on = !on;
            }
        }
        3 => {
            for _ in 0..1 + t.below(4) {
                if n > 0 {
                    let p = t.below(n);
                    pos[p] = true;
                }
            }
        }
        4 => {
            pos = vec![true; n];
            for _ in 0..1 + t.below(4) {
                if n > 0 {
                    let p = t.below(n);
                    pos[p] = false;
                }
            }
        }
        5 => {
            for p in pos.iter_mut() {
                *p = t.bool();
            }
        }
        _ => {
            let scale = *t.pick(&[2usize, 5, 20, 70, 130]);
            let mut on = t.bool();
            let mut i = 0;
            while i < n {
                let len = 1 + t.below(scale);
                for p in pos.iter_mut().take((i + len).min(n)).skip(i) {
                    *p = on;
                }
                i += len;
                on = !on;
            }
        }
    }
    pos
}

#[derive(Clone, Copy, Debug, PartialEq)]
enum Backing {
    Selectors,
    Mask,
    Filters,
    Ranges,
}

/// build a RowSelection denoting `pos` through one of the public constructors
fn build_sel(t: &mut Tape, pos: &[bool]) -> (RowSelection, Backing) {
    let n = pos.len();
    match t.below(6) {
        0 | 1 => {
            let mut raw: Vec<RowSelector> = vec![];
            let noisy = t.bool();
            for (k, len) in runs_of(pos) {
                let mk = |k: bool, n: usize| if k { RowSelector::select(n) } else { RowSelector::skip(n) };
                if noisy && t.chance(60) {
                    raw.push(mk(t.bool(), 0));
                }
                if noisy && len >= 2 && t.chance(60) {
                    let a = 1 + t.below(len - 1);
                    raw.push(mk(k, a));
                    raw.push(mk(k, len - a));
                } else {
                    raw.push(mk(k, len));
                }
            }
            if noisy && t.chance(60) {
                raw.push(RowSelector::skip(0));
            }
            let s = if t.bool() { RowSelection::from(raw) } else { raw.into_iter().collect() };
            (s, Backing::Selectors)
        }
        2 | 3 => {
            let off = if t.bool() { 0 } else { t.bias_offset() };
            let mut v: Vec<bool> = (0..off).map(|i| i % 2 == 0).collect();
            v.extend_from_slice(pos);
            v.extend_from_slice(&[true, false, true]);
            let b = BooleanBuffer::from(v).slice(off, n);
            let s = if t.bool() { RowSelection::from_boolean_buffer(b) } else { RowSelection::from(b) };
            (s, Backing::Mask)
        }
        4 => {
            let mut arrs = vec![];
            let mut p = 0;
            while p < n {
                let k = if t.u8() >= 216 { 0 } else { 1 + t.below((n - p).min(100)) };
                arrs.push(BooleanArray::from(pos[p..p + k].to_vec()));
                p += k;
            }
            if t.chance(60) {
                arrs.push(BooleanArray::from(Vec::<bool>::new()));
            }
            (RowSelection::from_filters(&arrs), Backing::Filters)
        }
        _ => {
            let mut ranges: Vec<Range<usize>> = vec![];
            let mut p = 0;
            for (k, len) in runs_of(pos) {
                if k {
                    if len >= 2 && t.chance(80) {
                        let a = 1 + t.below(len - 1);
                        ranges.push(p..p + a);
                        ranges.push(p + a..p + len);
                    } else {
                        ranges.push(p..p + len);
                    }
                }
                if t.chance(40) {
                    ranges.push(p + len..p + len);
                }
                p += len;
            }
            (RowSelection::from_consecutive_ranges(ranges.into_iter(), n), Backing::Ranges)
        }
    }
}

/// positions denoted by a selection, read through `iter()`
fn denote(s: &RowSelection) -> Vec<bool> {
    let mut v = vec![];
    for r in s.iter() {
        v.extend(std::iter::repeat(!r.skip).take(r.row_count));
    }
    v
}

/// all observation channels of one selection agree with the model
fn check_sel(what: &str, s: &RowSelection, model: &[bool], constructed: bool) -> CaseResult {
    let d = no_panic(what, || denote(s))?;
    ensure!(d == model, format!("{}:positions", what), "denotes {} expected {}", show(&d), show(model));
    if let Some(m) = s.as_mask() {
        let bits: Vec<bool> = m.iter().collect();
        ensure!(bits == model, format!("{}:mask-bits", what), "as_mask() = {} but iter() = {}", show(&bits), show(&d));
        let mut v = vec![];
        let mut last: Option<bool> = None;
        for r in MaskRunIter::new(m) {
            ensure!(r.row_count > 0, format!("{}:mask-run-iter", what), "MaskRunIter produced an empty run");
            ensure!(last != Some(r.skip), format!("{}:mask-run-iter", what), "MaskRunIter produced two adjacent runs of the same kind");
            last = Some(r.skip);
            v.extend(std::iter::repeat(!r.skip).take(r.row_count));
        }
        ensure!(v == model, format!("{}:mask-run-iter", what), "MaskRunIter denotes {} expected {}", show(&v), show(model));
    } else if constructed {
        // documented invariants of the RLE backing
        let mut last: Option<bool> = None;
        for r in s.iter() {
            ensure!(r.row_count > 0, format!("{}:rle-invariant", what), "selector of 0 rows in {:?}", s);
            ensure!(last != Some(r.skip), format!("{}:rle-invariant", what), "consecutive selectors do not alternate in {:?}", s);
            last = Some(r.skip);
        }
    }
    let sel = model.iter().filter(|x| **x).count();
    ensure!(s.row_count() == sel, format!("{}:row_count", what), "row_count {} expected {}", s.row_count(), sel);
    ensure!(
        s.skipped_row_count() == model.len() - sel,
        format!("{}:skipped_row_count", what),
        "skipped_row_count {} expected {}",
        s.skipped_row_count(),
        model.len() - sel
    );
    ensure!(s.total_row_count() == model.len(), format!("{}:total_row_count", what), "total_row_count {} expected {}", s.total_row_count(), model.len());
    ensure!(s.selects_any() == (sel > 0), format!("{}:selects_any", what), "selects_any {} with {} selected", s.selects_any(), sel);
    Ok(())
}

fn show(v: &[bool]) -> String {
    let r = runs_of(v);
    let s: Vec<String> = r.iter().take(16).map(|(k, n)| format!("{}{}", if *k { "Y" } else { "N" }, n)).collect();
    format!("[{}{}]({})", s.join(" "), if r.len() > 16 { " …" } else { "" }, v.len())
}

fn gen_n(t: &mut Tape) -> usize {
    match t.below(8) {
        0 => *t.pick(&[0usize, 1, 2, 63, 64, 65, 127, 128, 129, 300]),
        1 => 200 + t.below(101),
        _ => t.below(80),
    }
}

fn sub_algebra(c: &mut Case) -> CaseResult {
    let t = &mut c.tape;
    let n = gen_n(t);
    let a_pos = gen_positions(t, n);
    let (a, a_back) = build_sel(t, &a_pos);
    let op = t.below(8);
    let mut classes: Vec<String> = vec![format!("a:{:?}", a_back)];
    let mut desc = json!({"n": n, "a": show(&a_pos), "a_backing": format!("{:?}", a_back)});
    check_sel("construct", &a, &a_pos, true)?;
    let mut evals = 1;
    let nruns = runs_of(&a_pos).len();
    match op {
        0 => {
            // and_then: b ranges over the rows selected by a
            classes.push("op:and_then".into());
            let k = a_pos.iter().filter(|x| **x).count();
            let b_pos = gen_positions(t, k);
            let (b, b_back) = build_sel(t, &b_pos);
            classes.push(format!("b:{:?}", b_back));
            desc["b"] = json!(show(&b_pos));
            desc["b_backing"] = json!(format!("{:?}", b_back));
            let mut want = vec![false; n];
            let mut j = 0;
            for i in 0..n {
                if a_pos[i] {
                    want[i] = b_pos[j];
                    j += 1;
                }
            }
            let r = no_panic("and_then", || a.and_then(&b))?;
            check_sel("and_then", &r, &want, false)?;
            // composing twice: (a.and_then(b)).and_then(c) where c ranges over the survivors
            let k2 = want.iter().filter(|x| **x).count();
            let c_pos = gen_positions(t, k2);
            let (cs, _) = build_sel(t, &c_pos);
            let mut want2 = vec![false; n];
            let mut j = 0;
            for i in 0..n {
                if want[i] {
                    want2[i] = c_pos[j];
                    j += 1;
                }
            }
            let r2 = no_panic("and_then", || r.and_then(&cs))?;
            check_sel("and_then", &r2, &want2, false)?;
            evals += 2;
        }
        1 | 2 => {
            // intersection / union, equal lengths (position-wise) or unequal lengths (tail of the longer kept, per the doc example)
            let equal = !t.chance(70);
            let m = if equal { n } else { gen_n(t) };
            let b_pos = gen_positions(t, m);
            let (b, b_back) = build_sel(t, &b_pos);
            classes.push(format!("b:{:?}", b_back));
            classes.push(if m == n { "lengths:equal".into() } else { "lengths:unequal".into() });
            desc["b"] = json!(show(&b_pos));
            desc["b_backing"] = json!(format!("{:?}", b_back));
            let is_and = op == 1;
            classes.push(if is_and { "op:intersection".into() } else { "op:union".into() });
            let name = if is_and { "intersection" } else { "union" };
            let r = no_panic(name, || if is_and { a.intersection(&b) } else { a.union(&b) })?;
            let common = n.min(m);
            let d = no_panic(name, || denote(&r))?;
            let pre: Vec<bool> = (0..common).map(|i| if is_and { a_pos[i] && b_pos[i] } else { a_pos[i] || b_pos[i] }).collect();
            ensure!(d.len() >= common && d[..common] == pre[..], format!("{}:positions", name), "{} of {} and {} = {} (common prefix expected {})", name, show(&a_pos), show(&b_pos), show(&d), show(&pre));
            let mut want = pre;
            if n > m {
                want.extend_from_slice(&a_pos[common..]);
            } else {
                want.extend_from_slice(&b_pos[common..]);
            }
            if m == n {
                check_sel(name, &r, &want, false)?;
            } else {
                // documented by example only: the tail of the longer operand passes through
                ensure!(d == want, format!("{}:unequal-tail", name), "{} of {} and {} = {} expected {}", name, show(&a_pos), show(&b_pos), show(&d), show(&want));
            }
            // commutes
            let r2 = no_panic(name, || if is_and { b.intersection(&a) } else { b.union(&a) })?;
            let d2 = no_panic(name, || denote(&r2))?;
            ensure!(d2 == d, format!("{}:commutes", name), "a·b = {} but b·a = {}", show(&d), show(&d2));
            evals += 2;
        }
        3 => {
            classes.push("op:split_off".into());
            let k = match t.below(5) {
                0 => 0,
                1 => n,
                2 => n + 1 + t.below(3),
                _ => t.below(n + 1),
            };
            desc["split"] = json!(k);
            let mut rest = a.clone();
            let head = no_panic("split_off", || rest.split_off(k))?;
            let cut = k.min(n);
            check_sel("split_off-head", &head, &a_pos[..cut], false)?;
            check_sel("split_off-rest", &rest, &a_pos[cut..], false)?;
            // splitting repeatedly (as the row-group frontier does) re-assembles the selection
            let mut rest = a.clone();
            let mut acc: Vec<bool> = vec![];
            let mut parts = vec![];
            let mut guard = 0;
            while rest.total_row_count() > 0 && guard < 400 {
                guard += 1;
                let step = 1 + t.below(90);
                let h = no_panic("split_off", || rest.split_off(step))?;
                acc.extend(denote(&h));
                parts.push(h);
            }
            ensure!(acc == a_pos, "split_off:reassemble", "pieces concatenate to {} expected {}", show(&acc), show(&a_pos));
            // FromIterator<RowSelection> concatenates
            let joined: RowSelection = no_panic("concat", || parts.into_iter().collect())?;
            check_sel("concat", &joined, &a_pos, false)?;
            evals += 3;
        }
        4 => {
            // two constructions of the same positions are equal, different positions are not
            classes.push("op:eq".into());
            let (a2, b2) = build_sel(t, &a_pos);
            classes.push(format!("b:{:?}", b2));
            ensure!(no_panic("eq", || a == a2 && a2 == a)?, "eq:same-positions", "{:?} and {:?} construction of {} compare unequal", a_back, b2, show(&a_pos));
            if n > 0 {
                let mut other = a_pos.clone();
                let i = t.below(n);
                other[i] = !other[i];
                let (o, _) = build_sel(t, &other);
                ensure!(no_panic("eq", || a != o && o != a)?, "eq:different-positions", "selections differing at row {} compare equal ({})", i, show(&a_pos));
            }
            evals += 2;
        }
        _ => {
            // scan_ranges over generated page locations
            classes.push("op:scan_ranges".into());
            let mut firsts: Vec<usize> = vec![];
            if n > 0 {
                firsts.push(0);
                let style = t.below(3);
                let mut p = 0usize;
                loop {
                    let step = match style {
                        0 => 1 + t.below(50),
                        1 => *t.pick(&[1usize, 2, 10, 32]),
                        _ => 1 + t.below(5),
                    };
                    p += step;
                    if p >= n {
                        break;
                    }
                    firsts.push(p);
                }
            }
            let mut off = 4 + t.below(100) as i64;
            let mut pages: Vec<PageLocation> = vec![];
            for f in &firsts {
                let size = 1 + t.below(200) as i32;
                pages.push(PageLocation { offset: off, compressed_page_size: size, first_row_index: *f as i64 });
                off += size as i64 + if t.chance(40) { t.below(30) as i64 } else { 0 };
            }
            desc["pages_first_rows"] = json!(firsts.iter().take(40).collect::<Vec<_>>());
            let mut want: Vec<Range<u64>> = vec![];
            for (i, p) in pages.iter().enumerate() {
                let end = firsts.get(i + 1).copied().unwrap_or(n);
                if a_pos[firsts[i]..end].iter().any(|x| *x) {
                    want.push(p.offset as u64..(p.offset + p.compressed_page_size as i64) as u64);
                }
            }
            let got = no_panic("scan_ranges", || a.scan_ranges(&pages))?;
            ensure!(got == want, "scan_ranges:pages", "selection {} over pages starting at rows {:?}: ranges {:?} expected {:?}", show(&a_pos), firsts, got, want);
            if pages.len() >= 2 {
                classes.push("scan:multi-page".into());
            }
            evals += 1;
        }
    }
    for k in classes {
        c.class(k);
    }
    c.describe(desc);
    if nruns >= 3 {
        c.nontrivial();
    }
    c.evals(evals);
    Ok(())
}

// =================================================================================================
// reproduction of known finding "delta-skip" (only run through known_findings.json / --replay; 0 generated cases)
// =================================================================================================

/// Int32 column [MIN, 0, MIN, 0, ...] (constant wrapping delta i32::MIN), V2 pages without dictionary
/// (DELTA_BINARY_PACKED); selection skip 3, select 5.
fn sub_repro_delta_skip(c: &mut Case) -> CaseResult {
    c.describe(json!({"column": "Int32 non-null [MIN,0,MIN,0,MIN,0,MIN,0]", "writer": "PARQUET_2_0, dictionary disabled", "selection": "skip 3, select 5"}));
    match no_panic("delta-skip", delta_skip_repro)? {
        Ok((got, want)) => ensure!(got == want, "delta-skip:rows", "got {:?} expected {:?}", got, want),
        Err(e) => fail!("delta-skip:err", "reading rows 3..8 of a valid file failed: {}", e),
    }
    c.evals(1);
    Ok(())
}

fn main() {
    Check::new(
        "C06",
        "exploration",
        "pushdown: case = (generated Parquet file, 8/20 read configurations); non-trivial = a configuration on a file with >=2 pages in some column chunk whose selection has >=3 runs one of which crosses a page boundary, or with >=1 predicate plus offset/limit. selection_algebra: case = (selection(s) over 0..300 rows, operation); non-trivial = >=3 runs",
    )
    .assume("reference = one unrestricted sync read of the same file (checked equal to what was written), evaluated in memory in the documented order: row groups -> selection -> predicates in sequence on survivors -> offset -> limit -> projection")
    .assume("row selections cover exactly the rows of the chosen row groups (builder documentation); row-group lists are subsets in file order; predicates are pure functions of the row (null = not selected); batch size >= 1")
    .assume("RowSelection::{offset,limit,trim,expand_to_batch_boundaries} are pub(crate): exercised only through with_offset/with_limit and the push decoder's cache expansion, not called directly (no source hook)")
    .assume("intersection/union of unequal lengths: common prefix position-wise, tail of the longer operand kept (doc example)")
    .sub(
        Sub::new("pushdown", 20000, 200000, sub_pushdown).tape(1500, 8000).require(&[
            "file:nested",
            "file:flat",
            "file:no-offset-index",
            "file:multi-page",
            "front:push",
            "sel:run-crosses-page",
            "selbuild:selectors+empty-runs",
            "selbuild:mask",
            "policy:mask",
            "policy:selectors",
            "pred:returns-null",
            "preds=3",
            "offset",
            "limit",
            "nontrivial-config",
            "mask-backed-selection+offset/limit",
            "col:dictionary",
            "col:list-of-struct",
            "file:row-groups=1",
        ]),
    )
    .sub(Sub::new("repro_delta_skip", 0, 0, sub_repro_delta_skip))
    .sub(Sub::new("selection_algebra", 400000, 4000000, sub_algebra).tape(64, 1500).require(&[
        "op:and_then",
        "op:intersection",
        "op:union",
        "op:split_off",
        "op:scan_ranges",
        "op:eq",
        "lengths:unequal",
        "a:Mask",
        "a:Selectors",
    ]))
    .run()
}
