//! temporary probe (deleted before delivery)
use arrow_array::types::*;
use arrow_array::*;
use arrow_buffer::ScalarBuffer;
use arrow_row::{RowConverter, SortField};
use arrow_schema::*;
use std::sync::Arc;

fn union(mode: UnionMode, ids: Vec<i8>, fields: Vec<Field>, type_ids: Vec<i8>, offsets: Option<Vec<i32>>, children: Vec<ArrayRef>) -> ArrayRef {
    let uf = UnionFields::try_new(ids, fields).unwrap();
    let _ = mode;
    Arc::new(UnionArray::try_new(uf, ScalarBuffer::from(type_ids), offsets.map(ScalarBuffer::from), children).unwrap())
}

fn main() {
    // 1. sparse union with a dictionary child
    {
        let dict: DictionaryArray<Int32Type> = vec!["a", "b", "a"].into_iter().collect();
        let u = union(UnionMode::Sparse, vec![0], vec![Field::new("a", dict.data_type().clone(), true)], vec![0, 0, 0], None, vec![Arc::new(dict)]);
        let conv = RowConverter::new(vec![SortField::new(u.data_type().clone())]).unwrap();
        let rows = conv.convert_columns(&[u.clone()]).unwrap();
        let r = std::panic::catch_unwind(std::panic::AssertUnwindSafe(|| conv.convert_rows(&rows)));
        match r {
            Ok(Ok(out)) => {
                let ua = out[0].as_any().downcast_ref::<UnionArray>().unwrap();
                println!("1. union<dict>: declared {} ; actual child type {} ; validate_full {:?}", out[0].data_type(), ua.child(0).data_type(), out[0].to_data().validate_full());
            }
            Ok(Err(e)) => println!("1. union<dict>: Err {}", e),
            Err(_) => println!("1. union<dict>: panic"),
        }
    }
    // 2. dense union with type ids 0 and 2
    {
        let a = Int32Array::from(vec![Some(1), None]);
        let b = StringArray::from(vec![Some("x")]);
        let u = union(UnionMode::Dense, vec![0, 2], vec![Field::new("a", DataType::Int32, true), Field::new("b", DataType::Utf8, true)], vec![0, 2, 0], Some(vec![0, 0, 1]), vec![Arc::new(a), Arc::new(b)]);
        let conv = RowConverter::new(vec![SortField::new(u.data_type().clone())]).unwrap();
        let rows = conv.convert_columns(&[u.clone()]).unwrap();
        let r = std::panic::catch_unwind(std::panic::AssertUnwindSafe(|| conv.convert_rows(&rows).map(|o| format!("{:?}", o[0]))));
        println!("2. dense ids [0,2]: {:?}", r.map_err(|_| "panic"));
        // ids [1,0] (permuted)
        let a = Int32Array::from(vec![Some(1), Some(5)]);
        let b = StringArray::from(vec![Some("x")]);
        let u = union(UnionMode::Dense, vec![1, 0], vec![Field::new("a", DataType::Int32, true), Field::new("b", DataType::Utf8, true)], vec![1, 0, 1], Some(vec![0, 0, 1]), vec![Arc::new(a), Arc::new(b)]);
        let conv = RowConverter::new(vec![SortField::new(u.data_type().clone())]).unwrap();
        let rows = conv.convert_columns(&[u.clone()]).unwrap();
        let r = std::panic::catch_unwind(std::panic::AssertUnwindSafe(|| conv.convert_rows(&rows).map(|o| format!("{:?} equal_to_input={}", o[0], o[0].as_ref() == u.as_ref()))));
        println!("2b. dense ids [1,0]: {:?}", r.map_err(|_| "panic"));
    }
    // 3. union order under descending
    {
        let a = Int32Array::from(vec![1, 2, 3]);
        let u = union(UnionMode::Sparse, vec![0], vec![Field::new("a", DataType::Int32, true)], vec![0, 0, 0], None, vec![Arc::new(a)]);
        for desc in [false, true] {
            let o = SortOptions { descending: desc, nulls_first: true };
            let conv = RowConverter::new(vec![SortField::new_with_options(u.data_type().clone(), o)]).unwrap();
            let rows = conv.convert_columns(&[u.clone()]).unwrap();
            let cmp = arrow_ord::ord::make_comparator(u.as_ref(), u.as_ref(), o).unwrap();
            println!("3. desc={}: row(1) vs row(2) = {:?}, make_comparator(1,2) = {:?}", desc, rows.row(0).cmp(&rows.row(1)), cmp(0, 1));
        }
    }
    // 4. UnionArray::logical_nulls single dense field with id 1
    {
        let a = Int32Array::from(vec![None, Some(1)]);
        let u = union(UnionMode::Dense, vec![1], vec![Field::new("a", DataType::Int32, true)], vec![1, 1], Some(vec![0, 1]), vec![Arc::new(a)]);
        println!("4. dense single field id 1: logical_nulls = {:?}", u.logical_nulls());
        let a = Int32Array::from(vec![None, Some(1)]);
        let u = union(UnionMode::Dense, vec![0], vec![Field::new("a", DataType::Int32, true)], vec![0, 0], Some(vec![0, 1]), vec![Arc::new(a)]);
        println!("4b. dense single field id 0: logical_nulls = {:?}", u.logical_nulls().map(|n| n.null_count()));
    }
    // 5. take on zero-width fixed-size types
    {
        let fsb = FixedSizeBinaryArray::try_new_with_len(0, arrow_buffer::Buffer::from_vec(Vec::<u8>::new()), None, 3).unwrap();
        let idx = UInt32Array::from(vec![2, 0]);
        let r = std::panic::catch_unwind(std::panic::AssertUnwindSafe(|| arrow_select::take::take(&fsb, &idx, None).map(|a| a.len())));
        println!("5. take(FixedSizeBinary(0) len 3, [2,0]).len() = {:?}", r.map_err(|_| "panic"));
        let child = Int32Array::from(Vec::<i32>::new());
        let fsl = FixedSizeListArray::try_new_with_length(Arc::new(Field::new("item", DataType::Int32, true)), 0, Arc::new(child), None, 3).unwrap();
        let r = std::panic::catch_unwind(std::panic::AssertUnwindSafe(|| arrow_select::take::take(&fsl, &idx, None).map(|a| a.len())));
        println!("5b. take(FixedSizeList(0) len 3, [2,0]).len() = {:?}", r.map_err(|_| "panic"));
        let r = std::panic::catch_unwind(std::panic::AssertUnwindSafe(|| arrow_ord::sort::sort(&fsl, None).map(|a| a.len())));
        println!("5c. sort(FixedSizeList(0) len 3).len() = {:?}", r.map_err(|_| "panic"));
    }
    {
        let idx = UInt32Array::from(vec![2, 0]);
        let child = Int32Array::from(Vec::<i32>::new());
        let nulls = arrow_buffer::NullBuffer::from(vec![true, false, true]);
        let fsl = FixedSizeListArray::try_new_with_length(Arc::new(Field::new("item", DataType::Int32, true)), 0, Arc::new(child), Some(nulls), 3).unwrap();
        let r = std::panic::catch_unwind(std::panic::AssertUnwindSafe(|| arrow_select::take::take(&fsl, &idx, None).map(|a| a.len())));
        println!("5d. take(FixedSizeList(0) len 3 with a null, [2,0]).len() = {:?}", r.map_err(|_| "panic"));
        let idx = UInt32Array::from(vec![2, 1]);
        let r = std::panic::catch_unwind(std::panic::AssertUnwindSafe(|| arrow_select::take::take(&fsl, &idx, None).map(|a| a.len())));
        println!("5e. take(FixedSizeList(0) len 3 with a null, [2,1]).len() = {:?}", r.map_err(|_| "panic"));
        let o = Some(SortOptions { descending: false, nulls_first: true });
        let r = std::panic::catch_unwind(std::panic::AssertUnwindSafe(|| arrow_ord::sort::sort_limit(&fsl, o, Some(2)).map(|a| a.len())));
        println!("5f. sort_limit(FixedSizeList(0) [v,null,v], 2).len() = {:?}", r.map_err(|_| "panic"));
        let r = std::panic::catch_unwind(std::panic::AssertUnwindSafe(|| arrow_ord::sort::sort_limit(&fsl.slice(1, 2), o, Some(2)).map(|a| a.len())));
        println!("5g. sort_limit(sliced).len() = {:?}", r.map_err(|_| "panic"));
        let fsb = FixedSizeBinaryArray::try_new_with_len(0, arrow_buffer::Buffer::from_vec(Vec::<u8>::new()), Some(arrow_buffer::NullBuffer::from(vec![true, false, true])), 3).unwrap();
        let r = std::panic::catch_unwind(std::panic::AssertUnwindSafe(|| arrow_ord::sort::sort_limit(&fsb, o, Some(1)).map(|a| a.len())));
        println!("5h. sort_limit(FixedSizeBinary(0) [v,null,v], 1).len() = {:?}", r.map_err(|_| "panic"));
        let fsb = FixedSizeBinaryArray::try_new_with_len(0, arrow_buffer::Buffer::from_vec(Vec::<u8>::new()), None, 3).unwrap();
        let r = std::panic::catch_unwind(std::panic::AssertUnwindSafe(|| arrow_ord::sort::sort_limit(&fsb, o, Some(1)).map(|a| a.len())));
        println!("5i. sort_limit(FixedSizeBinary(0) no nulls, 1).len() = {:?}", r.map_err(|_| "panic"));
    }
    // 6. scalar vs scalar with dictionary rhs
    {
        let l = Scalar::new(Int32Array::from(vec![5]));
        let values = Int32Array::from(vec![1, 5]);
        let keys = Int8Array::from(vec![1]);
        let d = DictionaryArray::new(keys, Arc::new(values));
        let r = Scalar::new(d);
        let res = std::panic::catch_unwind(std::panic::AssertUnwindSafe(|| arrow_ord::cmp::eq(&l, &r).map(|b| format!("{:?}", b))));
        println!("6. eq(scalar 5, scalar dict(key 1 -> 5)) = {:?}", res.map_err(|_| "panic"));
    }
    // 7. empty slice of a run array at an offset
    {
        let re = Int32Array::from(vec![1, 4]);
        let v = Int32Array::from(vec![7, 8]);
        let ra = RunArray::<Int32Type>::try_new(&re, &v).unwrap();
        let s = ra.slice(3, 0);
        let e = DictionaryArray::new(Int8Array::from(Vec::<i8>::new()), Arc::new(Int32Array::from(vec![1])));
        let res = std::panic::catch_unwind(std::panic::AssertUnwindSafe(|| arrow_ord::cmp::eq(&s, &e).map(|b| b.len())));
        println!("7. eq(run_array.slice(3,0), empty Int32) = {:?}", res.map_err(|_| "panic"));
    }
    // 8. boolean array with value bit offset fails ArrayData::validate
    {
        let vals = arrow_buffer::BooleanBuffer::new(arrow_buffer::Buffer::from_vec(vec![0u8; 4]), 9, 10);
        let nulls = arrow_buffer::NullBuffer::new(arrow_buffer::BooleanBuffer::new(arrow_buffer::Buffer::from_vec(vec![0xffu8, 0x01]), 0, 10));
        let b = BooleanArray::new(vals, Some(nulls));
        println!("8. BooleanArray(values bit offset 9, len 10, 2-byte validity).to_data().validate() = {:?}", b.to_data().validate());
    }
}
